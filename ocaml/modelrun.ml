(* Driver for the extracted Coq model (ocaml/gen/model.ml).
   Reads one case per line "<component>\t<arg>\t<arg>..." (further columns are ignored by each
   component as documented there) and prints one canonical result line per case.
   Cryptographic primitives are NOT implemented here: the model is parameterised over a record of
   primitives and this driver fills it with closures that ask a primitive server (the Rust harness,
   `harness primserver`, real RustCrypto) over a pipe. *)
open Model
type string = Stdlib.String.t   (* Model extracts Coq's `string` (Model/Config.v); keep OCaml's name for OCaml's type *)

(* ---------- conversions between OCaml values and the extracted inductive numbers ---------- *)
let n_double = function N0 -> N0 | Npos p -> Npos (XO p)
let n_succ_double = function N0 -> Npos XH | Npos p -> Npos (XI p)

let hexval c = match c with
  | '0'..'9' -> Char.code c - 48 | 'a'..'f' -> Char.code c - 87 | 'A'..'F' -> Char.code c - 55
  | _ -> failwith "hex"

let n_of_hex (s : string) : n =
  let acc = ref N0 in
  String.iter (fun c -> let v = hexval c in
    for b = 3 downto 0 do
      acc := if (v lsr b) land 1 = 1 then n_succ_double !acc else n_double !acc
    done) s; !acc

let n_of_int (i : int) : n =
  let rec pos i = if i = 1 then XH else if i land 1 = 1 then XI (pos (i lsr 1)) else XO (pos (i lsr 1)) in
  if i = 0 then N0 else Npos (pos i)

let rec int_of_pos = function XH -> 1 | XO p -> 2 * int_of_pos p | XI p -> 2 * int_of_pos p + 1
let int_of_n = function N0 -> 0 | Npos p -> int_of_pos p

let hex_of_n (x : n) : string =
  (* arbitrary size: collect bits LSB first *)
  let rec bits p acc = match p with XH -> 1 :: acc | XO q -> bits q (0 :: acc) | XI q -> bits q (1 :: acc) in
  match x with
  | N0 -> "0"
  | Npos p ->
    let bl = List.rev (bits p []) in (* LSB first *)
    let arr = Array.of_list bl in
    let nb = Array.length arr in
    let nd = (nb + 3) / 4 in
    let buf = Bytes.make nd '0' in
    for d = 0 to nd - 1 do
      let v = ref 0 in
      for b = 0 to 3 do let i = 4 * d + b in if i < nb && arr.(i) = 1 then v := !v lor (1 lsl b) done;
      Bytes.set buf (nd - 1 - d) "0123456789abcdef".[!v]
    done; Bytes.to_string buf

let rec nat_of_int i = if i <= 0 then O else S (nat_of_int (i - 1))
let rec int_of_nat = function O -> 0 | S k -> 1 + int_of_nat k

let bytes_of_hex (s : string) : n list =
  let l = String.length s / 2 in
  List.init l (fun i -> n_of_int (hexval s.[2*i] * 16 + hexval s.[2*i+1]))

let hex_of_bytes (l : n list) : string =
  let b = Buffer.create 64 in
  List.iter (fun x -> Buffer.add_string b (Printf.sprintf "%02x" (int_of_n x land 255))) l; Buffer.contents b

let split_on c s = if s = "" then [] else String.split_on_char c s

(* ---------- primitive server ---------- *)
let prim_chan : (in_channel * out_channel) option ref = ref None
let prim_log : Buffer.t = Buffer.create 256
let prim_connect () = match !prim_chan with
  | Some c -> c
  | None ->
    let cmd = try Sys.getenv "VERIF_PRIMSERVER" with Not_found -> failwith "VERIF_PRIMSERVER not set" in
    let c = Unix.open_process cmd in prim_chan := Some c; c

(* ask "<prim> <hexarg> ..." ; answer "= <hex>" or "!" *)
let prim_ask (q : string) : string option =
  let (ic, oc) = prim_connect () in
  output_string oc q; output_char oc '\n'; flush oc;
  let a = input_line ic in
  if String.length a >= 1 && a.[0] = '!' then None
  else if String.length a >= 2 && a.[0] = '=' then Some (String.sub a 2 (String.length a - 2))
  else if a = "=" then Some ""
  else failwith ("primserver: " ^ a)

let hx l = let s = hex_of_bytes l in if s = "" then "-" else s

(* ---------- components ---------- *)
let bits_of_bools l = String.concat "" (List.map (fun b -> if b then "1" else "0") l)

let string_of_err = function
  | EAead -> "Aead" | EBadType -> "BadType" | EBadTime -> "BadTime" | EReplay -> "Replay" | EBadUser -> "BadUser"
  | EBadPassword -> "BadPassword" | EBadAddrType -> "BadAddrType" | EBadCmd -> "BadCmd" | EShort -> "Short"
  | EBadVersion -> "BadVersion" | EBadAuth -> "BadAuth" | EUtf8 -> "Utf8" | EBadLen -> "BadLen" | EOther -> "Other"

let show_res (f : 'a -> string) (r : 'a res) : string =
  match r with Ok a -> "OK " ^ f a | Err e -> "ERR " ^ string_of_err e | Panic -> "PANIC"

let addr_str = function
  | ADom (h, p) -> Printf.sprintf "D:%s:%d" (hx h) (int_of_n p)
  | AV4 (ip, p) -> Printf.sprintf "4:%s:%d" (hx ip) (int_of_n p)
  | AV6 (ip, p) -> Printf.sprintf "6:%s:%d" (hx ip) (int_of_n p)

let parse_addr (s : string) : addr =
  match String.split_on_char ':' s with
  | [k; h; p] ->
    let b = if h = "-" then [] else bytes_of_hex h in
    let p = n_of_int (int_of_string p) in
    (match k with "D" -> ADom (b, p) | "4" -> AV4 (b, p) | _ -> AV6 (b, p))
  | _ -> failwith "addr"

let unhex s = if s = "-" then [] else bytes_of_hex s

(* ---------- the primitive record: every field asks the primitive server ---------- *)
let cipher_name c = match int_of_n c with 0 -> "aes128gcm" | 1 -> "aes256gcm" | 2 -> "chacha20" | 3 -> "chacha8" | 4 -> "xchacha20" | _ -> "xchacha8"
let ask_bytes q = match prim_ask q with Some h -> unhex h | None -> failwith ("primitive failed: " ^ q)
let prims : prims = {
  p_seal = (fun c k n a m -> ask_bytes (Printf.sprintf "seal %s %s %s %s %s" (cipher_name c) (hx k) (hx n) (hx a) (hx m)));
  p_open = (fun c k n a m -> match prim_ask (Printf.sprintf "open %s %s %s %s %s" (cipher_name c) (hx k) (hx n) (hx a) (hx m)) with Some h -> Some (unhex h) | None -> None);
  p_hkdf_sha1 = (fun ikm salt info len -> ask_bytes (Printf.sprintf "hkdf1 %s %s %s %d" (hx ikm) (hx salt) (hx info) (int_of_n len)));
  p_b3derive = (fun ctx m -> ask_bytes (Printf.sprintf "b3derive %s %s" (hx ctx) (hx m)));
  p_b3hash = (fun m -> ask_bytes ("b3hash " ^ hx m));
  p_aes_enc = (fun k b -> ask_bytes (Printf.sprintf "aesenc %s %s" (hx k) (hx b)));
  p_aes_dec = (fun k b -> ask_bytes (Printf.sprintf "aesdec %s %s" (hx k) (hx b)));
  p_md5 = (fun m -> ask_bytes ("md5 " ^ hx m));
  p_sha224 = (fun m -> ask_bytes ("sha224 " ^ hx m));
  p_sha256 = (fun m -> ask_bytes ("sha256 " ^ hx m));
  p_shake128 = (fun seed n -> ask_bytes (Printf.sprintf "shake128 %s %d" (hx seed) (int_of_n n)));
  p_crc32 = (fun m -> n_of_hex (hex_of_bytes (ask_bytes ("crc32 " ^ hx m))));
}

let csv s = if s = "-" || s = "" then [] else String.split_on_char ',' s
let kind_of = function
  | "a128" -> K_A128 | "a256" -> K_A256 | "cc20" -> K_CC20 | "22a128" -> K22_A128 | "22a256" -> K22_A256
  | "22cc8" -> K22_CC8 | _ -> K22_CC20

let fstatus_str = function
  | Waiting -> "WAIT" | Failed e -> "ERR " ^ string_of_err e | Panicked -> "PANIC" | Livelock -> "LIVELOCK"

(* sstcp: script on one codec instance, mirrored op by op *)
let run_sstcp kind key ikeys users mode own_salt addr now ops =
  let cx = { c_kind = kind_of kind; c_key = unhex key; c_ikeys = List.map unhex (csv ikeys);
             c_users = (if users = "none" then None else Some (List.map (fun u ->
               match String.split_on_char ':' u with [h; k] -> { u_hash = unhex h; u_key = unhex k } | _ -> failwith "user") (csv users))) } in
  let md = if mode = "client" then Client else Server in
  let now = ref (n_of_int (int_of_string now)) in
  let new_sess () = { s_mode = md; s_salt = unhex own_salt; s_req_salt = None; s_user = None;
                      s_addr = (if addr = "-" then None else Some (parse_addr addr)) } in
  let cache = ref [] and sess = ref (new_sess ()) and cd = ref codec_new and buf = ref [] and dead = ref false in
  let cur = ref 0 and parked = ref [] in
  let dec (s, d) src =
    let (c', r) = ss_decode prims cx !now !cache s d src in
    cache := c';
    match r with
    | Ok (((s', d'), src'), it) -> Ok (((s', d'), src'), it)
    | Err e -> Err e | Panic -> Panic in
  let outs = List.map (fun op ->
    if op = "" then None else
    let c = op.[0] and arg = String.sub op 1 (String.length op - 1) in
    if !dead && c <> 'N' && c <> 'S' && c <> 'T' then Some "SKIP" else
    match c with
    | 'T' -> now := n_of_int (int_of_string arg); Some "CLOCK"
    | 'S' ->
      let k = int_of_string arg in
      parked := (!cur, (!sess, !cd, !buf, !dead)) :: List.remove_assoc !cur !parked;
      (match List.assoc_opt k !parked with
       | Some (s, d, b, dd) -> sess := s; cd := d; buf := b; dead := dd; parked := List.remove_assoc k !parked
       | None -> sess := new_sess (); cd := codec_new; buf := []; dead := false);
      cur := k; Some (Printf.sprintf "CONN%d" k)
    | 'N' -> sess := new_sess (); cd := codec_new; buf := []; dead := false; Some "NEW"
    | 'E' | 'e' ->
      (match ss_encode prims cx !now [] !sess !cd (unhex arg) with
       | Ok (cd', out) -> cd := cd'; Some (if c = 'E' then "OK " ^ hx out else "OK")
       | Err e -> dead := true; Some ("ERR " ^ string_of_err e)
       | Panic -> dead := true; Some "PANIC")
    | _ ->
      let ((((s', d'), b'), items), st) = feed dec (!sess, !cd) !buf (unhex arg) in
      let its = String.concat "," (List.map hx items) in
      (match st with
       | Waiting -> sess := s'; cd := d'; buf := b';
         Some (Printf.sprintf "WAIT [%s] rest=%d addr=%s" its (List.length b') (match s'.s_addr with Some a -> addr_str a | None -> "-"))
       | _ -> dead := true; Some (Printf.sprintf "%s [%s]" (fstatus_str st) its))
  ) (String.split_on_char ';' ops) in
  String.concat " | " (List.filter_map (fun x -> x) outs)

(* generic: feed 'D' segments through the Framed contract model around a decoder closure *)
let run_ops (dec : 'st -> n list -> (('st * n list) * 'it option) res) (st0 : 'st) (show : 'it -> string) (ops : string) : string =
  let st = ref st0 and buf = ref [] and dead = ref false in
  let outs = List.filter_map (fun op ->
    if op = "" then None else
    if !dead then Some "SKIP" else
    let arg = String.sub op 1 (String.length op - 1) in
    let (((s', b'), items), fs) = feed dec !st !buf (unhex arg) in
    let its = String.concat "," (List.map show items) in
    match fs with
    | Waiting -> st := s'; buf := b'; Some (Printf.sprintf "WAIT [%s] rest=%d" its (List.length b'))
    | _ -> dead := true; Some (Printf.sprintf "%s [%s]" (fstatus_str fs) its)) (String.split_on_char ';' ops) in
  String.concat " | " outs

let show_inbound = function
  | ConnectTcp (p, a) -> Printf.sprintf "C:%s:%s" (addr_str a) (hx p)
  | RelayTcp p -> "T:" ^ hx p
  | RelayUdp (p, a) -> Printf.sprintf "U:%s:%s" (addr_str a) (hx p)

(* decoders of shape  src -> res (rest * option item)  (stateless) as Framed decoders with unit state *)
let stateless (f : n list -> ((n list) * 'it option) res) = fun () src ->
  match f src with Ok (r, it) -> Ok (((), r), it) | Err e -> Err e | Panic -> Panic

(* ---------- VMess ---------- *)
let vsess_of_hex h = let b = unhex h in
  let rec take n l = if n = 0 then [] else match l with [] -> [] | x :: t -> x :: take (n-1) t in
  let rec drop n l = if n = 0 then l else match l with [] -> [] | _ :: t -> drop (n-1) t in
  { vs_iv = take 16 b; vs_key = take 16 (drop 16 b); vs_v = (match drop 32 b with v :: _ -> v | [] -> N0) }

(* uuid string -> cmd key: md5(uuid bytes ++ "c48619fe-8f02-49e0-b9e9-edf763e17e21") *)
let cmdkey_of_uuid (u : string) : n list =
  let hexs = String.concat "" (String.split_on_char '-' u) in
  let salt = List.map (fun c -> n_of_int (Char.code c)) (List.init 36 (String.get "c48619fe-8f02-49e0-b9e9-edf763e17e21")) in
  prims.p_md5 (bytes_of_hex hexs @ salt)

let run_vmbody opt sec role sess ops =
  let opt = n_of_int (int_of_string opt) and sec = n_of_int (int_of_string sec) in
  let s = vsess_of_hex sess in
  let rk = resp_key prims s and ri = resp_iv prims s in
  let (ek, ei, dk, di) = if role = "client" then (s.vs_key, s.vs_iv, rk, ri) else (rk, ri, s.vs_key, s.vs_iv) in
  let enc = ref (body_new prims opt sec ek ei s.vs_key s.vs_iv) and dec = ref (body_new prims opt sec dk di s.vs_key s.vs_iv) in
  (* the peer's encoder of the opposite direction (ops L / M): same key and iv as this role's decoder *)
  let peer = ref (body_new prims opt sec dk di s.vs_key s.vs_iv) in
  let buf = ref [] and dead = ref false in
  let count_and_data arg = match String.split_on_char ',' arg with
    | [k; d] -> (int_of_string k, unhex d) | _ -> failwith "vmbody repeat op" in
  let outs = List.filter_map (fun op ->
    if op = "" then None else if !dead then Some "SKIP" else
    let c = op.[0] in
    if c = 'R' then begin
      (* R<n>,<hex>: encode_payload n times, output discarded (advances the counters) *)
      let (k, data) = count_and_data (String.sub op 1 (String.length op - 1)) in
      for _ = 1 to k do
        let (_, b') = encode_payload_v prims (nat_of_int (List.length data + 1)) !enc data [] in enc := b'
      done; Some "OK"
    end else if c = 'L' || c = 'M' then begin
      (* L<n>,<hex> / M<n>,<hex>: n times: the peer encodes (payload / packet), this role's decoder decodes it at once *)
      let (k, data) = count_and_data (String.sub op 1 (String.length op - 1)) in
      let last = ref "-" and ok = ref 0 and res = ref None in
      (try for _ = 1 to k do
        let wire = if c = 'L' then (let (out, b') = encode_payload_v prims (nat_of_int (List.length data + 1)) !peer data [] in peer := b'; Some out)
                   else (match encode_packet_v prims !peer data [] with Ok (out, b') -> peer := b'; Some out | _ -> None) in
        (match wire with
         | None -> res := Some "ERR Aead"; raise Exit
         | Some wire ->
           (match (if c = 'L' then decode_payload_v prims else decode_packet_v prims) !dec wire with
            | Ok ((b', r), it) -> dec := b';
              if r <> [] then (res := Some "ERR Leftover"; raise Exit);
              last := (match it with Some d -> hx d | None -> "none"); incr ok
            | Err e -> res := Some ("ERR " ^ string_of_err e); raise Exit
            | Panic -> res := Some "PANIC"; raise Exit))
      done with Exit -> ());
      (match !res with
       | Some r -> dead := true; Some r
       | None -> Some (Printf.sprintf "LOOP ok=%d last=%s" !ok !last))
    end else
    let data = unhex (String.sub op 1 (String.length op - 1)) in
    match c with
    | 'E' | 'e' -> let (out, b') = encode_payload_v prims (nat_of_int (List.length data + 1)) !enc data [] in
      enc := b'; Some (if c = 'E' then "OK " ^ hx out else "OK")
    | 'P' | 'p' -> (match encode_packet_v prims !enc data [] with
        | Ok (out, b') -> enc := b'; Some (if c = 'P' then "OK " ^ hx out else "OK")
        | Err e -> dead := true; Some ("ERR " ^ string_of_err e) | Panic -> dead := true; Some "PANIC")
    | _ ->
      let d = if c = 'D' then decode_payload_v prims else decode_packet_v prims in
      let fdec b src = match d b src with Ok ((b', r), it) -> Ok ((b', r), it) | Err e -> Err e | Panic -> Panic in
      (* the harness stops draining once the buffer is empty after an item; the Framed model calls once more, which is a no-op *)
      let (((b', r), items), st) = feed fdec !dec !buf data in
      let its = String.concat "," (List.map hx items) in
      (match st with
       | Waiting -> dec := b'; buf := r; Some (Printf.sprintf "WAIT [%s] rest=%d" its (List.length r))
       | _ -> dead := true; Some (Printf.sprintf "%s [%s]" (fstatus_str st) its))) (String.split_on_char ';' ops) in
  String.concat " | " outs

let run_vmsrv now users ops =
  let now = n_of_int (int_of_string now) in
  let keys = List.map cmdkey_of_uuid (csv users) in
  let st = ref SInit and buf = ref [] and enc = ref None and dead = ref false in
  let outs = List.filter_map (fun op ->
    if op = "" then None else if !dead then Some "SKIP" else
    let c = op.[0] and data = unhex (String.sub op 1 (String.length op - 1)) in
    match c with
    | 'E' | 'e' ->
      (match !st with
       | SInit -> dead := true; Some "ERR Other"
       | SReady (h, s, _) ->
         (match server_vencode prims h s !enc data [] with
          | Ok (b', out) -> enc := Some b'; Some (if c = 'E' then "OK " ^ hx out else "OK")
          | Err e -> dead := true; Some ("ERR " ^ string_of_err e) | Panic -> dead := true; Some "PANIC"))
    | _ ->
      let fdec s src = match server_vdecode prims now keys s src with Ok ((s', r), it) -> Ok ((s', r), it) | Err e -> Err e | Panic -> Panic in
      let (((s', r), items), fs) = feed fdec !st !buf data in
      let its = String.concat "," (List.map show_inbound items) in
      (match fs with
       | Waiting -> st := s'; buf := r; Some (Printf.sprintf "WAIT [%s] rest=%d" its (List.length r))
       | _ -> dead := true; Some (Printf.sprintf "%s [%s]" (fstatus_str fs) its))) (String.split_on_char ';' ops) in
  String.concat " | " outs

let zeros k = List.init k (fun _ -> N0)
let run_vmcli uuid opt sec cmd addr sess now ops =
  let id = lazy (cmdkey_of_uuid uuid) and now = n_of_int (int_of_string now) in
  let enc = ref None in
  let h = { rh_opt = n_of_int (int_of_string opt land 31); rh_sec = n_of_int (int_of_string sec);
            rh_cmd = (if cmd = "1" then CmdTcp else CmdUdp); rh_addr = parse_addr addr } in
  let s = vsess_of_hex sess in
  let dec = ref None and buf = ref [] and dead = ref false in
  let outs = List.filter_map (fun op ->
    if op = "" then None else if !dead then Some "SKIP" else
    let c = op.[0] and data = unhex (String.sub op 1 (String.length op - 1)) in
    match c with
    | 'e' | 'w' ->
      (* the request BYTES depend on the implementation's RNG (checked by decoding them: vmsrv, vmrt); the STATUS is the
         model's: an address that cannot be written and a datagram above the limit are refused *)
      (match client_vencode prims (Lazy.force id) h s !enc now (zeros 4) (zeros 8) [] data [] with
       | Ok (b', _) -> enc := Some b'; Some "OK"
       | Err e -> dead := true; Some ("ERR " ^ string_of_err e) | Panic -> dead := true; Some "PANIC")
    | _ ->
      let fdec d src = match client_vdecode prims h s d src with Ok ((d', r), it) -> Ok ((d', r), it) | Err e -> Err e | Panic -> Panic in
      let (((d', r), items), fs) = feed fdec !dec !buf data in
      let its = String.concat "," (List.map hx items) in
      (match fs with
       | Waiting -> dec := d'; buf := r; Some (Printf.sprintf "WAIT [%s] rest=%d" its (List.length r))
       | _ -> dead := true; Some (Printf.sprintf "%s [%s]" (fstatus_str fs) its))) (String.split_on_char ';' ops) in
  String.concat " | " outs

(* vmrt: the whole exchange inside the model: the client encodes `up` for `addr`, a server that knows only this user decodes
   it and answers `down`, the client decodes the answer.  All randomness of the model's encoders is zero. *)
let run_vmrt uuid opt sec cmd addr sess now up down =
  let id = cmdkey_of_uuid uuid and now = n_of_int (int_of_string now) in
  let h = { rh_opt = n_of_int (int_of_string opt land 31); rh_sec = n_of_int (int_of_string sec);
            rh_cmd = (if cmd = "1" then CmdTcp else CmdUdp); rh_addr = parse_addr addr } in
  let s = vsess_of_hex sess in
  match client_vencode prims id h s None now (zeros 4) (zeros 8) [] (unhex up) [] with
  | Err e -> "ENC ERR " ^ string_of_err e | Panic -> "ENC PANIC"
  | Ok (_, wire) ->
    let fdec st src = match server_vdecode prims now [id] st src with Ok ((s', r), it) -> Ok ((s', r), it) | Err e -> Err e | Panic -> Panic in
    let (((st, r), items), fs) = feed fdec SInit [] wire in
    let l1 = (match fs with
      | Waiting -> Printf.sprintf "WAIT [%s] rest=%d" (String.concat "," (List.map show_inbound items)) (List.length r)
      | _ -> Printf.sprintf "%s [%s]" (fstatus_str fs) (String.concat "," (List.map show_inbound items))) in
    (match (fs, st) with
     | (Waiting, SReady (h', s', _)) ->
       (match server_vencode prims h' s' None (unhex down) [] with
        | Err e -> l1 ^ " | ENC ERR " ^ string_of_err e | Panic -> l1 ^ " | ENC PANIC"
        | Ok (_, back) ->
          let cdec d src = match client_vdecode prims h s d src with Ok ((d', r), it) -> Ok ((d', r), it) | Err e -> Err e | Panic -> Panic in
          let (((_, r2), items2), fs2) = feed cdec None [] back in
          let its = String.concat "," (List.map hx items2) in
          l1 ^ " | " ^ (match fs2 with
            | Waiting -> Printf.sprintf "WAIT [%s] rest=%d" its (List.length r2)
            | _ -> Printf.sprintf "%s [%s]" (fstatus_str fs2) its))
     | _ -> l1 ^ " | SKIP")

(* C16 config component: ASCII text <-> byte lists *)
let text_of (l : n list) : string = String.init (List.length l) (fun i -> Char.chr (int_of_n (List.nth l i) land 255))
let bytes_of_text (s : string) : n list = List.init (String.length s) (fun i -> n_of_int (Char.code s.[i]))
let bit b = if b then "1" else "0"

(* ---------- C16, hand-written part: the text form of a VMess id, and the serde contract of the configuration object ----------
   (Model/Config.v models the NAMES and what they select; the two functions below state, for the harness ops cfgvmid / cfgfield /
   cfgraw, what the documentation and the serde derive contract say about everything around the names:
   a VMess id is a UUID written as 32 hex digits, hyphenated 8-4-4-4-12, that in braces, or that behind "urn:uuid:";
   keys of a JSON object are matched exactly, unknown keys are ignored, a key given twice is an error, a missing key is an error
   unless the field has a default; a unit enum is a JSON string (or the one-entry object {"name": null}); Option<T> takes null;
   String / u16 / Vec / map take exactly their own JSON type) *)
let is_hexc c = match c with '0'..'9' | 'a'..'f' | 'A'..'F' -> true | _ -> false
let uuid_hex (s : string) : string option =
  let all_hex t = let ok = ref true in String.iter (fun c -> if not (is_hexc c) then ok := false) t; !ok in
  let hyph t =
    if String.length t = 36 && t.[8] = '-' && t.[13] = '-' && t.[18] = '-' && t.[23] = '-' then
      let h = String.sub t 0 8 ^ String.sub t 9 4 ^ String.sub t 14 4 ^ String.sub t 19 4 ^ String.sub t 24 12 in
      if all_hex h then Some h else None
    else None in
  match String.length s with
  | 32 -> if all_hex s then Some s else None
  | 36 -> hyph s
  | 38 when s.[0] = '{' && s.[37] = '}' -> hyph (String.sub s 1 36)
  | 45 when String.sub s 0 9 = "urn:uuid:" -> hyph (String.sub s 9 36)
  | _ -> None
let vmess_salt = List.map (fun c -> n_of_int (Char.code c)) (List.init 36 (String.get "c48619fe-8f02-49e0-b9e9-edf763e17e21"))

let hex_text h = text_of (unhex h)
let cfg_line (c : string option) (p : string) (m : string option) ssl ws quic users =
  match q_object (Option.map bytes_of_text c) (bytes_of_text p) (Option.map bytes_of_text m) with
  | Some ((c, p), m) -> Printf.sprintf "OK %s %s %s ssl=%s ws=%s quic=%s user=%d" (text_of c) (text_of p) (text_of m) (bit ssl) (bit ws) (bit quic) users
  | None -> "ERR"
let cfg_full ?(c = Some "aes-128-gcm") ?(p = "vmess") ?(m = Some "tcp_and_udp") ?(ssl = true) ?(ws = true) ?(quic = true) ?(users = 1) () =
  cfg_line c p m ssl ws quic users
(* the keys the harness writes into each object (harness/src/t1_config.rs full_object_json) *)
let cfg_top = ["host"; "port"; "password"; "protocol"; "cipher"; "mode"; "ssl"; "ws"; "quic"; "user"]
let cfg_sect_keys side sec = match sec with
  | "ssl" -> if side = "server" then ["certificateFile"; "keyFile"; "serverName"] else ["certificateFile"; "serverName"]
  | "quic" -> ["certificateFile"; "keyFile"; "serverName"]
  | _ -> ["header"; "path"]
let cfg_field side field sp =
  match String.index_opt field '.' with
  | None ->
    if sp = field then cfg_full ()
    else if List.mem sp cfg_top then "ERR"                       (* the same key twice *)
    else (match field with
        | "cipher" -> cfg_full ~c:None ()  | "mode" -> cfg_full ~m:None ()
        | "ssl" -> cfg_full ~ssl:false () | "ws" -> cfg_full ~ws:false () | "quic" -> cfg_full ~quic:false ()
        | "user" -> cfg_full ~users:0 ()
        | _ -> "ERR")                                            (* host, port, password, protocol have no default *)
  | Some i ->
    let sec = String.sub field 0 i and k = String.sub field (i + 1) (String.length field - i - 1) in
    if sp = k then cfg_full ()
    else if List.mem sp (cfg_sect_keys side sec) then "ERR"
    else if (sec = "ssl" || sec = "quic") && side = "server" then "ERR"   (* the server's section members have no default *)
    else cfg_full ()
let cfg_raw side field code =
  let head, arg = match String.index_opt code ':' with
    | Some i -> String.sub code 0 i, String.sub code (i + 1) (String.length code - i - 1) | None -> code, "" in
  let name () = match head with "str" | "tag" -> Some (hex_text arg) | _ -> None in
  let kvs () = List.filter_map (fun kv -> match String.index_opt kv '=' with
      | Some i -> Some (String.sub kv 0 i, String.sub kv (i + 1) (String.length kv - i - 1)) | None -> None) (String.split_on_char ',' arg) in
  (* Some present | None = error *)
  let section sec : bool option =
    match head with
    | "null" -> Some false
    | "obj" | "sec" ->
      let kv = if head = "obj" then [] else kvs () in
      let ok =
        if sec = "ws" then
          (match List.assoc_opt "path" kv with None | Some "s" -> true | _ -> false)
          && (match List.assoc_opt "header" kv with None | Some "o" | Some "h" -> true | _ -> false)
        else
          List.for_all (fun k -> match List.assoc_opt k kv with
              | Some "s" -> true
              | None | Some "n" -> side <> "server"
              | _ -> false) ["certificateFile"; "keyFile"; "serverName"] in
      if ok then Some true else None
    | _ -> None in
  match field with
  | "cipher" -> (match name () with Some n -> cfg_full ~c:(Some n) () | None -> "ERR")
  | "protocol" -> (match name () with Some n -> cfg_full ~p:n () | None -> "ERR")
  | "mode" -> (match name () with Some n -> cfg_full ~m:(Some n) () | None -> "ERR")
  | "ssl" -> (match section "ssl" with Some b -> cfg_full ~ssl:b () | None -> "ERR")
  | "ws" -> (match section "ws" with Some b -> cfg_full ~ws:b () | None -> "ERR")
  | "quic" -> (match section "quic" with Some b -> cfg_full ~quic:b () | None -> "ERR")
  | "user" ->
    (match head with
     | "arr" -> cfg_full ~users:0 ()
     | "usr" ->
       (match String.split_on_char ':' arg with
        | [n; tn; tp] -> let n = int_of_string n in
          if n = 0 then cfg_full ~users:0 () else if tn = "s" && tp = "s" then cfg_full ~users:n () else "ERR"
        | _ -> "BAD-CASE")
     | _ -> "ERR")
  | "port" ->
    (match head with
     | "int" ->
       let t = String.trim arg in
       let digits = t <> "" && (let ok = ref true in String.iter (fun c -> if c < '0' || c > '9' then ok := false) t; !ok) in
       let canonical = digits && (t = "0" || t.[0] <> '0') in
       if canonical && String.length t <= 5 && int_of_string t <= 65535 then cfg_full () else "ERR"
     | _ -> "ERR")
  | "host" | "password" -> (match head with "str" -> cfg_full () | _ -> "ERR")
  | _ -> "BAD-CASE"

(* ---------- adapters: the WebSocketFramed model (Lib/WsFramed.v) message by message ----------
   script entries: D<hex> / T<hex> data message (D- empty), P<hex> control message.
   output = the canonical field of harness component `adapters`. *)
let run_adapt (dec : 'st -> n list -> (('st * n list) * 'it option) res) (st0 : 'st) (show : 'it -> string) (script : string) : string =
  let st = ref (ws_init st0) and dead = ref false in
  let outs = List.filter_map (fun op ->
    if op = "" then None else
    if !dead then Some "SKIP" else
    let arg = String.sub op 1 (String.length op - 1) in
    let m = match op.[0] with 'P' -> WsCtl | _ -> WsData (unhex arg) in
    let (st', items) = ws_step dec !st m in
    st := st';
    let its = String.concat "," (List.map show items) in
    match st'.ws_stat with
    | Waiting -> Some (Printf.sprintf "[%s]" its)
    | Failed e -> dead := true; Some (Printf.sprintf "[%s] ERR %s" its (string_of_err e))
    | Panicked -> dead := true; Some (Printf.sprintf "[%s] ERR PANIC" its)
    | Livelock -> dead := true; Some (Printf.sprintf "[%s] ERR LIVELOCK" its)) (String.split_on_char ';' script) in
  String.concat " | " outs ^ (if !dead then " ; DEAD" else Printf.sprintf " ; WAIT rest=%d" (List.length (ws_held (!st).ws_buf)))

let run_adapt_case dk p1 p2 script =
  match dk with
  | "troj" ->
    let key = trojan_key prims (unhex p1) in
    run_adapt (fun st src -> match trojan_server_decode key st src with
                 | Ok ((st', r), it) -> Ok ((st', r), it) | Err e -> Err e | Panic -> Panic) THeader show_inbound script
  | "s5cr" -> run_adapt (stateless s5_command_request) () (fun (c, a) -> Printf.sprintf "%d:%s" (int_of_n c) (addr_str a)) script
  | "vmess" ->
    let now = n_of_int (int_of_string p1) in
    let keys = List.map cmdkey_of_uuid (String.split_on_char ',' p2) in
    run_adapt (fun s src -> match server_vdecode prims now keys s src with
                 | Ok ((s', r), it) -> Ok ((s', r), it) | Err e -> Err e | Panic -> Panic) SInit show_inbound script
  | "ss" ->
    (* server PayloadCodec: state = (salt cache, session, cipher codec, Header/Body); an empty user manager is present *)
    let (kind, now) = match String.split_on_char ':' p1 with [k; t] -> (k, n_of_int (int_of_string t)) | _ -> failwith "ss p1" in
    let key = match String.split_on_char ':' p2 with [_; k] -> unhex k | _ -> failwith "ss p2" in
    let cx = { c_kind = kind_of kind; c_key = key; c_ikeys = []; c_users = Some [] } in
    let s0 = { s_mode = Server; s_salt = List.init 16 (fun _ -> N0); s_req_salt = None; s_user = None; s_addr = None } in
    run_adapt (fun (((cache, s), cd), ib) src ->
                 match server_decode prims cx now cache s cd ib src with
                 | (cache', Ok ((((s', cd'), ib'), r), it)) -> Ok (((((cache', s'), cd'), ib'), r), it)
                 | (_, Err e) -> Err e | (_, Panic) -> Panic) ((([], s0), codec_new), false) show_inbound script
  | _ -> "UNKNOWN-ADAPT-DECODER " ^ dk

(* ---------- Shadowsocks UDP (Model/SsUdp.v); case format: harness/src/t1_ssudp.rs ---------- *)
let users_of s = if s = "none" then None else Some (List.map (fun u ->
  match String.split_on_char ':' u with [h; k] -> { u_hash = unhex h; u_key = unhex k } | _ -> failwith "user") (csv s))
let uctx_of kind mode key ikeys users =
  { uc_kind = kind_of kind; uc_mode = (if mode = "client" then Client else Server); uc_key = unhex key;
    uc_ikeys = List.map unhex (csv ikeys); uc_users = users_of users }
let usess_str (s : usess) =
  Printf.sprintf "c=%s s=%s p=%s u=%s" (hex_of_n s.us_csid) (hex_of_n s.us_ssid) (hex_of_n s.us_pid)
    (match s.us_user with Some u -> hx u.u_hash | None -> "-")
let show_udec = function
  | Ok None -> "NONE"
  | Ok (Some ((p, a), s)) -> Printf.sprintf "OK %s %s %s" (hx p) (addr_str a) (usess_str s)
  | Err e -> "ERR " ^ string_of_err e
  | Panic -> "PANIC"
let rec take_l n l = if n = 0 then [] else match l with [] -> [] | x :: t -> x :: take_l (n-1) t
let after_arrow fields = let rec go = function [] -> [] | "=>" :: t -> t | _ :: t -> go t in go fields
(* the encoder's random part as found in the implementation's own output: legacy salt = first N bytes,
   XChaCha nonce = first 24 bytes, AES 2022 kinds have none *)
let rnd_of_wire kind (w : n list) =
  match kind_of kind with
  | K_A128 -> take_l 16 w | K_A256 | K_CC20 -> take_l 32 w
  | K22_A128 | K22_A256 -> [] | K22_CC8 | K22_CC20 -> take_l 24 w
let run_ssudp (fields : string list) : string =
  match fields with
  | "dec" :: kind :: mode :: key :: ikeys :: users :: now :: dgram :: _ ->
    show_udec (ssu_session_decode prims (uctx_of kind mode key ikeys users) (n_of_int (int_of_string now)) (unhex dgram))
  | "rt" :: kind :: encmode :: _ekey :: _eikeys :: _euser :: dkey :: dusers :: _xuser :: now :: _csid :: _ssid :: _pid :: _addr :: _payload :: rest ->
    (match after_arrow rest with
     | w :: _ when String.length w > 0 && w.[0] <> 'E' && w.[0] <> 'P' ->
       let dmode = if encmode = "client" then "server" else "client" in
       show_udec (ssu_session_decode prims (uctx_of kind dmode dkey "-" dusers) (n_of_int (int_of_string now)) (unhex w))
     | w :: _ -> "ENCODE-FAILED " ^ w
     | [] -> "NO-WIRE")
  | "enc" :: kind :: mode :: key :: ikeys :: user :: now :: csid :: ssid :: pid :: addr :: payload :: rest ->
    let wire = (match after_arrow rest with r :: _ when String.length r > 3 && String.sub r 0 3 = "OK " -> unhex (String.sub r 3 (String.length r - 3)) | _ -> []) in
    let cx = uctx_of kind mode key ikeys "none" in
    let s = { us_csid = n_of_hex csid; us_ssid = n_of_hex ssid; us_pid = n_of_hex pid;
              us_user = (match String.split_on_char ':' user with [h; k] -> Some { u_hash = unhex h; u_key = unhex k } | _ -> None) } in
    show_res hx (ssu_encode prims cx (n_of_int (int_of_string now)) (rnd_of_wire kind wire) [] s (parse_addr addr) (unhex payload))
  | "dg" :: kind :: key :: ikeys :: rp :: now :: ops :: _ ->
    let cx = uctx_of kind "client" key ikeys "none" in
    let rp = (rp = "1") and now = n_of_int (int_of_string now) in
    let st = ref (cstate_new N0) and dead = ref false in
    let dgram_in d =
      (match client_dgram_decode prims cx rp now !st d with
       | Ok (st', None) -> st := st'; Some "NONE"
       | Ok (st', Some (p, a)) -> st := st'; Some (Printf.sprintf "ITEM %s %s" (hx p) (addr_str a))
       | Err e -> Some ("ERR " ^ string_of_err e)         (* UdpFramed: the error is reported, the codec lives on *)
       | Panic -> dead := true; Some "PANIC") in
    let outs = List.filter_map (fun op ->
      if op = "" then None else if !dead then Some "SKIP" else
      let c = op.[0] and arg = String.sub op 1 (String.length op - 1) in
      match c with
      | 'P' ->
        st := { !st with cs_sess = { !st.cs_sess with us_pid = n_of_hex arg } }; Some "SET"
      | 'D' -> dgram_in (unhex arg)
      | 'R' ->
        (* a well-formed server datagram addressed to client session (own id xor x); the model's own session id is 0.
           Built with the model's own server-side encoder under the client's key (what a server does for this client). *)
        (match String.split_on_char ',' arg with
         | ssid :: pid :: tag :: x :: damage ->
           let t = n_of_hex tag in
           let scx = { uc_kind = kind_of kind; uc_mode = Server; uc_key = unhex key; uc_ikeys = []; uc_users = None } in
           let rnd = List.init (match kind_of kind with K_A128 -> 16 | K22_CC8 | K22_CC20 -> 24 | _ -> 32) (fun _ -> N0) in
           let s = { us_csid = n_of_hex x; us_ssid = n_of_hex ssid; us_pid = n_of_hex pid; us_user = None } in
           (match ssu_encode prims scx now rnd [] s (AV4 ([n_of_int 10; N0; N0; t], n_of_int 53)) [t; t] with
            | Ok pkt ->
              (* damaged in transit: `t` = the last byte lost, `f<n>` = bit n (mod length) flipped *)
              let pkt = (match damage with
                | ["t"] -> take_l (List.length pkt - 1) pkt
                | [d] when String.length d > 1 && d.[0] = 'f' ->
                  let bit = int_of_string (String.sub d 1 (String.length d - 1)) mod (List.length pkt * 8) in
                  List.mapi (fun i b -> if i = bit / 8 then n_of_int ((int_of_n b) lxor (1 lsl (bit mod 8))) else b) pkt
                | _ -> pkt) in
              dgram_in pkt
            | _ -> Some "MODEL-CRAFT-FAILED")
         | _ -> failwith "dg R")
      | _ ->
        (match String.split_on_char ',' arg with
         | [a; p] ->
           let rnd = List.init 32 (fun _ -> N0) in
           let rnd = (match kind_of kind with K_A128 -> take_l 16 rnd | K22_CC8 | K22_CC20 -> take_l 24 rnd | _ -> rnd) in
           let (st', r) = client_dgram_encode prims cx now rnd [] !st (parse_addr a) (unhex p) in
           st := st';
           (match r with
            | Ok _ -> Some (if is_2022 (kind_of kind) then "OK p=" ^ hex_of_n st'.cs_sess.us_pid else "OK")
            | Err e -> Some ("ERR " ^ string_of_err e) | Panic -> dead := true; Some "PANIC")
         | _ -> failwith "dg E")) (String.split_on_char ';' ops) in
    String.concat " | " outs
  | _ -> "BAD-SSUDP-CASE"

let run_case (fields : string list) : string =
  match fields with
  | "ssudp" :: rest -> run_ssudp rest
  | "adapt" :: dk :: p1 :: p2 :: script :: _ -> run_adapt_case dk p1 p2 script
  | "vmbody" :: opt :: sec :: role :: sess :: ops :: _ -> run_vmbody opt sec role sess ops
  | "vmsrv" :: now :: users :: ops :: _ -> run_vmsrv now users ops
  | "vmcli" :: uuid :: opt :: sec :: cmd :: addr :: sess :: now :: ops :: _ -> run_vmcli uuid opt sec cmd addr sess now ops
  | "vmrt" :: uuid :: opt :: sec :: cmd :: addr :: sess :: now :: up :: down :: _ -> run_vmrt uuid opt sec cmd addr sess now up down
  | "trojsrv" :: pw :: ops :: _ ->
    let key = trojan_key prims (unhex pw) in
    run_ops (fun st src -> match trojan_server_decode key st src with
               | Ok ((st', r), it) -> Ok ((st', r), it) | Err e -> Err e | Panic -> Panic) THeader show_inbound ops
  | "trojcu" :: ops :: _ ->
    run_ops (stateless trojan_client_udp_decode) () (fun (p, a) -> addr_str a ^ ":" ^ hx p) ops
  | "trojenc" :: pw :: cmd :: a :: payload :: rest ->
    let cmdn = n_of_int (int_of_string cmd) in
    let head = trojan_client_head prims (unhex pw) cmdn (parse_addr a) in
    let pl = unhex payload in
    if cmd = "1" then "OK " ^ hx (head @ pl @ pl)
    else let pa = parse_addr (List.hd rest) in
      let pk = trojan_packet_encode pa pl in "OK " ^ hx (head @ pk @ pk)
  | "trojsenc" :: a :: payload :: _ ->
    let pl = unhex payload in "OK " ^ hx (trojan_packet_encode (parse_addr a) pl @ pl)
  | "s5ir" :: ops :: _ -> run_ops (stateless s5_initial_request) () (fun ms -> hx (n_of_int 5 :: n_of_int (List.length ms) :: ms)) ops
  | "s5cr" :: ops :: _ -> run_ops (stateless s5_command_request) () (fun (c, a) -> Printf.sprintf "%d:%s" (int_of_n c) (addr_str a)) ops
  | "s5irs" :: ops :: _ -> run_ops (stateless s5_initial_response) () (fun m -> string_of_int (int_of_n m)) ops
  | "s5crs" :: ops :: _ -> run_ops (stateless s5_command_response) () (fun (c, a) -> Printf.sprintf "%d:%s" (int_of_n c) (addr_str a)) ops
  | "s5udp" :: d :: _ ->
    (match s5_udp_decode (unhex d) with
     | Ok (rest, Some (p, a)) -> Printf.sprintf "OK rest=%d %s:%s" (List.length rest) (addr_str a) (hx p)
     | Ok (rest, None) -> Printf.sprintf "OK rest=%d none" (List.length rest)
     | Err e -> "ERR " ^ string_of_err e | Panic -> "PANIC")
  | "s5udpo" :: d :: _ ->
    (match s5_udp_decode (unhex d) with
     | Ok (rest, Some (p, a)) -> Printf.sprintf "OK [%s:%s] rest=%d" (addr_str a) (hx p) (List.length rest)
     | Ok (rest, None) -> Printf.sprintf "OK [] rest=%d" (List.length rest)
     | Err e -> "ERR " ^ string_of_err e ^ " []" | Panic -> "PANIC")
  | "s5udpenc" :: a :: p :: _ -> "OK " ^ hx (s5_udp_encode (unhex p) (parse_addr a))
  | "http" :: m :: t :: _ ->
    (match recognize_http (unhex m) (unhex t) with
     | Ok (PHttp a) -> "OK H " ^ addr_str a | Ok (PHttps a) -> "OK S " ^ addr_str a
     | Err _ -> "ERR" | Panic -> "PANIC")
  | ("hshake" | "hshake0" as comp) :: stream :: arrivals :: local :: _ ->
    (* client/handshake.rs::get_request_addr over an arrival history: stream = hex of everything the application
       sends, arrivals = comma-separated "bytes arrived so far" lengths ("-" = everything at once), local = hex of
       the local socket address in SOCKS5 encoding (ATYP ADDR PORT).  hshake0 = the behaviour before the repairs
       fad5d1a / 32d4108 (Model.Handshake.handshake_v0), for regression sensitivity of the generated cases.
       OK <5|H|S> <target> <hex reply> <consumed>  |  ERR <why> <hex reply>  |  PANIC *)
    let local = (match s5_decode (unhex local) with Ok (a, _) -> a | _ -> failwith "hshake: local address") in
    let hist = List.map (fun x -> n_of_int (int_of_string x)) (csv arrivals) in
    (match (if comp = "hshake" then handshake else handshake_v0) (unhex stream) local hist with
     | Tunnel (k, a, reply, n) ->
       Printf.sprintf "OK %s %s %s %d" (match k with KSocks5 -> "5" | KHttp -> "H" | KHttps -> "S") (addr_str a) (hx reply) (int_of_n n)
     | Refused (why, reply) ->
       Printf.sprintf "ERR %s %s"
         (match why with RUnknown -> "unknown" | RTooLong -> "toolong" | RBadTarget -> "badtarget" | RTimeout -> "timeout"
                       | RHead -> "head" | RSocks -> "socks") (hx reply)
     | Crashed -> "PANIC")
  | "hsrecog" :: w :: _ ->
    (* one iteration of recognize's peek loop on the peeked window (hex) *)
    (match recognize_step (unhex w) with
     | DSocks5 -> "SOCKS5" | DHttp a -> "OK H " ^ addr_str a | DHttps a -> "OK S " ^ addr_str a | DWait -> "WAIT"
     | DTooLong -> "TOOLONG" | DUnknown -> "UNKNOWN" | DError -> "ERR" | DPanic -> "PANIC")
  | "hsparse" :: w :: _ ->
    (* httparse::Request::parse with zero header slots: status, method, path *)
    let (sm, p) = request_parse (unhex w) in let (st, m) = sm in
    let o = function Some b -> hx b | None -> "none" in
    Printf.sprintf "%s %s %s" (match st with HComplete -> "complete" | HPartial -> "partial" | HError -> "error") (o m) (o p)
  | "hsconsume" :: w :: _ ->
    (match consume_head_step (unhex w) with CConsume n -> Printf.sprintf "CONSUME %d" (int_of_n n) | CWait -> "WAIT" | CFail -> "FAIL")
  | "cfgcipher" :: name :: _ -> (match q_cipher (unhex name) with Some v -> "OK " ^ text_of v | None -> "ERR")
  | "cfgproto" :: name :: _ -> (match q_protocol (unhex name) with Some v -> "OK " ^ text_of v | None -> "ERR")
  | "cfgmode" :: name :: _ ->
    (match q_mode (unhex name) with
     | Some (v, ((t, u), q)) -> Printf.sprintf "OK %s tcp=%s udp=%s quic=%s" (text_of v) (bit t) (bit u) (bit q)
     | None -> "ERR")
  | "cfgkind" :: variant :: _ ->
    let rn = function Ok n -> string_of_int (int_of_n n) | _ -> "PANIC" in
    (match q_kind (bytes_of_text variant) with
     | Some (((a, e), tag), algo) -> Printf.sprintf "2022=%s eih=%s tag=%s algo=%s" (bit a) (bit e) (rn tag) (rn algo)
     | None -> "MODEL-UNKNOWN-VARIANT")
  | "cfgobj" :: _side :: c :: p :: m :: ssl :: ws :: quic :: _ ->
    let opt x = if x = "ABSENT" then None else Some (unhex x) in
    (match q_object (opt c) (unhex p) (opt m) with
     | Some ((c, p), m) -> Printf.sprintf "OK %s %s %s ssl=%s ws=%s quic=%s" (text_of c) (text_of p) (text_of m) ssl ws quic
     | None -> "ERR")
  | "cfgkdf" :: n :: pw :: _ ->
    (match q_kdf prims (n_of_int (int_of_string n)) (unhex pw) with Ok k -> "OK " ^ hx k | Err _ -> "ERR" | Panic -> "PANIC")
  | "cfgb64" :: t :: _ -> (match q_b64 (unhex t) with Some v -> "OK " ^ hx v | None -> "ERR")
  | "cfgkeys" :: n :: pw :: _ ->
    (match q_keys (n_of_int (int_of_string n)) (unhex pw) with
     | Some (k, ik) -> Printf.sprintf "OK %s %s" (hx k) (if ik = [] then "-" else String.concat "," (List.map hx ik))
     | None -> "ERR")
  | "cfguser" :: n :: pw :: _ -> (match q_user (n_of_int (int_of_string n)) (unhex pw) with Some k -> "OK " ^ hx k | None -> "ERR")
  | "cfgpath" :: sd :: nt :: variant :: pw :: _ ->
    (match q_path prims (bytes_of_text sd) (bytes_of_text nt) (bytes_of_text variant) (unhex pw) with
     | Some (Some n, KeyOk (_, _)) -> Printf.sprintf "N=%d OK" (int_of_n n)
     | Some (Some n, KeyError) -> Printf.sprintf "N=%d ERR" (int_of_n n)
     | Some (Some n, KeyPanic) -> "PANIC"
     | Some (_, NoKey) | Some (None, _) -> "N=- NOKEY"
     | None -> "MODEL-UNKNOWN-VARIANT")
  | "cfgvmess" :: nt :: variant :: _ ->
    (match q_vmess (bytes_of_text nt) (bytes_of_text variant) with
     | Some (VSecurity _) -> "OK" | Some VRefused -> "ERR" | Some VUnchecked -> "UNCHECKED" | None -> "MODEL-UNKNOWN-VARIANT")
  | "cfgvmid" :: pw :: _ ->
    (match uuid_hex (hex_text pw) with
     | Some h -> "OK " ^ hx (prims.p_md5 (bytes_of_hex h @ vmess_salt))
     | None -> "ERR")
  | "cfgfield" :: side :: field :: sp :: _ -> cfg_field side field (hex_text sp)
  | "cfgraw" :: side :: field :: code :: _ -> cfg_raw side field code
  | "sstcp" :: kind :: key :: ikeys :: users :: mode :: salt :: addr :: now :: ops :: _ -> run_sstcp kind key ikeys users mode salt addr now ops
  | "s5enc" :: a :: _ -> let a = parse_addr a in Printf.sprintf "OK %s %d" (hx (s5_encode a)) (int_of_n (s5_length a))
  | "s5dec" :: b :: _ -> show_res (fun (a, rest) -> addr_str a ^ " " ^ hx rest) (s5_decode (unhex b))
  | "s5try" :: b :: at :: _ ->
    (match s5_try_decode_at (unhex b) (n_of_int (int_of_string at)) with
     | Ok (Some n) -> Printf.sprintf "SOME %d" (int_of_n n) | Ok None -> "NONE"
     | Err e -> "ERR " ^ string_of_err e | Panic -> "PANIC")
  | "vmw" :: a :: _ -> show_res hx (vm_write (parse_addr a))
  | "vmr" :: b :: _ -> show_res (fun (a, rest) -> addr_str a ^ " " ^ hx rest) (vm_read utf8_valid (unhex b))
  | "pw" :: limit :: ids :: _ ->
    (* packet window history from a fresh filter: verdict bits *)
    let ids = List.map n_of_hex (split_on ',' ids) in
    let (_, bs) = pw_run pw_new ids (n_of_hex limit) in bits_of_bools bs
  | "pwspec" :: limit :: ids :: _ ->
    let ids = List.map n_of_hex (split_on ',' ids) in
    let (_, bs) = spec_run [] ids (n_of_hex limit) in bits_of_bools bs
  | comp :: _ -> "UNKNOWN-COMPONENT " ^ comp
  | [] -> "EMPTY"

let () =
  let ic = if Array.length Sys.argv > 1 then open_in Sys.argv.(1) else stdin in
  (try
    while true do
      let line = input_line ic in
      let fields = String.split_on_char '\t' line in
      let r = try run_case fields with e -> "MODEL-EXCEPTION " ^ Printexc.to_string e in
      print_string r; print_newline ()
    done
  with End_of_file -> ());
  (match !prim_chan with Some c -> ignore (Unix.close_process c) | None -> ())
