#!/bin/sh
# build the extracted model + driver: ocaml/gen/model.ml{,i} must exist (coqc Extract.v in ocaml/gen)
set -e
cd "$(dirname "$0")"
ocamlfind ocamlopt -O2 -w -a -package unix -linkpkg -I gen gen/model.mli gen/model.ml modelrun.ml -o modelrun 2>&1 | grep -v 'options -O2 is only' || true
test -x modelrun
