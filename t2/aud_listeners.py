"""Additional `listeners` scenarios from the dimension audit (seeded/audit/aud-t2a.md): the cipher alias, several server
entries in one process, the client's `index`, client modes for the stream protocols, combinations of transport sections,
undocumented spellings.  Expectations come from C16 ("every cipher, protocol, mode and transport name documented in the README
is accepted and selects exactly that algorithm ... and set of listening sockets"; "unknown or inconsistent values stop startup
with an error rather than a panic or a silent fallback to different behaviour") and the README; where the README is silent the
outcome is recorded and only "no panic, no silent different behaviour" is required.
"""
import time

import t2lib as T


def _own(listening, port):
    return {"tcp": port in listening["tcp"], "udp": port in listening["udp"]}


def _await(dep, ports_tcp=(), timeout=6.0):
    """a non-strict deployment waits 3 s at most: on a loaded machine give the documented sockets a few seconds more"""
    end = time.monotonic() + timeout
    while time.monotonic() < end:
        lc, ls = dep.listening("client"), dep.listening("server")
        ec, es = dep.expected["client"], dep.expected["server"]
        ok = (not ec["tcp"] or dep.client_port in lc["tcp"]) and (not ec["udp"] or dep.client_port in lc["udp"]) and \
            (not es["tcp"] or dep.server_port in ls["tcp"]) and (not es["udp"] or dep.server_port in ls["udp"]) and all(p in ls["tcp"] for p in ports_tcp)
        if ok or not all(dep.alive()):
            return ok
        time.sleep(0.05)
    return False


def _state(dep, problems):
    st = T.process_state(dep)
    for w in ("client", "server"):
        if st["panicked"][w]:
            problems.append("%s logged a panic" % w)
    return st


def alias(seed):
    """`chacha20-ietf-poly1305` is the documented alias of `chacha20-poly1305`: a client configured with the one and a server
    configured with the other use the same algorithm"""
    name = "listeners/cipher-alias/chacha20-ietf-poly1305"
    spec = {"protocol": "shadowsocks", "cipher": "chacha20-poly1305", "transport": "tcp", "client_mode": "tcp_and_udp", "server_mode": "tcp_and_udp", "seed": seed,
            "extra": {"client_server": {"cipher": "chacha20-ietf-poly1305"}}}
    observed, problems = {}, []
    with T.Deployment(spec, strict=False) as dep:
        _await(dep)
        observed["ready_detail"] = dep.ready_detail
        observed["probes"] = {"tcp_relay": T.probe_tcp(dep)["relayed"], "udp_relay": T.probe_udp(dep)["relayed"]}
        for k, v in observed["probes"].items():
            if not v:
                problems.append("%s does not work between a client configured `chacha20-ietf-poly1305` and a server configured `chacha20-poly1305`" % k)
        observed.update(_state(dep, problems))
        if problems:
            observed.update(T.tails(dep))
    return T.result(name, spec, {"alias_selects_the_same_algorithm": True, "probes": {"tcp_relay": True, "udp_relay": True}}, observed, not problems, "; ".join(problems))


def spelling(seed, field, value, canonical):
    """an undocumented spelling: either refused (error, no panic) or it selects exactly the documented algorithm (interoperates
    with a peer configured canonically) - never a silent different behaviour"""
    name = "listeners/undocumented-spelling/%s=%s" % (field, value)
    spec = {"protocol": "shadowsocks", "cipher": "aes-128-gcm", "transport": "tcp", "client_mode": "tcp", "seed": seed,
            "extra": {"server": {field: value}}}
    observed, problems = {}, []
    with T.Deployment(spec, strict=False) as dep:
        code = dep.wait_exit("server", 3.0)
        if code is None:
            _await(dep)
        logs = dep.logs()
        refused = code is not None or any((" ERROR " in l or l.startswith("Error:")) for l in logs["server"].splitlines())
        relayed = T.probe_tcp(dep, deadline=2.0)["relayed"] if dep.alive()[0] else False
        observed.update({"server_exit_code": code, "refused_with_an_error": refused, "relays_with_a_canonically_configured_client": relayed,
                         "server_listening": _own(dep.listening("server"), dep.server_port)})
        if not refused and not relayed:
            problems.append("%s=%r is neither refused with an error nor does it select the documented %s (no flow is relayed with a canonically configured peer)" % (field, value, canonical))
        observed.update(_state(dep, problems))
        observed["server_log_tail"] = logs["server"][-300:]
    return T.result(name, spec, {"either": "startup stops with an error", "or": "the value selects exactly the documented behaviour of %r" % canonical, "never": "a panic or a silent different behaviour"},
                    observed, not problems, "; ".join(problems))


def two_entries(seed):
    """the server's configuration is a LIST: two entries in one process, each listening and relaying as documented; the client's
    `index` selects the entry of its `servers` list that it uses"""
    name = "listeners/server-list/two-entries+client-index"
    c = T.certs()
    port2 = T.free_port()
    pw2 = "t2-second-entry-%s" % seed
    sv2 = {"host": T.LOOPBACK, "port": port2, "password": pw2, "protocol": "trojan",
           "ssl": {"certificateFile": c["cert"], "keyFile": c["key"], "serverName": "localhost"}}
    cs2 = {"host": T.LOOPBACK, "port": port2, "password": pw2, "protocol": "trojan", "ssl": {"certificateFile": c["cert"], "serverName": "localhost"}}
    spec = {"protocol": "shadowsocks", "cipher": "2022-blake3-aes-128-gcm", "transport": "tcp", "client_mode": "tcp", "seed": seed,
            "more_servers": [sv2], "more_client_servers": [cs2]}
    observed, problems = {}, []
    with T.Deployment(spec, strict=False) as dep:
        _await(dep, ports_tcp=[port2])
        l = dep.listening("server")
        observed["server_listening"] = {"entry0_port_%d" % dep.server_port: _own(l, dep.server_port), "entry1_port_%d" % port2: _own(l, port2)}
        if not (dep.server_port in l["tcp"] and port2 in l["tcp"]):
            problems.append("a server process with two entries listens on %s, documented: both %d and %d" % (l["tcp"], dep.server_port, port2))
        observed["client_index_0_relays"] = T.probe_tcp(dep)["relayed"]
        if not observed["client_index_0_relays"]:
            problems.append("client with index 0 (the shadowsocks entry) does not relay")
        try:
            with T.ExtraClient(dep, overrides={"extra": {"client": {"index": 1}}}) as c2:
                p = T.probe_tcp(c2)
                observed["client_index_1_relays"] = p["relayed"]
                log = c2.log()
                observed["client_index_1_uses"] = "trojan" if "accept trojan" in log else ("shadowsocks" if "accept shadowsocks" in log else "?")
                if not p["relayed"]:
                    problems.append("client with index 1 (the trojan entry) does not relay")
                if observed["client_index_1_uses"] != "trojan":
                    problems.append("client with index 1 uses %s, README: servers[index] is the client's configuration" % observed["client_index_1_uses"])
        except T.DeploymentError as e:
            problems.append("client with index 1 did not start: %s" % (getattr(e, "ready_detail", e),))
        observed.update(_state(dep, problems))
        if problems:
            observed.update(T.tails(dep))
    return T.result(name, spec, {"readme": "the server configuration is a list of entries; servers[index] is the client's configuration",
                                 "both_entries_listen_and_relay": True, "index_1_selects_the_second_entry": True}, observed, not problems, "; ".join(problems))


def client_mode_stream(protocol, transport, mode, seed):
    """client modes for the protocols that carry datagrams in a stream (README table: vmess over tcp/tls/ws/wss/quic, trojan over tls/wss/quic)"""
    name = "listeners/client-mode/%s.%s/%s" % (protocol, transport, mode)
    want = {"tcp": {"tcp": True, "udp": False}, "udp": {"tcp": False, "udp": True}, "tcp_and_udp": {"tcp": True, "udp": True}}[mode]
    spec = {"protocol": protocol, "cipher": "aes-128-gcm" if protocol == "vmess" else None, "transport": transport, "client_mode": mode, "seed": seed}
    observed, problems, probes = {}, [], {}
    with T.Deployment(spec, strict=False) as dep:
        _await(dep)
        time.sleep(0.2)
        own = _own(dep.listening("client"), dep.client_port)
        observed["client_listens_on_configured_port"] = own
        if own != want:
            problems.append("client mode %s: listens %s on its port, documented %s" % (mode, own, want))
        if want["tcp"]:
            probes["tcp_relay"] = T.probe_tcp(dep)["relayed"]
        if want["udp"]:
            probes["udp_relay"] = T.probe_udp(dep)["relayed"]
        observed["probes"] = probes
        for k, v in probes.items():
            if not v:
                problems.append("%s does not work in client mode %s (%s over %s)" % (k, mode, protocol, transport))
        observed.update(_state(dep, problems))
        if not dep.alive()[0]:
            problems.append("client process exited with code %s" % (dep.exit_codes()[0],))
        if problems:
            observed.update(T.tails(dep))
    return T.result(name, spec, {"client_listens_on_configured_port": want, "probes": {k: True for k in probes}}, observed, not problems, "; ".join(problems))


def sections_both(seed):
    """a VMess server entry with BOTH an ssl and a quic section: README documents each section; which listeners a combination opens is
    recorded; required: no panic, and every listener that IS opened relays for a client configured for it"""
    name = "listeners/sections/vmess-server-ssl+quic"
    c = T.certs()
    spec = {"protocol": "vmess", "cipher": "aes-128-gcm", "transport": "tls", "client_mode": "tcp", "seed": seed,
            "extra": {"server": {"quic": {"certificateFile": c["cert"], "keyFile": c["key"], "serverName": "localhost"}}},
            "expect_listen": {"server": {"udp": True}}}
    observed, problems = {}, []
    with T.Deployment(spec, strict=False) as dep:
        _await(dep)
        time.sleep(0.2)
        own = _own(dep.listening("server"), dep.server_port)
        observed["server_listens_on_configured_port"] = own
        observed["tls_client_relays"] = T.probe_tcp(dep)["relayed"]
        if own["tcp"] and not observed["tls_client_relays"]:
            problems.append("the server listens on TCP but a client configured for tls gets no flow relayed")
        if own["udp"]:
            try:
                with T.ExtraClient(dep, client_server={"ssl": None, "quic": {"certificateFile": c["cert"], "serverName": "localhost"}}) as c2:
                    observed["quic_client_relays"] = T.probe_tcp(c2)["relayed"]
                    if not observed["quic_client_relays"]:
                        problems.append("the server has a QUIC (UDP) socket but a client configured for quic gets no flow relayed")
            except T.DeploymentError as e:
                problems.append("quic client did not start: %s" % (getattr(e, "ready_detail", e),))
        observed.update(_state(dep, problems))
        if problems:
            observed.update(T.tails(dep))
    return T.result(name, spec, {"recorded": "which listeners an ssl+quic entry opens", "required": "no panic; every opened listener relays for a matching client"},
                    observed, not problems, "; ".join(problems))


def jobs(seed, only):
    out = []

    def add(name, fn):
        if T.wanted(name, only):
            out.append(fn)
    add("listeners/cipher-alias/chacha20-ietf-poly1305", lambda: alias(seed))
    for field, value, canon in (("cipher", "AES-128-GCM", "aes-128-gcm"), ("cipher", "aes_128_gcm", "aes-128-gcm"), ("protocol", "Shadowsocks", "shadowsocks"),
                                ("mode", "TCP", "tcp")):
        add("listeners/undocumented-spelling/%s=%s" % (field, value), lambda field=field, value=value, canon=canon: spelling(seed, field, value, canon))
    add("listeners/server-list/two-entries+client-index", lambda: two_entries(seed))
    for (p, t) in (("vmess", "tcp"), ("vmess", "wss"), ("trojan", "tls"), ("trojan", "quic")):
        for m in ("udp", "tcp_and_udp"):
            add("listeners/client-mode/%s.%s/%s" % (p, t, m), lambda p=p, t=t, m=m: client_mode_stream(p, t, m, seed))
    add("listeners/sections/vmess-server-ssl+quic", lambda: sections_both(seed))
    return out
