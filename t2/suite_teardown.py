"""suite `teardown`: closing or failing one side tears the whole flow down and frees it.

scenario = teardown/<config>/<ending>/n=<batch>   (own deployment, own ports)
  1. deployment up, one warm-up flow that ends completely, 1 s settling, baseline fd_count of client and server
  2. a batch of n concurrent flows, all ending the same way; per flow the ending-specific requirement
  3. up to 5 s for fd_count of BOTH processes to come back to the baseline (<= baseline); lingering
     descriptors are resolved with readlink(/proc/<pid>/fd/*) and the /proc/net tables
"""
import threading
import time

import t2lib as T

ENDINGS = ["app_closes_first", "target_closes_first", "target_closes_app_lingers", "app_resets", "target_resets", "target_refused", "target_unresolvable"]
# dimension audit: endings at other points of the transfer (before the first byte; in the middle of a bulk transfer), a history of
# flows that end in DIFFERENT ways at the same time over all four local handshakes, the link reset instead of closed
ENDINGS_AUDIT = ["app_closes_immediately", "target_closes_immediately", "app_resets_midtransfer", "target_resets_midtransfer", "mixed"]
FD_WAIT = 5.0


def teardown_configs(tier):
    S = "2022-blake3-aes-128-gcm"
    if tier == "quick":
        combos = [("shadowsocks", S, "tcp"), ("shadowsocks", S, "ws"), ("vmess", "aes-128-gcm", "tcp"), ("vmess", "aes-128-gcm", "ws"),
                  ("trojan", None, "tls"), ("trojan", None, "wss"), ("trojan", None, "quic")]
    else:
        combos = [(p, c, t) for (p, c) in (("shadowsocks", S), ("vmess", "aes-128-gcm"), ("trojan", None)) for t in T.TRANSPORTS]
    return [{"name": "%s.%s.%s" % (p, c or "-", t), "spec": {"protocol": p, "cipher": c, "transport": t, "client_mode": "tcp"},
             "transport": t} for (p, c, t) in combos]


# ------------------------------------------------------------------------------------------------
# one flow per ending -> (ok, detail, summary)
# ------------------------------------------------------------------------------------------------

def _sb(seed, label, n):
    return T.seeded_bytes(seed, label, n)


def flow_scripted(dep, ending, seed, label, deadline, kind="socks5_ipv4"):
    a1, b1 = _sb(seed, label + "/a1", 3000), _sb(seed, label + "/b1", 3000)
    a2, b2 = _sb(seed, label + "/a2", 50000), _sb(seed, label + "/b2", 50000)
    if ending in ("app_resets_midtransfer", "target_resets_midtransfer"):
        # 300 kB written each way and NOT awaited: the reset comes while data is in flight in both directions
        a3, b3 = _sb(seed, label + "/a3", 300000), _sb(seed, label + "/b3", 300000)
        steps = [("app_send", a1), ("target_send", b1), ("drain",), ("app_send", a3), ("target_send", b3),
                 ("app_reset",) if ending == "app_resets_midtransfer" else ("target_reset",)]
    elif ending == "app_closes_first":
        steps = [("app_send", a1), ("target_send", b1), ("drain",), ("app_send", a2), ("app_close",)]
    elif ending == "target_closes_first":
        steps = [("app_send", a1), ("target_send", b1), ("drain",), ("target_send", b2), ("target_close",)]
    elif ending == "app_resets":
        steps = [("app_send", a1), ("target_send", b1), ("drain",), ("app_reset",)]
    elif ending == "target_resets":
        steps = [("app_send", a1), ("target_send", b1), ("drain",), ("target_reset",)]
    else:
        raise ValueError(ending)
    with T.TcpTarget() as tgt:
        o = T.run_tcp_flow(dep, tgt, kind, steps, deadline=deadline)
    problems = []
    if o["target_connections"] != 1:
        problems.append("target got %d connections" % o["target_connections"])
    if ending in ("app_resets_midtransfer",):
        if o["target_end"] is None:
            problems.append("target saw neither EOF nor RST within %.0f s after the app reset in the middle of the transfer" % deadline)
    elif ending in ("target_resets_midtransfer",):
        if o["app_end"] is None:
            problems.append("app saw neither EOF nor RST within %.0f s after the target reset in the middle of the transfer" % deadline)
    if ending == "app_closes_first":
        if o["target_received"] != o["app_sent"]:
            problems.append("target received %d of the %d bytes the app wrote before closing" % (len(o["target_received"]), len(o["app_sent"])))
        if o["target_end"] != "eof":
            problems.append("target saw %s instead of EOF within %.0f s after the app closed" % (o["target_end"], deadline))
    elif ending == "target_closes_first":
        if o["app_received"] != o["target_sent"]:
            problems.append("app received %d of the %d bytes the target wrote before closing" % (len(o["app_received"]), len(o["target_sent"])))
        if o["app_end"] != "eof":
            problems.append("app saw %s instead of EOF within %.0f s after the target closed" % (o["app_end"], deadline))
    elif ending == "app_resets":
        if o["target_end"] is None:
            problems.append("target saw neither EOF nor RST within %.0f s after the app reset" % deadline)
    elif ending == "target_resets":
        if o["app_end"] is None:
            problems.append("app saw neither EOF nor RST within %.0f s after the target reset" % deadline)
    if o["errors"] and not problems and any("drain" in e or "never got" in e for e in o["errors"]):
        problems.append("flow did not get going: %s" % o["errors"][:2])
    summ = {"app_sent": len(o["app_sent"]), "target_received": len(o["target_received"]), "target_sent": len(o["target_sent"]),
            "app_received": len(o["app_received"]), "app_end": o["app_end"], "target_end": o["target_end"], "errors": o["errors"][:3],
            "seconds": o["seconds"]}
    return (not problems), "; ".join(problems), summ


def flow_app_closes_immediately(dep, ending, seed, label, deadline, kind="socks5_ipv4"):
    """the application completes the local handshake and closes before writing a byte.  The tunnel may or may not have been opened
    by then; a target that WAS dialled must see the end of the stream, and must receive nothing the application did not write"""
    problems = []
    with T.TcpTarget() as tgt:
        s, reply, ok, prefix = T.open_app(dep, kind, tgt.addr, timeout=deadline)
        app = T.Conn(s, name="app-aci")
        app.close()
        if not ok:
            return False, "local handshake failed: %r" % (reply[:40],), {}
        tconn = tgt.wait_conn(0, 1.5)          # a dial that starts later than this is not waited for (the descriptor count would show a leak)
        end, got = None, b""
        if tconn is not None:
            end = tconn.wait_end(deadline)
            got = tconn.received()
            if end is None:
                problems.append("target was dialled and saw neither EOF nor RST within %.0f s after the app closed (before writing anything)" % deadline)
            if got != bytes(prefix):
                problems.append("target received %d bytes, the app wrote %d" % (len(got), len(prefix)))
        n = tgt.count()
        if n > 1:
            problems.append("target got %d connections" % n)
    return (not problems), "; ".join(problems), {"target_dialled": tconn is not None, "target_end": end, "target_received": len(got), "app_sent": len(prefix), "handshake": kind}


def flow_target_closes_immediately(dep, ending, seed, label, deadline, kind="socks5_ipv4"):
    """the target accepts and closes at once; the application has not written anything: it must see the end of the stream"""
    problems = []
    with T.TcpTarget(mode=("immediate", b"", True)) as tgt:
        s, reply, ok, prefix = T.open_app(dep, kind, tgt.addr, timeout=deadline)
        app = T.Conn(s, name="app-tci")
        try:
            if not ok:
                return False, "local handshake failed: %r" % (reply[:40],), {}
            end = app.wait_end(deadline)
            got = app.received()
            if end is None:
                problems.append("app saw neither EOF nor RST within %.0f s although the target closed right after accepting" % deadline)
            if got:
                problems.append("app received %d bytes, the target wrote none" % len(got))
            n = tgt.count()
            if n != 1:
                problems.append("target got %d connections" % n)
        finally:
            app.close()
    return (not problems), "; ".join(problems), {"app_end": end, "app_received": len(got), "target_connections": n, "handshake": kind}


def flow_linger(dep, ending, seed, label, deadline, held):
    """the target answers and closes; the application reads the answer and the end-of-stream but keeps ITS socket open (an idle
    pooled connection): the flow is over all the same - client and server must release it (the caller counts descriptors
    while the sockets in `held` are still open, and closes them afterwards)"""
    a1, b1 = _sb(seed, label + "/a1", 3000), _sb(seed, label + "/b1", 30000)
    problems = []
    with T.TcpTarget() as tgt:
        s, reply, ok, prefix = T.open_app(dep, "socks5_ipv4", tgt.addr, timeout=deadline)
        held.append(s)
        if not ok:
            return False, "local handshake failed: %r" % (reply[:40],), {}
        app = T.Conn(s, name="app-linger")
        app.send(a1, deadline)
        tconn = tgt.wait_conn(0, deadline)
        if tconn is None:
            return False, "target got no connection", {}
        tconn.wait_len(len(a1), deadline)
        tconn.send(b1, deadline)
        tconn.close()
        app.wait_len(len(b1), deadline)
        end = app.wait_end(deadline)
        got = app.received()
        if got != b1:
            problems.append("app received %d of the %d bytes the target wrote before closing" % (len(got), len(b1)))
        if end != "eof":
            problems.append("app saw %s instead of EOF within %.0f s after the target closed" % (end, deadline))
    return (not problems), "; ".join(problems), {"app_received": len(got), "app_end": end, "app_keeps_its_socket_open": True}


def flow_unreachable(dep, ending, seed, label, deadline):
    if ending == "target_refused":
        import socket
        s0 = socket.socket(socket.AF_INET, socket.SOCK_STREAM)
        s0.bind((T.LOOPBACK, 0))
        port = s0.getsockname()[1]
        s0.close()
        host, atyp = T.LOOPBACK, 1
    else:
        host, port, atyp = "nonexistent.invalid", 80, 3
    t0 = time.monotonic()
    s, reply = T.socks5_connect(dep.client_port, host, port, atyp, timeout=deadline)
    app = T.Conn(s, name="app-unreach")
    problems = []
    try:
        try:
            app.send(_sb(seed, label + "/u", 100), timeout=deadline)
        except (OSError, TimeoutError):
            pass
        end = app.wait_end(deadline)
        if end is None:
            problems.append("app saw neither EOF nor RST within %.0f s although the target (%s:%d) cannot be reached" % (deadline, host, port))
    finally:
        got = len(app.data)
        app.close()
    return (not problems), "; ".join(problems), {"target": "%s:%d" % (host, port), "handshake_reply": reply.hex(), "app_end": end,
                                                  "app_received": got, "seconds": round(time.monotonic() - t0, 3)}


def batch_link_cut(dep, fwd, n, seed, label, deadline, reset=False):
    """n flows through the forwarder; while all of them transfer in both directions the forwarder closes
    both of its sockets of every link -> list of (ok, detail, summary)"""
    results = [None] * n
    ready = threading.Barrier(n + 1)
    cut_done = threading.Event()

    def one(i):
        lab = "%s/%d" % (label, i)
        tgt = T.TcpTarget()
        app = tconn = None
        problems = []
        summ = {}
        synced = False
        try:
            s, reply, ok, _ = T.open_app(dep, "socks5_ipv4", tgt.addr, timeout=deadline)
            app = T.Conn(s, name="app-cut")
            a1, b1 = _sb(seed, lab + "/a1", 2000), _sb(seed, lab + "/b1", 2000)
            app.send(a1, deadline)
            tconn = tgt.wait_conn(0, deadline)
            if tconn is None or not tconn.wait_len(len(a1), deadline):
                problems.append("flow did not get going before the cut")
            else:
                tconn.send(b1, deadline)
                app.wait_len(len(b1), deadline)
            try:
                ready.wait(deadline * 3)
                synced = True
            except threading.BrokenBarrierError:
                pass
            big_a, big_b = _sb(seed, lab + "/A", 4 << 20), _sb(seed, lab + "/B", 4 << 20)

            def pump(conn, data):
                try:
                    conn.send(data, timeout=deadline * 2)
                except (OSError, TimeoutError):
                    pass
            ths = []
            if tconn is not None:
                ths = [threading.Thread(target=pump, args=(app, big_a), daemon=True), threading.Thread(target=pump, args=(tconn, big_b), daemon=True)]
                for t in ths:
                    t.start()
            cut_done.wait(deadline * 3)
            t_cut = time.monotonic()
            app_end = app.wait_end(deadline)
            tgt_end = tconn.wait_end(deadline) if tconn is not None else None
            summ = {"app_end": app_end, "target_end": tgt_end, "seconds_to_both_ends": round(time.monotonic() - t_cut, 3),
                    "app_received_at_end": len(app.data), "target_received_at_end": len(tconn.data) if tconn else 0}
            if app_end is None:
                problems.append("app saw neither EOF nor RST within %.0f s after the client-server link was cut" % deadline)
            if tconn is not None and tgt_end is None:
                problems.append("target saw neither EOF nor RST within %.0f s after the client-server link was cut" % deadline)
        except Exception as e:  # driver-side
            problems.append("driver: %r" % (e,))
            if not synced:
                try:
                    ready.abort()
                except Exception:
                    pass
        finally:
            if app is not None:
                app.close()
            tgt.close()
        results[i] = ((not problems), "; ".join(problems), summ)

    ths = [threading.Thread(target=one, args=(i,), daemon=True) for i in range(n)]
    for t in ths:
        t.start()
    info = {}
    try:
        ready.wait(deadline * 3)
    except threading.BrokenBarrierError:
        info["barrier"] = "broken (a flow failed before the cut)"
    # let the bulk transfer get under way, then cut everything at once
    c0 = sum(fwd.relayed())
    end = time.monotonic() + deadline
    while time.monotonic() < end and sum(fwd.relayed()) - c0 < 256 * 1024 * n:
        time.sleep(0.01)
    info["relayed_bulk_bytes_before_cut"] = sum(fwd.relayed()) - c0
    info["links_cut"] = fwd.cut(reset=reset)
    cut_done.set()
    for t in ths:
        t.join(deadline * 6 + 10)
    return [r or (False, "driver: flow thread did not finish", {}) for r in results], info


# ------------------------------------------------------------------------------------------------
# scenario
# ------------------------------------------------------------------------------------------------

def _wait_baseline(dep, base, timeout):
    t0 = time.monotonic()
    while True:
        now = {"client": dep.fd_count("client"), "server": dep.fd_count("server")}
        ok = all(now[w] is not None and now[w] <= base[w] for w in now)
        if ok or time.monotonic() - t0 >= timeout:
            return ok, now, round(time.monotonic() - t0, 2)
        time.sleep(0.05)


def run_scenario(name, cfg, ending, n, seed):
    deadline = T.SETTINGS["deadline"]
    spec = dict(cfg["spec"], seed=seed)
    fwd = None
    expect = {"property": "closing or failing one side tears the whole flow down and frees it", "ending": ending, "concurrent_flows": n,
              "per_flow": {"app_closes_first": "target receives every byte written before the close, then EOF",
                           "target_closes_first": "app receives the complete answer, then EOF",
                           "target_closes_app_lingers": "app receives the complete answer, then EOF; it keeps its own socket open while the descriptors are counted",
                           "app_resets": "target sees EOF or RST", "target_resets": "app sees EOF or RST",
                           "target_refused": "app sees EOF or RST", "target_unresolvable": "app sees EOF or RST",
                           "link_cut": "app AND target see EOF or RST", "link_reset": "app AND target see EOF or RST (both sockets of every link are RESET by the hop)",
                           "app_closes_immediately": "the app closes before writing a byte: if the target was dialled it sees EOF or RST",
                           "target_closes_immediately": "the target closes right after accepting: the app (which wrote nothing) sees EOF or RST",
                           "app_resets_midtransfer": "the app resets while 300 kB travel each way: target sees EOF or RST",
                           "target_resets_midtransfer": "the target resets while 300 kB travel each way: app sees EOF or RST",
                           "mixed": "flow i ends like ending i mod 11 of the list, over the four local handshakes in rotation; each flow meets the requirement of its ending"}[ending] + " within %.0f s" % deadline,
              "fd_count": "client and server back at (<=) the idle baseline within %.0f s" % FD_WAIT}
    try:
        if ending in ("link_cut", "link_reset"):
            fwd = T.TcpForwarder()
            spec["extra"] = {"client_server": {"port": fwd.port}}
        try:
            dep = T.Deployment(spec)
        except T.DeploymentError as e:
            return T.deploy_failed([name], spec, e)
        with dep:
            if fwd is not None:
                fwd.set_upstream((T.LOOPBACK, dep.server_port))
            observed = {}
            held = []
            warm = T.probe_tcp(dep, deadline=deadline)
            if not warm["relayed"]:
                observed.update(T.process_state(dep))
                observed.update(T.tails(dep))
                return [T.result(name, spec, expect, observed, False, "warm-up flow failed: " + warm["relay_detail"])]
            time.sleep(1.0)
            base = {"client": dep.fd_count("client"), "server": dep.fd_count("server")}
            base_fds = {w: dep.fds(w) for w in ("client", "server")}
            observed["baseline_fd_count"] = base
            info = {}
            peak_seen = dict(base)
            sampling = threading.Event()

            def sampler():
                while not sampling.is_set():
                    for w in ("client", "server"):
                        c = dep.fd_count(w)
                        if c is not None and c > peak_seen[w]:
                            peak_seen[w] = c
                    time.sleep(0.005)
            smp = threading.Thread(target=sampler, daemon=True)
            smp.start()
            if ending in ("link_cut", "link_reset"):
                flows, info = batch_link_cut(dep, fwd, n, seed, name, deadline, reset=(ending == "link_reset"))
            else:
                flows = [None] * n

                def pick(e):
                    if e in ("target_refused", "target_unresolvable"):
                        return flow_unreachable
                    if e == "target_closes_app_lingers":
                        return lambda dep, ending, seed, label, deadline: flow_linger(dep, ending, seed, label, deadline, held)
                    if e == "target_closes_immediately":
                        return flow_target_closes_immediately
                    if e == "app_closes_immediately":
                        return flow_app_closes_immediately
                    return flow_scripted
                every = ENDINGS + ENDINGS_AUDIT[:-1]

                def one(i):
                    try:
                        if ending == "mixed":
                            e = every[i % len(every)]
                            f = pick(e)
                            if f in (flow_scripted, flow_target_closes_immediately, flow_app_closes_immediately):
                                r = f(dep, e, seed, "%s/%d" % (name, i), deadline, kind=T.HANDSHAKE_KINDS[(i // len(every) + i) % 4])
                            else:
                                r = f(dep, e, seed, "%s/%d" % (name, i), deadline)
                            flows[i] = (r[0], ("[%s] %s" % (e, r[1])) if r[1] else "", dict(r[2], ending=e))
                        else:
                            flows[i] = pick(ending)(dep, ending, seed, "%s/%d" % (name, i), deadline)
                    except Exception as e:
                        flows[i] = (False, "driver: %r" % (e,), {})
                ths = [threading.Thread(target=one, args=(i,), daemon=True) for i in range(n)]
                for t in ths:
                    t.start()
                for t in ths:
                    t.join(deadline * 8 + 20)
                flows = [f or (False, "driver: flow thread did not finish", {}) for f in flows]
            sampling.set()
            smp.join(1.0)
            peak = {"client": dep.fd_count("client"), "server": dep.fd_count("server")}
            back, now, secs = _wait_baseline(dep, base, FD_WAIT)
            for hs in held:
                try:
                    hs.close()
                except OSError:
                    pass
            problems = []
            bad = [(i, f) for i, f in enumerate(flows) if not f[0]]
            for i, f in bad[:4]:
                problems.append("flow%d: %s" % (i, f[1]))
            if len(bad) > 4:
                problems.append("... %d more flows failed" % (len(bad) - 4))
            observed.update({"flows_ok": n - len(bad), "flows_failed": len(bad), "flow_summaries": [f[2] for f in flows[:8]],
                             "fd_count_peak_during_batch": dict(peak_seen), "fd_count_right_after_batch": peak, "fd_count_after_wait": now, "seconds_until_baseline": secs if back else None})
            observed.update(info)
            if not back:
                linger = {}
                for w in ("client", "server"):
                    cur = dep.fds(w)
                    extra = {fd: d for fd, d in cur.items() if base_fds[w].get(fd) != d}
                    linger[w] = ["%d -> %s" % (fd, d) for fd, d in sorted(extra.items())][:40]
                    if now[w] is not None and now[w] > base[w]:
                        problems.append("%s keeps %d descriptors, baseline %d, %.0f s after the batch (e.g. %s)"
                                        % (w, now[w], base[w], FD_WAIT, "; ".join(linger[w][:3])))
                observed["lingering_fds"] = linger
            observed.update(T.process_state(dep))
            for w in ("client", "server"):
                if not observed["alive"][w]:
                    problems.append("%s process died" % w)
                if observed["panicked"][w]:
                    problems.append("%s logged a panic" % w)
            if problems:
                observed.update(T.tails(dep, 700))
            return [T.result(name, dict(spec, ending=ending, flows=n), expect, observed, not problems, "; ".join(problems)[:1500])]
    finally:
        if fwd is not None:
            fwd.close()


def suite_teardown(tier, seed, only):
    import random
    jobs = []
    batches = [1, 8] if tier == "quick" else [1, 8, 64]
    big_quick = {("vmess.aes-128-gcm.tcp", "target_closes_first"), ("shadowsocks.2022-blake3-aes-128-gcm.tcp", "app_resets"), ("trojan.-.tls", "mixed")}
    for cfg in teardown_configs(tier):
        # a TcpForwarder carries any TCP-based transport (the hop relays TLS / WebSocket bytes as they are); not quic
        endings = list(ENDINGS) + (["link_cut"] if cfg["transport"] != "quic" else [])
        plan = [(e, n) for e in endings for n in batches]
        # dimension audit
        if tier == "thorough":
            # the bulk endings (link cut / reset: 8 MiB per flow; resets in the middle of a transfer: 600 kB per flow) run in batches of 64
            # only where they did before the audit (plain tcp): 64 such flows at once through debug builds do not finish within the suite's 5 s
            plan = [(e, n) for (e, n) in plan if not (e == "link_cut" and n == 64 and cfg["transport"] != "tcp")]
            plan += [(e, n) for e in ENDINGS_AUDIT[:-1] for n in (1, 8)] + [("mixed", 11)] + ([("mixed", 64)] if cfg["transport"] != "quic" else [])
            if cfg["transport"] != "quic":
                plan += [("link_reset", n) for n in (1, 8)]
        else:
            plan += [(e, 8) for e in ENDINGS_AUDIT[:-1]] + [("mixed", 11)] + ([("link_reset", 8)] if cfg["transport"] in ("tcp", "tls") else [])
            plan += [(e, 64) for (c, e) in sorted(big_quick) if c == cfg["name"]]      # batches of 64: not only in the thorough tier
        for (e, n) in plan:
            name = "teardown/%s/%s/n=%d" % (cfg["name"], e, n)
            if T.wanted(name, only):
                jobs.append(lambda name=name, cfg=cfg, e=e, n=n: run_scenario(name, cfg, e, n, seed))
    random.Random(seed).shuffle(jobs)
    return T.run_parallel(jobs, T.SETTINGS["workers"], on_done=T.report_line)
