"""suite `faults`: one failing or hostile flow never takes the service down for others.

scenario = faults/<config>/<fault>   (own deployment, own ports)
  1. deployment up, CANARY before (SOCKS5 TCP flow; + UDP echo where the configuration relays UDP)
  2. inject ONE fault (thorough: also seeded random sequences of up to 6 faults)
  3. wait 0.5 s
  4. require: both processes alive, no "panicked" line in either log, fresh TCP canary ok,
     fresh UDP canary ok (where configured) -- plus what the individual fault demands (e.g. the canary is
     served DURING a stalled connection)
"""
import random
import socket
import struct
import time

import t2lib as T

SETTLE = 0.5


# ------------------------------------------------------------------------------------------------
# configurations
# ------------------------------------------------------------------------------------------------

def _cfg(protocol, cipher, transport, udp):
    """udp: False | "native" (shadowsocks datagrams to the server's UDP port) | "stream" (vmess/trojan)"""
    spec = {"protocol": protocol, "cipher": cipher, "transport": transport,
            "client_mode": "tcp_and_udp" if udp else "tcp"}
    if protocol == "shadowsocks":
        if transport == "quic":
            spec["server_mode"] = "quic"
        else:
            spec["server_mode"] = "tcp_and_udp" if udp else "tcp"
    name = "%s.%s.%s%s" % (protocol, cipher or "-", transport, "+udp" if udp else "")
    server_tcp = not (protocol == "shadowsocks" and transport == "quic")
    server_udp = (udp == "native") or transport == "quic"
    return {"name": name, "spec": spec, "udp": bool(udp), "native_udp": udp == "native", "transport": transport,
            "protocol": protocol, "cipher": cipher, "server_tcp": server_tcp, "server_udp": server_udp,
            # what the server's TCP listener speaks first
            "tcp_layer": "tls" if transport in ("tls", "wss") else ("ws" if transport == "ws" else "plain")}


def fault_configs(tier):
    S22, SL = "2022-blake3-aes-128-gcm", "aes-128-gcm"
    if tier == "quick":
        return [_cfg("shadowsocks", S22, "tcp", "native"), _cfg("shadowsocks", S22, "tls", False), _cfg("shadowsocks", S22, "ws", False),
                _cfg("shadowsocks", SL, "tcp", "native"),
                _cfg("vmess", "aes-128-gcm", "tcp", "stream"), _cfg("vmess", "aes-128-gcm", "tls", "stream"), _cfg("vmess", "aes-128-gcm", "ws", "stream"),
                _cfg("trojan", None, "tls", "stream"), _cfg("trojan", None, "wss", "stream"),
                _cfg("vmess", "aes-128-gcm", "quic", "stream")]      # quic: part of the quick tier too (dimension audit)
    out = []
    for c in (S22, SL, "2022-blake3-chacha20-poly1305"):
        for t in T.TRANSPORTS:
            out.append(_cfg("shadowsocks", c, t, "native" if t == "tcp" else False))
    for c in T.VMESS_CIPHERS:
        for t in T.TRANSPORTS:
            out.append(_cfg("vmess", c, t, "stream"))
    for t in T.TRANSPORTS:
        out.append(_cfg("trojan", None, t, "stream" if t in ("tls", "wss", "quic") else False))
    return out


# ------------------------------------------------------------------------------------------------
# fault implementations: f(ctx) -> observation dict; may contain "problems": [...]
# ------------------------------------------------------------------------------------------------

class Ctx:
    def __init__(self, dep, cfg, rng, tcpfwd=None, udpfwd=None, closers=None):
        self.dep, self.cfg, self.rng, self.tcpfwd, self.udpfwd = dep, cfg, rng, tcpfwd, udpfwd
        self.deadline = 3.0
        self.closers = closers if closers is not None else []

    def server_addr(self):
        return (T.LOOPBACK, self.dep.server_port)

    def client_addr(self):
        return (T.LOOPBACK, self.dep.client_port)

    def rand(self, n):
        return self.rng.randbytes(n) if n else b""


def _tcp(addr, timeout=3.0):
    s = socket.socket(socket.AF_INET, socket.SOCK_STREAM)
    s.settimeout(timeout)
    s.connect(addr)
    return s


def _peer_state(s, wait=0.3):
    """What the peer did with our connection within `wait`: 'open' | 'closed' (FIN) | 'reset' | 'sent N bytes'"""
    s.settimeout(wait)
    got = b""
    try:
        while True:
            b = s.recv(4096)
            if not b:
                return "closed" if not got else "sent %d bytes then closed" % len(got)
            got += b
    except socket.timeout:
        return "open" if not got else "sent %d bytes, still open" % len(got)
    except OSError:
        return "reset"


def _rst_close(s):
    try:
        s.setsockopt(socket.SOL_SOCKET, socket.SO_LINGER, struct.pack("ii", 1, 0))
    except OSError:
        pass
    s.close()


def f_srv_connect_close(ctx):
    s = _tcp(ctx.server_addr())
    s.close()
    return {"did": "connect, close"}


def f_srv_1byte_close(ctx):
    s = _tcp(ctx.server_addr())
    s.sendall(ctx.rand(1))
    s.close()
    return {"did": "connect, 1 random byte, close"}


def mk_srv_random(n):
    def f(ctx):
        s = _tcp(ctx.server_addr())
        s.sendall(ctx.rand(n))
        st = _peer_state(s, 0.3)
        s.close()
        return {"did": "connect, %d random bytes, wait 0.3 s, close" % n, "server_reaction": st}
    return f


def _during(ctx, hold, label):
    """Run the canary while `hold` sockets are kept open; -> (observation, problems)"""
    c = T.canary(ctx.dep, udp=ctx.cfg["udp"], deadline=ctx.deadline)
    problems = []
    if not c["tcp"]:
        problems.append("TCP canary not served DURING %s: %s" % (label, c["tcp_detail"]))
    if ctx.cfg["udp"] and not c["udp"]:
        problems.append("UDP canary not served DURING %s" % label)
    return c, problems


def f_srv_silent_3s(ctx):
    t0 = time.monotonic()
    s = _tcp(ctx.server_addr())
    time.sleep(0.3)
    c, problems = _during(ctx, [s], "a silent (stalled) connection")
    t_canary = time.monotonic() - t0
    st = _peer_state(s, max(0.05, 3.0 - (time.monotonic() - t0)))
    s.close()
    return {"did": "connect, stay silent for 3 s, canary at 0.3 s", "canary_during": c, "canary_finished_at_s": round(t_canary, 2),
            "server_reaction_to_silent_connection_within_3s": st, "problems": problems}


def f_srv_truncated_handshake(ctx):
    layer = ctx.cfg["tcp_layer"]
    if layer == "tls":
        data, what = T.tls_client_hello()[:20], "first 20 bytes of a TLS ClientHello"
    elif layer == "ws":
        data, what = b"GET /ws HTTP/1.1\r\n", "'GET /ws HTTP/1.1\\r\\n' without the end of the head"
    else:
        # plain tcp: the first bytes of a genuine request, captured on the forwarder during the canary
        first = b""
        if ctx.tcpfwd is not None:
            for l in ctx.tcpfwd.links:
                if len(l["c2s"]) > 1:
                    first = bytes(l["c2s"])
                    break
        if not first:
            return {"did": "nothing (no genuine request captured)", "problems": ["driver: no request captured on the forwarder"]}
        n = min(20, len(first) - 1)
        data, what = first[:n], "first %d bytes of a genuine %s request (captured from the canary)" % (n, ctx.cfg["protocol"])
    s = _tcp(ctx.server_addr())
    s.sendall(data)
    time.sleep(0.2)
    c, problems = _during(ctx, [s], "a truncated handshake")
    st = _peer_state(s, 0.5)
    s.close()
    return {"did": "connect, send %s, keep the connection open" % what, "canary_during": c, "server_reaction": st, "problems": problems}


def f_srv_50_half_open(ctx):
    socks = []
    errs = 0
    for _ in range(50):
        try:
            socks.append(_tcp(ctx.server_addr(), 2.0))
        except OSError:
            errs += 1
    time.sleep(0.2)
    c, problems = _during(ctx, socks, "50 idle connections")
    for s in socks:
        s.close()
    return {"did": "50 simultaneous connections without a byte, canary while they are open, then close all",
            "opened": len(socks), "connect_errors": errs, "canary_during": c, "problems": problems}


def f_srv_rst_after_connect(ctx):
    for _ in range(3):
        s = _tcp(ctx.server_addr())
        _rst_close(s)
    return {"did": "3x connect then RST (SO_LINGER 0)"}


def mk_srv_udp_random(n):
    def f(ctx):
        u = socket.socket(socket.AF_INET, socket.SOCK_DGRAM)
        u.sendto(ctx.rand(n), ctx.server_addr())
        u.close()
        return {"did": "one %d-byte random datagram to the server's UDP port" % n}
    return f


def f_srv_udp_replay(ctx):
    """needs the dual forwarder: the client talks to the forwarder, which records client->server datagrams"""
    dep, fwd = ctx.dep, ctx.udpfwd
    problems = []
    obs = {"did": "capture a genuine client->server datagram on a UDP forwarder, re-send it from another socket"}
    with T.UdpTarget() as tgt, T.UdpApp("orig") as a, T.UdpApp("second") as b:
        n0 = len(fwd.captured)
        a.send(dep.client_port, tgt.addr, b"replay-me-1")
        a.wait_count(1, ctx.deadline)
        obs["first_datagram_echoed"] = a.count() == 1
        cap = [c for c in fwd.captured[n0:]]
        if not cap:
            return dict(obs, problems=["driver: nothing captured on the forwarder (client did not send through it)"])
        pkt = cap[0][0]
        obs["captured_len"] = len(pkt)
        before = tgt.count()
        u = socket.socket(socket.AF_INET, socket.SOCK_DGRAM)
        u.bind((T.LOOPBACK, 0))
        u.sendto(pkt, ctx.server_addr())        # straight to the real server port, from a foreign socket
        u.settimeout(0.5)
        try:
            r, _ = u.recvfrom(70000)
            obs["replayer_got_reply_bytes"] = len(r)
        except (socket.timeout, OSError):
            obs["replayer_got_reply_bytes"] = 0
        u.close()
        time.sleep(SETTLE)
        obs["replayed_datagram_reached_target_again"] = tgt.count() > before
        if obs["replayed_datagram_reached_target_again"] and (ctx.cfg["cipher"] or "").startswith("2022"):
            problems.append("the replayed datagram was accepted and relayed to the target (2022 ciphers have a replay window)")
        a.send(dep.client_port, tgt.addr, b"after-replay-2")
        ok_a = a.wait_count(2, ctx.deadline) and a.received[-1][1] == b"after-replay-2"
        b.send(dep.client_port, tgt.addr, b"second-app-1")
        ok_b = b.wait_count(1, ctx.deadline) and b.received[-1][1] == b"second-app-1"
        obs["original_app_continues"] = bool(ok_a)
        obs["second_app_works"] = bool(ok_b)
        if not ok_a:
            problems.append("after the replay the ORIGINAL application's next datagram is not echoed")
        if not ok_b:
            problems.append("after the replay a second application's datagram is not echoed")
    obs["problems"] = problems
    return obs


def f_cli_connect_close(ctx):
    s = _tcp(ctx.client_addr())
    s.close()
    return {"did": "connect to the local port, close"}


def f_cli_05_close(ctx):
    s = _tcp(ctx.client_addr())
    s.sendall(b"\x05")
    time.sleep(0.05)
    s.close()
    return {"did": "send 0x05 only, close"}


def f_cli_050100_garbage(ctx):
    s = _tcp(ctx.client_addr())
    s.sendall(b"\x05\x01\x00")
    r = T._recv_some(s, 2, 1.0)
    s.sendall(b"\xfe" + ctx.rand(40))
    st = _peer_state(s, 0.5)
    s.close()
    return {"did": "05 01 00, then 41 garbage bytes", "greeting_reply": r.hex(), "client_reaction": st}


def mk_cli_stalled(prefix, label):
    """a local peer that connects to the client and stalls its handshake (sends nothing / only part of it): the client must go
    on serving others MEANWHILE (canary while the stalled connection is held)"""
    def f(ctx):
        t0 = time.monotonic()
        s = _tcp(ctx.client_addr())
        if prefix:
            s.sendall(prefix)
        time.sleep(0.3)
        c, problems = _during(ctx, [s], "a local connection stalled in its handshake (%s)" % label)
        t_canary = time.monotonic() - t0
        s.close()
        return {"did": "local connection, %s, then silence; canary at 0.3 s while it is held" % label, "canary_during": c,
                "canary_finished_at_s": round(t_canary, 2), "problems": problems}
    return f


def _failing_socks5(ctx, host, port, atyp):
    s, reply = T.socks5_connect(ctx.dep.client_port, host, port, atyp, timeout=ctx.deadline)
    try:
        s.sendall(b"hello through a flow that cannot work")
    except OSError:
        pass
    st = _peer_state(s, ctx.deadline)
    s.close()
    return {"handshake_reply": reply.hex(), "app_connection_after_sending": st}


def f_cli_socks5_unresolvable(ctx):
    return dict(_failing_socks5(ctx, "nonexistent.invalid", 80, 3), did="SOCKS5 CONNECT to nonexistent.invalid:80, send data")


def _refused_port():
    s = socket.socket(socket.AF_INET, socket.SOCK_STREAM)
    s.bind((T.LOOPBACK, 0))
    p = s.getsockname()[1]
    s.close()
    return p


def f_cli_socks5_refused(ctx):
    p = _refused_port()
    return dict(_failing_socks5(ctx, T.LOOPBACK, p, 1), did="SOCKS5 CONNECT to 127.0.0.1:%d (nothing listens), send data" % p)


def f_cli_http_origin_form(ctx):
    s = _tcp(ctx.client_addr())
    s.sendall(b"GET / HTTP/1.1\r\n\r\n")
    st = _peer_state(s, ctx.deadline)
    s.close()
    problems = []
    if st == "open":
        problems.append("origin-form request 'GET / HTTP/1.1' neither refused nor answered within %.0f s (connection stays open)" % ctx.deadline)
    return {"did": "plain HTTP origin-form request 'GET / HTTP/1.1\\r\\n\\r\\n'", "client_reaction": st, "problems": problems}


def mk_cli_udp_len(n):
    def f(ctx):
        with T.UdpTarget() as tgt:
            whole = T.socks5_udp_datagram(tgt.addr, b"")      # 10-byte header for an IPv4 target
            u = socket.socket(socket.AF_INET, socket.SOCK_DGRAM)
            u.sendto(whole[:n], ctx.client_addr())
            u.close()
            time.sleep(0.2)
            return {"did": "a %d-byte datagram (a SOCKS5-UDP header cut after %d bytes) to the client's UDP port" % (n, n),
                    "target_received": tgt.count()}
    return f


def f_cli_udp_frag(ctx):
    with T.UdpTarget() as tgt:
        u = socket.socket(socket.AF_INET, socket.SOCK_DGRAM)
        u.sendto(T.socks5_udp_datagram(tgt.addr, b"fragment-1", frag=1), ctx.client_addr())
        u.close()
        time.sleep(0.3)
        n = tgt.count()
    return {"did": "a SOCKS5-UDP datagram with FRAG=1", "target_received": n,
            "note": "RFC 1928: an implementation that does not support fragmentation MUST drop it"}


def f_cli_udp_unresolvable(ctx):
    u = socket.socket(socket.AF_INET, socket.SOCK_DGRAM)
    u.sendto(T.socks5_udp_datagram(("nonexistent.invalid", 53), b"who is there", atyp=3), ctx.client_addr())
    u.close()
    return {"did": "a well-formed SOCKS5-UDP datagram for nonexistent.invalid:53"}


def f_cli_udp_server_down(ctx):
    """stream-carried UDP (vmess / trojan): the client reaches the server through a forwarder; while nothing listens on
    that port (connection refused) an application sends a datagram - setting up its outbound fails; then the server
    is reachable again.  The UDP service of the client must survive (checked by the UDP canary afterwards)."""
    port = ctx.tcpfwd.port
    ctx.tcpfwd.close()
    time.sleep(0.4)
    refused = False
    try:
        _tcp((T.LOOPBACK, port), 0.5).close()
    except OSError:
        refused = True
    with T.UdpTarget() as tgt:
        u = socket.socket(socket.AF_INET, socket.SOCK_DGRAM)
        for _ in range(2):
            u.sendto(T.socks5_udp_datagram(tgt.addr, b"sent while the server is away"), ctx.client_addr())
            time.sleep(0.2)
        u.close()
        got = tgt.count()
    fwd = None
    for _ in range(20):
        try:
            fwd = T.TcpForwarder(upstream=(T.LOOPBACK, ctx.dep.server_port), port=port)
            break
        except OSError:
            time.sleep(0.1)
    if fwd is None:
        raise T.InfraError("could not listen again on the forwarder port %d" % port)
    ctx.closers.append(fwd)
    ctx.tcpfwd = fwd
    return {"did": "server port unreachable (connection refused: %s) while an application sent 2 datagrams; then reachable again" % refused,
            "target_received_meanwhile": got}


def f_srv_fd_exhaustion(ctx):
    """server started with RLIMIT_NOFILE=40"""
    socks, errs = [], 0
    for _ in range(120):
        try:
            s = _tcp(ctx.server_addr(), 1.0)
            socks.append(s)
        except OSError:
            errs += 1
            if errs > 5:
                break
    # while no descriptor is left: a datagram of a NEW application (new session -> the server needs a new association, i.e. a socket)
    sent_udp = False
    if ctx.cfg["udp"]:
        with T.UdpTarget() as tgt:
            u = socket.socket(socket.AF_INET, socket.SOCK_DGRAM)
            for _ in range(2):
                u.sendto(T.socks5_udp_datagram(tgt.addr, b"sent while the server has no descriptor left"), ctx.client_addr())
                time.sleep(0.15)
            u.close()
            sent_udp = True
    time.sleep(1.0)
    fds_at_peak = ctx.dep.fd_count("server")
    for s in socks:
        s.close()
    time.sleep(1.0)
    return {"did": "server runs with RLIMIT_NOFILE=40; %d connections opened (accepts must fail)%s, held 1 s, closed, 1 s pause" % (len(socks), "; 2 datagrams of a new application meanwhile" if sent_udp else ""),
            "connect_errors": errs, "server_fd_count_at_peak": fds_at_peak, "server_fd_count_after": ctx.dep.fd_count("server")}


def f_cli_fd_exhaustion(ctx):
    """client started with RLIMIT_NOFILE=40"""
    socks, errs = [], 0
    for _ in range(120):
        try:
            s = _tcp(ctx.client_addr(), 1.0)
            socks.append(s)
        except OSError:
            errs += 1
            if errs > 5:
                break
    # while no descriptor is left: datagrams of a NEW application (the client needs a new binding, i.e. a socket / a connection)
    sent_udp = False
    if ctx.cfg["udp"]:
        with T.UdpTarget() as tgt:
            u = socket.socket(socket.AF_INET, socket.SOCK_DGRAM)
            for _ in range(2):
                u.sendto(T.socks5_udp_datagram(tgt.addr, b"sent while the client has no descriptor left"), ctx.client_addr())
                time.sleep(0.15)
            u.close()
            sent_udp = True
    time.sleep(1.0)
    fds_at_peak = ctx.dep.fd_count("client")
    for s in socks:
        s.close()
    time.sleep(1.0)
    return {"did": "client runs with RLIMIT_NOFILE=40; %d local connections opened (accepts must fail)%s, held 1 s, closed, 1 s pause" % (len(socks), "; 2 datagrams of a new application meanwhile" if sent_udp else ""),
            "connect_errors": errs, "client_fd_count_at_peak": fds_at_peak, "client_fd_count_after": ctx.dep.fd_count("client")}


# ------------------------------------------------------------------------------------------------
# faults added by the dimension audit (seeded/audit/aud-t2a.md)
# ------------------------------------------------------------------------------------------------

def _tls_to_server(ctx, timeout=3.0):
    """a COMPLETE TLS handshake with the server's listener (certificate not verified) -> ssl socket"""
    import ssl
    c = ssl.SSLContext(ssl.PROTOCOL_TLS_CLIENT)
    c.check_hostname = False
    c.verify_mode = ssl.CERT_NONE
    raw = _tcp(ctx.server_addr(), timeout)
    return c.wrap_socket(raw, server_hostname="localhost")


def _ws_upgrade(s, timeout=3.0):
    """a complete WebSocket upgrade on an open (plain or TLS) connection -> reply head"""
    import base64
    import os as _os
    key = base64.b64encode(_os.urandom(16)).decode()
    s.sendall(("GET /ws HTTP/1.1\r\nHost: localhost\r\nUpgrade: websocket\r\nConnection: Upgrade\r\nSec-WebSocket-Key: %s\r\n"
               "Sec-WebSocket-Version: 13\r\n\r\n" % key).encode())
    return T._recv_some(s, 4096, timeout, until=b"\r\n\r\n")


def f_srv_tls_then_silence(ctx):
    s = _tls_to_server(ctx)
    time.sleep(0.2)
    c, problems = _during(ctx, [s], "a connection that completed the TLS handshake and then stalls")
    st = _peer_state(s, 0.3)
    s.close()
    return {"did": "complete TLS handshake with the server, then silence; canary while it is held", "canary_during": c, "server_reaction": st, "problems": problems}


def f_srv_tls_then_garbage(ctx):
    s = _tls_to_server(ctx)
    s.sendall(ctx.rand(100))
    st = _peer_state(s, 0.4)
    try:
        s.close()
    except OSError:
        pass
    return {"did": "complete TLS handshake, then 100 random bytes inside the TLS session", "server_reaction": st}


def f_srv_ws_then_garbage(ctx):
    s = _tls_to_server(ctx) if ctx.cfg["tcp_layer"] == "tls" else _tcp(ctx.server_addr())
    head = _ws_upgrade(s)
    # a masked binary frame carrying random bytes, then bytes that are no frame at all
    payload = ctx.rand(60)
    mask = ctx.rand(4)
    frame = bytes([0x82, 0x80 | len(payload)]) + mask + bytes(b ^ mask[i % 4] for i, b in enumerate(payload))
    try:
        s.sendall(frame)
        s.sendall(b"\xff\xff\xff\xff" + ctx.rand(40))
    except OSError:
        pass
    st = _peer_state(s, 0.4)
    try:
        s.close()
    except OSError:
        pass
    return {"did": "complete WebSocket upgrade%s, one binary frame of 60 random bytes, then 44 bytes that are no frame" % (" inside TLS" if ctx.cfg["tcp_layer"] == "tls" else ""),
            "upgrade_reply": head[:40].decode("latin-1"), "server_reaction": st}


def f_srv_ws_then_silence(ctx):
    s = _tls_to_server(ctx) if ctx.cfg["tcp_layer"] == "tls" else _tcp(ctx.server_addr())
    head = _ws_upgrade(s)
    c, problems = _during(ctx, [s], "a connection that completed the WebSocket upgrade and then stalls")
    try:
        s.close()
    except OSError:
        pass
    return {"did": "complete WebSocket upgrade, then silence; canary while it is held", "upgrade_reply": head[:40].decode("latin-1"), "canary_during": c, "problems": problems}


def _flow_through_dead_link(ctx, label):
    """an application flow started while the client cannot get through to the server -> what the application sees"""
    with T.TcpTarget() as trap:
        t0 = time.monotonic()
        s, reply = T.socks5_connect(ctx.dep.client_port, T.LOOPBACK, trap.port, 1, timeout=ctx.deadline)
        try:
            s.sendall(b"hello through a link that is " + label.encode())
        except OSError:
            pass
        return s, {"handshake_reply": reply.hex(), "trap": trap, "t0": t0}, trap.count()


def f_cli_tcp_server_down(ctx):
    """the client reaches the server through a forwarder; while nothing listens there (connection refused) an application opens
    a flow: setting up its outbound fails.  Then the server is reachable again."""
    port = ctx.tcpfwd.port
    ctx.tcpfwd.close()
    time.sleep(0.4)
    s, reply = T.socks5_connect(ctx.dep.client_port, T.LOOPBACK, _refused_port(), 1, timeout=ctx.deadline)
    try:
        s.sendall(b"hello while the server is away")
    except OSError:
        pass
    st = _peer_state(s, ctx.deadline)
    s.close()
    fwd = None
    for _ in range(20):
        try:
            fwd = T.TcpForwarder(upstream=(T.LOOPBACK, ctx.dep.server_port), port=port)
            break
        except OSError:
            time.sleep(0.1)
    if fwd is None:
        raise T.InfraError("could not listen again on the forwarder port %d" % port)
    ctx.closers.append(fwd)
    ctx.tcpfwd = fwd
    return {"did": "server port unreachable (connection refused) while an application opened a TCP flow; then reachable again",
            "handshake_reply": reply.hex(), "app_connection_while_the_server_is_away": st}


def f_cli_server_stalls(ctx):
    """the server accepts the client's next connection and then says nothing (a stalled TCP / TLS / WebSocket handshake as the
    CLIENT sees it): the flow concerned hangs, every other flow must be served meanwhile"""
    ctx.tcpfwd.blackhole_next(1)
    with T.TcpTarget() as trap:
        s, reply = T.socks5_connect(ctx.dep.client_port, T.LOOPBACK, trap.port, 1, timeout=ctx.deadline)
        try:
            s.sendall(b"hello into a server that stalls")
        except OSError:
            pass
        end = time.monotonic() + ctx.deadline       # the canary must not start before the hop holds the application's outbound connection
        while time.monotonic() < end and len(ctx.tcpfwd.held) < 1:
            time.sleep(0.02)
        time.sleep(0.2)
        held = len(ctx.tcpfwd.held)
        if held != 1:
            ctx.tcpfwd.release_held(reset=True)
            s.close()
            return {"did": "nothing (the client opened no outbound connection for the application's flow within %.0f s)" % ctx.deadline,
                    "problems": ["driver: the hop holds %d connections instead of the application's one" % held]}
        c, problems = _during(ctx, [s], "an outbound connection of the client on which the server stalls")
        st = _peer_state(s, 0.2)
        dialled = trap.count()
        ctx.tcpfwd.release_held(reset=True)
        st2 = _peer_state(s, ctx.deadline)
        s.close()
    return {"did": "the client's next outbound connection is accepted and then ignored (server stalls); canary while it hangs; then it is reset",
            "canary_during": c, "app_connection_during": st, "app_connection_after_the_reset": st2, "stalled_flow_reached_its_target": dialled, "problems": problems}


def _client_outbound_addr(ctx, app_payload=b"locate-the-outbound-socket"):
    """one exchange through the dual forwarder -> (UdpApp, UdpTarget, client's outbound address as the hop saw it)"""
    fwd = ctx.udpfwd
    tgt, app = T.UdpTarget(), T.UdpApp("inj")
    ctx.closers.extend([tgt, app])
    n0 = len(fwd.captured)
    app.send(ctx.dep.client_port, tgt.addr, app_payload)
    app.wait_count(1, ctx.deadline)
    cap = fwd.captured[n0:]
    return app, tgt, (cap[0][1] if cap else None)


def f_cli_udp_garbage_from_server(ctx):
    """undecodable datagrams arriving at the CLIENT's outbound socket from the server's address"""
    app, tgt, caddr = _client_outbound_addr(ctx)
    if caddr is None:
        return {"did": "nothing", "problems": ["driver: nothing captured on the forwarder"]}
    for n in (1, 15, 31, 100, 1000):
        ctx.udpfwd.inject_to_client(ctx.rand(n), caddr)
        time.sleep(0.02)
    time.sleep(0.3)
    strays = [p for _l, p, _t in list(app.received)[1:]]
    app.send(ctx.dep.client_port, tgt.addr, b"after-the-garbage")
    ok = app.wait_count(2 + len(strays), ctx.deadline) and app.received[-1][1] == b"after-the-garbage"
    problems = []
    if strays:
        problems.append("undecodable datagrams from the server side were handed to the application (%d datagrams)" % len(strays))
    return {"did": "5 random datagrams (1, 15, 31, 100, 1000 bytes) sent to the client's outbound UDP socket from the server's address",
            "first_exchange_ok": app.count() >= 1, "same_application_continues": bool(ok), "problems": problems}


def f_cli_udp_replay_reply(ctx):
    """a genuine server->client datagram, captured on the hop, is delivered to the client a second and third time"""
    fwd = ctx.udpfwd
    app, tgt, caddr = _client_outbound_addr(ctx, b"reply-to-be-replayed")
    reps = [r for r in fwd.replies if r[1] == caddr]
    if caddr is None or not reps:
        return {"did": "nothing", "problems": ["driver: no server->client datagram captured on the forwarder"]}
    pkt = reps[-1][0]
    n0 = app.count()
    for _ in range(2):
        fwd.inject_to_client(pkt, caddr)
        time.sleep(0.05)
    time.sleep(0.4)
    dups = app.count() - n0
    app.send(ctx.dep.client_port, tgt.addr, b"after-the-replayed-reply")
    ok = app.wait_count(n0 + dups + 1, ctx.deadline) and app.received[-1][1] == b"after-the-replayed-reply"
    problems = []
    rp = (ctx.cfg["cipher"] or "").startswith("2022")
    if rp and dups:
        problems.append("a replayed server->client datagram was handed to the application again (%d times; 2022 ciphers number their packets)" % dups)
    if rp and not ok:
        problems.append("after a replayed (refused) server->client datagram the session does not go on: the application's next datagram is not echoed")
    return {"did": "a captured server->client datagram re-sent twice to the client's outbound socket", "replayed_reply_delivered_again": dups,
            "same_application_continues": bool(ok), "problems": problems}


def f_cli_udp_target_port_closed(ctx):
    u = socket.socket(socket.AF_INET, socket.SOCK_DGRAM)
    u.bind((T.LOOPBACK, 0))
    port = u.getsockname()[1]
    u.close()
    a = socket.socket(socket.AF_INET, socket.SOCK_DGRAM)
    for _ in range(2):
        a.sendto(T.socks5_udp_datagram((T.LOOPBACK, port), b"to a closed port"), ctx.client_addr())
        time.sleep(0.1)
    a.close()
    return {"did": "2 well-formed SOCKS5-UDP datagrams for 127.0.0.1:%d where nothing listens (ICMP port unreachable at the server)" % port}


def mk_cli_udp_raw(raw_fn, what):
    def f(ctx):
        with T.UdpTarget() as tgt:
            u = socket.socket(socket.AF_INET, socket.SOCK_DGRAM)
            u.sendto(raw_fn(tgt), ctx.client_addr())
            u.close()
            time.sleep(0.2)
            return {"did": what, "target_received": tgt.count()}
    return f


def _flow_reset(ctx, who):
    with T.TcpTarget() as tgt:
        steps = [("app_send", ctx.rand(3000)), ("target_send", ctx.rand(3000)), ("drain",), ("app_send", ctx.rand(200000)), ("target_send", ctx.rand(200000)),
                 ("app_reset",) if who == "app" else ("target_reset",)]
        o = T.run_tcp_flow(ctx.dep, tgt, "socks5_ipv4", steps, deadline=ctx.deadline)
    return {"did": "a flow with 200 kB in flight each way; the %s resets its connection" % ("application" if who == "app" else "target"),
            "app_end": o["app_end"], "target_end": o["target_end"], "errors": o["errors"][:2]}


def f_cli_app_resets_midflow(ctx):
    return _flow_reset(ctx, "app")


def f_srv_target_resets_midflow(ctx):
    return _flow_reset(ctx, "target")


def mk_restart(which):
    def f(ctx):
        dep = ctx.dep
        old = None
        if ctx.cfg["udp"] and which == "server":
            # an application that was talking before the restart goes on talking afterwards (recorded, see F-aud-3)
            tgt, app = T.UdpTarget(), T.UdpApp("old")
            ctx.closers.extend([tgt, app])
            for i in range(4):
                app.send(dep.client_port, tgt.addr, b"before-the-restart-%d" % i)
                app.wait_count(i + 1, ctx.deadline)
            old = (app, tgt, app.count())
        r = dep.restart(which, down=0.3)
        problems = []
        if not r["listening_again"]:
            problems.append("the %s does not listen again after its restart: %s" % (which, r["detail"]))
        o = {"did": "the %s process is stopped (SIGTERM) and started again 0.3 s later with the same configuration; the %s keeps running" % (which, "client" if which == "server" else "server"),
             "restart": r, "problems": problems}
        if old:
            app, tgt, n0 = old
            t0 = tgt.count()
            for i in range(6):
                app.send(dep.client_port, tgt.addr, b"after-the-restart-%d" % i)
                app.wait_count(n0 + i + 1, 0.5)
            o["application_that_was_talking_before"] = {"replies_before": n0, "datagrams_after": 6, "reached_the_target": tgt.count() - t0, "replies_after": app.count() - n0,
                                                         "note": "recorded, not required here (a restart of the server is not a fault of the C08 catalogue); lost replies with a 2022 cipher are F-aud-3"}
        return o
    return f


def f_srv_wrong_credential_client(ctx):
    """a second client PROCESS whose credential differs from the server's: nothing of it may be relayed, and the genuine
    users go on being served"""
    import base64
    import hashlib
    p, c = ctx.cfg["protocol"], ctx.cfg["cipher"]
    if p == "shadowsocks" and (c or "").startswith("2022"):
        n = T.SS_2022_KEYLEN[c]
        bad = base64.b64encode(hashlib.sha256(b"a stranger's key").digest()[:n]).decode()
    elif p == "vmess":
        bad = "0e0e0e0e-1111-4222-8333-444444444444"
    else:
        bad = "not-the-password"
    problems = []
    o = {"did": "a second client process configured with a credential the server does not know opens a TCP flow%s" % (" and sends a datagram" if ctx.cfg["udp"] else "")}
    try:
        with T.ExtraClient(ctx.dep, client_server={"password": bad}) as c2, T.TcpTarget() as trap:
            s, reply = T.socks5_connect(c2.client_port, T.LOOPBACK, trap.port, 1, timeout=ctx.deadline)
            try:
                s.sendall(b"let me through")
            except OSError:
                pass
            o["app_connection"] = _peer_state(s, 1.0)
            s.close()
            if ctx.cfg["udp"]:
                with T.UdpTarget() as utrap:
                    u = socket.socket(socket.AF_INET, socket.SOCK_DGRAM)
                    for _ in range(2):
                        u.sendto(T.socks5_udp_datagram(utrap.addr, b"let me through"), (T.LOOPBACK, c2.client_port))
                        time.sleep(0.2)
                    u.close()
                    time.sleep(0.3)
                    o["datagrams_relayed_for_the_stranger"] = utrap.count()
                    if utrap.count():
                        problems.append("a datagram of a client WITHOUT the configured credential was forwarded to its target")
            time.sleep(0.2)
            o["tcp_flows_relayed_for_the_stranger"] = trap.count()
            if trap.count():
                problems.append("the server dialled a target for a client WITHOUT the configured credential")
            o["stranger_client_alive"] = c2.alive()
    except T.DeploymentError as e:
        o["stranger_client"] = "did not start: %s" % (getattr(e, "ready_detail", e),)
    o["problems"] = problems
    return o


# name -> (function, applies(cfg), needs)   needs: None | "tcpfwd" | "dualfwd"
def catalogue():
    c = {}
    srv = lambda cfg: cfg["server_tcp"]                      # noqa: E731
    c["srv_connect_close"] = (f_srv_connect_close, srv, None)
    c["srv_1byte_close"] = (f_srv_1byte_close, srv, None)
    for n in (1, 15, 16, 17, 40, 59, 60, 61, 100, 1000):
        c["srv_random_%d" % n] = (mk_srv_random(n), srv, None)
    c["srv_silent_3s"] = (f_srv_silent_3s, srv, None)
    # over quic the client never speaks TCP to the server, so there is no genuine TCP request to truncate
    c["srv_truncated_handshake"] = (f_srv_truncated_handshake, lambda cfg: cfg["server_tcp"] and cfg["transport"] != "quic", lambda cfg: ("dualfwd" if cfg["native_udp"] else "tcpfwd") if cfg["tcp_layer"] == "plain" else None)
    c["srv_50_half_open"] = (f_srv_50_half_open, srv, None)
    c["srv_rst_after_connect"] = (f_srv_rst_after_connect, srv, None)
    for n in (1, 15, 31, 100):
        c["srv_udp_random_%d" % n] = (mk_srv_udp_random(n), lambda cfg: cfg["server_udp"], None)
    c["srv_udp_replay"] = (f_srv_udp_replay, lambda cfg: cfg["native_udp"], "dualfwd")
    every = lambda cfg: True                                 # noqa: E731
    c["cli_connect_close"] = (f_cli_connect_close, every, None)
    c["cli_05_close"] = (f_cli_05_close, every, None)
    c["cli_050100_garbage"] = (f_cli_050100_garbage, every, None)
    c["cli_socks5_unresolvable"] = (f_cli_socks5_unresolvable, every, None)
    c["cli_socks5_refused"] = (f_cli_socks5_refused, every, None)
    c["cli_http_origin_form"] = (f_cli_http_origin_form, every, None)
    c["cli_stalled_silent"] = (mk_cli_stalled(b"", "nothing sent"), every, None)
    c["cli_stalled_socks5_greeting"] = (mk_cli_stalled(b"\x05", "only the first byte of a SOCKS5 greeting"), every, None)
    c["cli_stalled_http_line"] = (mk_cli_stalled(b"CONNECT exam", "half an HTTP request line"), every, None)
    cu = lambda cfg: cfg["udp"]                              # noqa: E731
    for n in (0, 1, 3, 4, 5, 7, 9):
        c["cli_udp_len_%d" % n] = (mk_cli_udp_len(n), cu, None)
    c["cli_udp_frag"] = (f_cli_udp_frag, cu, None)
    c["cli_udp_unresolvable"] = (f_cli_udp_unresolvable, cu, None)
    # outbound set-up failure: only where the datagrams travel in a TCP-based tunnel
    c["cli_udp_server_down"] = (f_cli_udp_server_down, lambda cfg: cfg["udp"] and not cfg["native_udp"] and cfg["transport"] != "quic", "tcpfwd")
    # ---- added by the dimension audit
    tls = lambda cfg: cfg["server_tcp"] and cfg["tcp_layer"] == "tls"                       # noqa: E731
    ws = lambda cfg: cfg["server_tcp"] and cfg["transport"] in ("ws", "wss")                # noqa: E731
    fwd = lambda cfg: "dualfwd" if cfg["native_udp"] else "tcpfwd"                          # noqa: E731
    tcp_link = lambda cfg: cfg["server_tcp"] and cfg["transport"] != "quic"                 # noqa: E731
    c["srv_tls_then_silence"] = (f_srv_tls_then_silence, tls, None)
    c["srv_tls_then_garbage"] = (f_srv_tls_then_garbage, tls, None)
    c["srv_ws_then_garbage"] = (f_srv_ws_then_garbage, ws, None)
    c["srv_ws_then_silence"] = (f_srv_ws_then_silence, ws, None)
    c["srv_target_resets_midflow"] = (f_srv_target_resets_midflow, every, None)
    c["srv_wrong_credential_client"] = (f_srv_wrong_credential_client, every, None)
    c["srv_restart"] = (mk_restart("server"), every, None)
    c["cli_restart"] = (mk_restart("client"), every, None)
    c["cli_app_resets_midflow"] = (f_cli_app_resets_midflow, every, None)
    c["cli_tcp_server_down"] = (f_cli_tcp_server_down, tcp_link, fwd)
    c["cli_server_stalls"] = (f_cli_server_stalls, tcp_link, fwd)
    c["cli_udp_garbage_from_server"] = (f_cli_udp_garbage_from_server, lambda cfg: cfg["native_udp"], "dualfwd")
    c["cli_udp_replay_reply"] = (f_cli_udp_replay_reply, lambda cfg: cfg["native_udp"], "dualfwd")
    c["cli_udp_target_port_closed"] = (f_cli_udp_target_port_closed, cu, None)
    c["cli_udp_bad_atyp"] = (mk_cli_udp_raw(lambda tgt: b"\x00\x00\x00\x09" + socket.inet_aton(T.LOOPBACK) + struct.pack(">H", tgt.port) + b"unknown address type",
                                            "a SOCKS5-UDP datagram with address type 9"), cu, None)
    c["cli_udp_rsv_nonzero"] = (mk_cli_udp_raw(lambda tgt: b"\x12\x34" + T.socks5_udp_datagram(tgt.addr, b"reserved bytes are not zero")[2:],
                                               "a SOCKS5-UDP datagram whose reserved bytes are 12 34 (whether it is relayed is recorded, not required)"), cu, None)
    c["cli_udp_domain_overrun"] = (mk_cli_udp_raw(lambda tgt: b"\x00\x00\x00\x03\xf0" + b"short.example" + struct.pack(">H", tgt.port),
                                                  "a SOCKS5-UDP datagram whose domain length (240) exceeds the datagram"), cu, None)
    return c


# small local-datagram faults that the quick tier runs as ONE scenario per configuration (each is in the catalogue on its own
# for the thorough tier and for sequences)
BUNDLE_UDP = ["cli_udp_bad_atyp", "cli_udp_rsv_nonzero", "cli_udp_domain_overrun", "cli_udp_target_port_closed"]


def _needs(entry, cfg):
    n = entry[2]
    return n(cfg) if callable(n) else n


def _dual_forwarder():
    """TCP and UDP forwarder on the SAME port number (the client uses one server port for both)."""
    for _ in range(20):
        t = T.TcpForwarder()
        try:
            u = T.UdpForwarder(port=t.port)
            return t, u
        except OSError:
            t.close()
    raise T.InfraError("no common free port for the tcp+udp forwarder")


# ------------------------------------------------------------------------------------------------
# scenario runner
# ------------------------------------------------------------------------------------------------

EXPECT = {"property": "one failing or hostile flow never takes the service down for others",
          "after_the_fault": {"client_and_server_alive": True, "no_panic_logged": True, "fresh_tcp_canary": True,
                              "fresh_udp_canary": "True where the configuration relays UDP"}}


def run_scenario(name, cfg, fault_names, seed, extra_spec=None):
    cat = catalogue()
    rng = random.Random("%s/%s" % (seed, name))
    needs = {_needs(cat[f], cfg) for f in fault_names if f in cat} - {None}
    tcpfwd = udpfwd = None
    closers = []
    spec = dict(cfg["spec"], seed=seed)
    if extra_spec:
        spec.update(extra_spec)
    try:
        if "dualfwd" in needs:
            tcpfwd, udpfwd = _dual_forwarder()
        elif "tcpfwd" in needs:
            tcpfwd = T.TcpForwarder()
        if tcpfwd is not None:
            spec["extra"] = {"client_server": {"port": tcpfwd.port}}
        try:
            dep = T.Deployment(spec)
        except T.DeploymentError as e:
            return T.deploy_failed([name], spec, e)
        with dep:
            if tcpfwd is not None:
                tcpfwd.set_upstream((T.LOOPBACK, dep.server_port))
            if udpfwd is not None:
                udpfwd.set_upstream((T.LOOPBACK, dep.server_port))
            observed = {"faults": [], "udp_checked": cfg["udp"], "via_forwarder": tcpfwd is not None}
            ok0, prob0, h0 = T.health(dep, udp=cfg["udp"], when="before the fault")
            observed["canary_before"] = h0["canary"]
            if not ok0:
                observed.update(T.tails(dep))
                return [T.result(name, spec, EXPECT, observed, False, "canary does not work BEFORE the fault: " + "; ".join(prob0))]
            ctx = Ctx(dep, cfg, rng, tcpfwd, udpfwd, closers)
            problems = []
            for fname in fault_names:
                try:
                    o = {"srv_fd_exhaustion": f_srv_fd_exhaustion, "cli_fd_exhaustion": f_cli_fd_exhaustion}[fname](ctx) if fname.endswith("_fd_exhaustion") else cat[fname][0](ctx)
                except OSError as e:
                    o = {"did": "fault injection hit a socket error", "socket_error": repr(e)}
                problems.extend(o.pop("problems", []) or [])
                observed["faults"].append(dict(o, fault=fname))
            time.sleep(SETTLE)
            ok1, prob1, h1 = T.health(dep, udp=cfg["udp"])
            observed.update(h1)
            observed["fd_count_after"] = {"client": dep.fd_count("client"), "server": dep.fd_count("server")}
            problems.extend(prob1)
            if problems:
                observed.update(T.tails(dep, 900))
            return [T.result(name, dict(spec, faults=list(fault_names)), EXPECT, observed, not problems, "; ".join(problems)[:1500])]
    finally:
        for f in [tcpfwd, udpfwd] + closers:
            if f is not None:
                f.close()


def suite_faults(tier, seed, only):
    cat = catalogue()
    jobs = []
    rng = random.Random(seed)
    for cfg in fault_configs(tier):
        applicable = [f for f, e in cat.items() if e[1](cfg)]
        single = [f for f in applicable if not (tier == "quick" and f in BUNDLE_UDP)]
        if tier == "quick" and cfg["transport"] == "quic":
            # the quic configuration of the quick tier: what differs over quic (the server's UDP port, the client's outbound set-up,
            # restarts, strangers) - the local faults are transport independent and run on the nine other configurations
            single = [f for f in single if f.startswith("srv_") or f in ("cli_stalled_silent", "cli_socks5_unresolvable", "cli_socks5_refused", "cli_udp_unresolvable",
                                                                          "cli_restart", "cli_app_resets_midflow", "cli_udp_len_3")]
        for f in single:
            name = "faults/%s/%s" % (cfg["name"], f)
            if T.wanted(name, only):
                jobs.append(lambda name=name, cfg=cfg, f=f: run_scenario(name, cfg, [f], seed))
        if tier == "quick" and cfg["udp"]:
            name = "faults/%s/cli_udp_malformed_bundle" % cfg["name"]
            if T.wanted(name, only):
                jobs.append(lambda name=name, cfg=cfg: run_scenario(name, cfg, list(BUNDLE_UDP), seed))
        if True:
            # sequences of faults: six per configuration in the thorough tier, two in the quick tier
            pool = [f for f in applicable if _needs(cat[f], cfg) is None and f not in ("srv_silent_3s", "srv_restart", "cli_restart")]
            for i in range(6 if tier == "thorough" else 2):
                seq = [rng.choice(pool) for _ in range(rng.randint(2, 6))]
                name = "faults/%s/sequence-%d" % (cfg["name"], i)
                if T.wanted(name, only):
                    jobs.append(lambda name=name, cfg=cfg, seq=seq: run_scenario(name, cfg, seq, seed))
        # descriptor exhaustion: every configuration in the thorough tier, one plain and one TLS configuration in the quick tier
        if tier == "thorough" or cfg["name"] in ("vmess.aes-128-gcm.tcp+udp", "trojan.-.tls+udp", "shadowsocks.2022-blake3-aes-128-gcm.tcp+udp", "shadowsocks.aes-128-gcm.tcp+udp"):
            if cfg["server_tcp"]:
                name = "faults/%s/srv_fd_exhaustion" % cfg["name"]
                if T.wanted(name, only):
                    jobs.append(lambda name=name, cfg=cfg: run_scenario(name, cfg, ["srv_fd_exhaustion"], seed, {"server_nofile": 40}))
            name = "faults/%s/cli_fd_exhaustion" % cfg["name"]
            if T.wanted(name, only):
                jobs.append(lambda name=name, cfg=cfg: run_scenario(name, cfg, ["cli_fd_exhaustion"], seed, {"client_nofile": 40}))
    rng.shuffle(jobs)
    return T.run_parallel(jobs, T.SETTINGS["workers"], on_done=T.report_line)
