"""suite `handshake`: local SOCKS5 and HTTP handshakes yield exactly the requested target however the
bytes are split.

scenario = handshake/<config>/<family>/<variant>   (own deployment, own ports, own target)
positive scenarios: exactly one connection at the requested target, proper reply to the app, then an echo
of 1000 bytes each way, nothing extra at the target.
malformed scenarios: no connection reaches the trap target, the app's connection is closed or answered with
an error, the canary still works.
"""
import random
import socket
import struct
import time

import t2lib as T

SOCKS5_OK_PREFIX = b"\x05\x00\x05\x00\x00\x01"
CONNECT_OK = b"HTTP/1.1 200 Connection established\r\n\r\n"


def hs_configs(tier):
    cfgs = [("vmess.aes-128-gcm.tcp", {"protocol": "vmess", "cipher": "aes-128-gcm", "transport": "tcp", "client_mode": "tcp"})]
    # the other two protocols: every scenario in the thorough tier, a handful (LITE) in the quick tier - what the handshake leaves
    # unread becomes the first message of a different codec
    cfgs.append(("shadowsocks.2022-blake3-aes-128-gcm.tcp", {"protocol": "shadowsocks", "cipher": "2022-blake3-aes-128-gcm", "transport": "tcp", "client_mode": "tcp"}))
    cfgs.append(("trojan.-.tls", {"protocol": "trojan", "cipher": None, "transport": "tls", "client_mode": "tcp"}))
    return cfgs


LITE = ("socks5_ipv4/coalesced", "socks5_domain/early_data_coalesced", "socks5_ipv4/early_data_with_request", "connect_short+payload/whole",
        "connect_3k+payload/split_before_last_byte", "plain_http/whole", "plain_http/head_3k/split@1024", "malformed/http_origin_form")


def _lite_skip(tier, cname, name):
    return tier == "quick" and not cname.startswith("vmess") and not any(name.endswith("/" + x) for x in LITE)


def ipv6_loopback_works():
    try:
        s = socket.socket(socket.AF_INET6, socket.SOCK_STREAM)
        s.bind(("::1", 0))
        s.listen(1)
        c = socket.socket(socket.AF_INET6, socket.SOCK_STREAM)
        c.settimeout(1.0)
        c.connect(s.getsockname()[:2])
        c.close()
        s.close()
        return True
    except OSError:
        return False


# ------------------------------------------------------------------------------------------------
# segmentations
# ------------------------------------------------------------------------------------------------

def seg_split(data, p, pause):
    return [data[:p], pause, data[p:]]


def seg_bytes(data, pause):
    out = []
    for i in range(len(data)):
        out.append(data[i:i + 1])
        out.append(pause)
    return out[:-1]


def describe_segments(segs):
    return [("%d bytes" % len(x)) if isinstance(x, (bytes, bytearray)) else ("pause %.3fs" % x) for x in segs][:12] + \
        (["... (%d items)" % len(segs)] if len(segs) > 12 else [])


def send_segments(s, segs):
    for x in segs:
        if isinstance(x, (int, float)):
            time.sleep(x)
        else:
            s.sendall(x)


# ------------------------------------------------------------------------------------------------
# positive scenarios
# ------------------------------------------------------------------------------------------------

def run_positive(name, spec, seed, build):
    """build(target) -> {"segments", "reply": "socks5"|"connect"|"none", "to_target_first": bytes, "describe": str}"""
    deadline = T.SETTINGS["deadline"]
    expect = {"property": "the local handshake yields exactly the requested target however the bytes are split",
              "target_connections": 1, "echo_1000_bytes_each_way": True, "nothing_extra_at_target": True}
    try:
        dep = T.Deployment(dict(spec, seed=seed))
    except T.DeploymentError as e:
        return T.deploy_failed([name], spec, e)
    with dep:
        host = spec.get("_target_host", T.LOOPBACK)
        try:
            tgt_cm = T.TcpTarget(host=host, port=spec.get("_target_port", 0))
        except OSError as e:
            cfg = {k: v for k, v in spec.items() if not k.startswith("_")}
            return [T.result(name, cfg, {"skipped": True}, {"skipped": "cannot listen on %s:%s in this sandbox: %r" % (host, spec.get("_target_port", 0), e)}, True, "skipped: target address not available")]
        with tgt_cm as tgt:
            plan = build(tgt)
            expect["reply"] = {"socks5": "05 00 | 05 00 00 01 <bound addr> (12 bytes)", "connect": CONNECT_OK.decode().strip(), "none": "(nothing)"}[plan["reply"]]
            expect["request"] = plan["describe"]
            problems = []
            obs = {"segments": describe_segments(plan["segments"]), "requested_target": "%s:%d" % (tgt.addr[0], tgt.addr[1])}
            app = None
            try:
                s = T._connect_local(dep.client_port, deadline)
                try:
                    send_segments(s, plan["segments"])
                except OSError as e:
                    problems.append("sending the handshake failed: %r" % (e,))
                if plan["reply"] == "socks5":
                    reply = T._recv_some(s, 12, deadline)
                    ok_reply = len(reply) == 12 and reply[:6] == SOCKS5_OK_PREFIX
                elif plan["reply"] == "connect":
                    reply = T._recv_some(s, len(CONNECT_OK), deadline)
                    ok_reply = reply == CONNECT_OK
                else:
                    reply, ok_reply = b"", True
                t_reply = time.monotonic()
                obs["reply"] = reply.hex() if plan["reply"] == "socks5" else reply.decode("latin-1")
                if plan.get("may_refuse"):
                    # a request the client may decline (e.g. a request line longer than it looks at): EITHER it is tunnelled exactly
                    # as requested (checked below) OR it is refused with an error status and nothing reaches the target
                    early = T._recv_some(s, 64, 0.7)
                    if early.startswith(b"HTTP/1.") and _is_error_reply(early):
                        time.sleep(0.2)
                        obs.update({"refused_with": early[:40].decode("latin-1"), "target_connections": tgt.count()})
                        if tgt.count():
                            problems.append("the request was refused (%r) and yet a connection reached the target" % (early[:30],))
                        s.close()
                        obs.update(T.process_state(dep))
                        cfg = {k: v for k, v in spec.items() if not k.startswith("_")}
                        return [T.result(name, dict(cfg, request=plan["describe"]), dict(expect, alternative="refused with an HTTP error status, no tunnel"), obs, not problems, "; ".join(problems))]
                    if early:
                        problems.append("unexpected bytes from the client before anything was sent by the target: %r" % (early[:40],))
                if not ok_reply:
                    problems.append("improper reply to the app: %r" % (reply[:60],))
                app = T.Conn(s, name="app-hs")
                first = plan["to_target_first"]
                x = T.seeded_bytes(seed, name + "/x", 1000)
                y = T.seeded_bytes(seed, name + "/y", 1000)
                try:
                    app.send(x, deadline)
                except (OSError, TimeoutError) as e:
                    problems.append("app could not send after the handshake: %r" % (e,))
                tconn = tgt.wait_conn(0, deadline)
                if tconn is None:
                    problems.append("the requested target got no connection")
                else:
                    tconn.wait_len(len(first) + len(x), deadline)
                    try:
                        tconn.send(y, deadline)
                    except (OSError, TimeoutError) as e:
                        problems.append("target could not answer: %r" % (e,))
                    app.wait_len(len(y), deadline)
                    time.sleep(0.2)   # anything extra gets a moment to show up
                    got_t, got_a = tconn.received(), app.received()
                    obs["target_received"] = T.summarize(got_t)
                    obs["app_received_after_reply"] = T.summarize(got_a)
                    if got_t != first + x:
                        d = T.first_diff(got_t, first + x)
                        problems.append("target received %d bytes, expected %d (%d from the handshake segment + 1000 echo bytes); first difference at offset %s"
                                        % (len(got_t), len(first) + len(x), len(first), d))
                    if got_a != y:
                        problems.append("app received %d bytes after the reply, expected exactly the target's 1000 (first difference at offset %s)"
                                        % (len(got_a), T.first_diff(got_a, y)))
                    if plan.get("payload_after_head") and tconn.chunks:
                        early = tconn.chunks[0][0] < t_reply - 0.05
                        obs["payload_at_target_before_reply_at_app"] = early
                        obs["reply_at_app_before_payload_at_target_s"] = round(tconn.chunks[0][0] - t_reply, 4)
                        if early:
                            problems.append("the tunnel payload reached the target before the 200 reply was written to the app")
                n = tgt.count()
                obs["target_connections"] = n
                if n != 1:
                    problems.append("target got %d connections (want exactly 1)" % n)
            except OSError as e:
                problems.append("local connect failed: %r" % (e,))
            finally:
                if app is not None:
                    app.close()
            obs.update(T.process_state(dep))
            for w in ("client", "server"):
                if not obs["alive"][w]:
                    problems.append("%s process died" % w)
                if obs["panicked"][w]:
                    problems.append("%s logged a panic" % w)
            if problems:
                obs.update(T.tails(dep, 700))
            cfg = {k: v for k, v in spec.items() if not k.startswith("_")}
            return [T.result(name, dict(cfg, request=plan["describe"]), expect, obs, not problems, "; ".join(problems)[:1500])]


def socks5_plans(addr_kind, seed, tier, label):
    """-> list of (variant_name, build)"""
    def data_for(tgt):
        if addr_kind == "ipv4":
            g, r = T.socks5_handshake_bytes(T.LOOPBACK, tgt.port, 1)
        elif addr_kind == "ipv6":
            g, r = T.socks5_handshake_bytes("::1", tgt.port, 4)
        else:
            g, r = T.socks5_handshake_bytes("localhost", tgt.port, 3)
        return g, r
    total = {"ipv4": 13, "ipv6": 25, "domain": 19}[addr_kind]

    early = T.seeded_bytes(seed, "socks5-early/%s" % label, 10)

    def mk(segfn, desc, first=b""):
        def build(tgt):
            g, r = data_for(tgt)
            return {"segments": segfn(g, r), "reply": "socks5", "to_target_first": first, "describe": "SOCKS5 CONNECT %s, %s" % (addr_kind, desc)}
        return build
    plans = [("two_segments", mk(lambda g, r: [g, 0.05, r], "greeting, 50 ms, request")),
             # an application that does not wait for the reply: what follows the request belongs to the tunnel
             ("early_data_coalesced", mk(lambda g, r: [g + r + early], "greeting, request and 10 bytes of tunnel payload in ONE segment", early)),
             ("early_data_with_request", mk(lambda g, r: [g, 0.05, r + early], "greeting, 50 ms, request and 10 bytes of tunnel payload in one segment", early)),
             ("coalesced", mk(lambda g, r: [g + r], "greeting and request in ONE segment")),
             ("byte_by_byte", mk(lambda g, r: seg_bytes(g + r, 0.005), "byte by byte, 5 ms apart"))]
    positions = list(range(1, total))
    if tier == "quick":
        positions = sorted(random.Random("%s/%s" % (seed, label)).sample(positions, 6))
    for p in positions:
        plans.append(("split@%d" % p, mk(lambda g, r, p=p: seg_split(g + r, p, 0.03), "split after byte %d of %d, 30 ms pause" % (p, total))))
    return plans


def connect_head(port, size):
    first = "CONNECT 127.0.0.1:%d HTTP/1.1\r\n" % port
    hdrs = "Host: 127.0.0.1:%d\r\n" % port
    if size == "short":
        hdrs += "User-Agent: t2\r\n"
        pad = 100 - len(first) - len(hdrs) - len("X-Pad: \r\n") - 2
        hdrs += "X-Pad: %s\r\n" % ("p" * max(1, pad))
    else:
        i = 0
        while len(first) + len(hdrs) < 3072 - 220:
            hdrs += "X-Pad-%02d: %s\r\n" % (i, "p" * 200)
            i += 1
    return (first + hdrs + "\r\n").encode(), len(first)


def connect_variants(head, l1, size):
    uri_at = head.index(b"127.0.0.1") + 5
    v = [("whole", lambda d: [d]),
         ("split_in_request_line", lambda d: seg_split(d, 4, 0.03)),
         ("split_in_uri", lambda d: seg_split(d, uri_at, 0.03)),
         ("split_in_headers", lambda d: seg_split(d, l1 + (len(head) - l1) // 2, 0.03)),
         ("split_before_crlfcrlf", lambda d: seg_split(d, len(head) - 4, 0.03)),
         ("split_before_last_byte", lambda d: seg_split(d, len(head) - 1, 0.03))]
    if size == "short":
        # the tunnel payload (if any) rides in the segment that carries the last byte of the head
        v.append(("byte_by_byte", lambda d: seg_bytes(d[:len(head) - 1], 0.002) + [0.002, d[len(head) - 1:]]))
    return v


def connect_plans(seed):
    plans = []
    # empty lines before the request line are skipped by the request parser (RFC 9112 2.2): they belong to the handshake
    for lead, lname in ((b"\r\n", "leading_crlf"), (b"\r\n\r\n", "leading_2crlf")):
        for vname, segf in (("whole", lambda d: [d]), ("split_after_empty_lines", lambda d, n=len(lead): seg_split(d, n, 0.03))):
            def build(tgt, lead=lead, segf=segf, lname=lname, vname=vname):
                head, _ = connect_head(tgt.port, "short")
                payload = T.seeded_bytes(seed, "connect-payload/%s/%s" % (lname, vname), 10)
                return {"segments": segf(lead + head + payload), "reply": "connect", "to_target_first": payload, "payload_after_head": True,
                        "describe": "HTTP CONNECT preceded by %d empty line(s), head of %d bytes, %s, 10 bytes of tunnel payload after the head" % (len(lead) // 2, len(head), vname)}
            plans.append(("connect_%s/%s" % (lname, vname), build))
    for size in ("short", "3k"):
        for with_payload in (False, True):
            probe_head, probe_l1 = connect_head(12345, size)
            for vname, _ in connect_variants(probe_head, probe_l1, size):
                def build(tgt, size=size, with_payload=with_payload, vname=vname):
                    head, l1 = connect_head(tgt.port, size)
                    payload = T.seeded_bytes(seed, "connect-payload/%s/%s" % (size, vname), 10) if with_payload else b""
                    segfn = dict(connect_variants(head, l1, size))[vname]
                    return {"segments": segfn(head + payload), "reply": "connect", "to_target_first": payload, "payload_after_head": with_payload,
                            "describe": "HTTP CONNECT, head of %d bytes, %s%s" % (len(head), vname,
                                                                                  ", 10 bytes of tunnel payload in the same segment as the end of the head" if with_payload else "")}
                plans.append(("connect_%s%s/%s" % (size, "+payload" if with_payload else "", vname), build))
    return plans


def plain_plans():
    def req(port):
        return ("GET http://127.0.0.1:%d/path?x=1?y=2 HTTP/1.1\r\nHost: 127.0.0.1\r\n\r\nbody" % port).encode()

    def mk(vname, segfn):
        def build(tgt):
            d = req(tgt.port)
            return {"segments": segfn(d), "reply": "none", "to_target_first": d,
                    "describe": "plain HTTP 'GET http://127.0.0.1:<port>/path?x=1?y=2 HTTP/1.1 ... body' (%d bytes), %s" % (len(d), vname)}
        return ("plain_http/%s" % vname, build)
    return [mk("whole", lambda d: [d]),
            mk("split_in_uri", lambda d: seg_split(d, d.index(b"127.0.0.1") + 5, 0.03)),
            mk("split_in_scheme", lambda d: seg_split(d, 6, 0.03)),
            mk("byte_by_byte", lambda d: seg_bytes(d, 0.002))]


# ------------------------------------------------------------------------------------------------
# dimension audit: more of the request grammar (default port, methods, IPv6 / named hosts, long heads and URIs), long pauses
# ------------------------------------------------------------------------------------------------

def audit_plans(seed):
    """-> list of (name, build, spec_extra)"""
    import os as _os
    plans = []

    def plain(vname, reqf, desc, segf=None, extra=None, may_refuse=False):
        def build(tgt):
            d = reqf(tgt)
            return {"segments": (segf or (lambda x: [x]))(d), "reply": "none", "to_target_first": d, "may_refuse": may_refuse,
                    "describe": "plain HTTP %s (%d bytes)" % (desc, len(d))}
        plans.append(("plain_http/%s" % vname, build, extra or {}))

    def own_ip():          # all of 127/8 is loopback: an address of our own for every scenario, so that port 80 is free on it
        r = _os.urandom(3)
        return "127.%d.%d.%d" % (1 + r[0] % 250, r[1], 1 + r[2] % 250)
    ip80, ip80b = own_ip(), own_ip()
    plain("default_port_80", lambda tgt: ("GET http://%s/index.html HTTP/1.1\r\nHost: %s\r\n\r\n" % (ip80, ip80)).encode(),
          "'GET http://<ip>/index.html' WITHOUT a port: the tunnel goes to port 80", extra={"_target_host": ip80, "_target_port": 80})
    plain("default_port_80_no_path", lambda tgt: ("GET http://%s HTTP/1.1\r\nHost: %s\r\n\r\n" % (ip80b, ip80b)).encode(),
          "'GET http://<ip>' without port and path", extra={"_target_host": ip80b, "_target_port": 80})
    plain("post_with_body", lambda tgt: ("POST http://127.0.0.1:%d/submit?a=b HTTP/1.1\r\nHost: 127.0.0.1:%d\r\nContent-Length: 300\r\n\r\n" % (tgt.port, tgt.port)).encode() + T.seeded_bytes(seed, "post-body", 300),
          "POST with a 300-byte body")
    plain("head_method", lambda tgt: ("HEAD http://127.0.0.1:%d/ HTTP/1.1\r\nHost: 127.0.0.1\r\n\r\n" % tgt.port).encode(), "HEAD request")
    plain("no_path", lambda tgt: ("GET http://127.0.0.1:%d HTTP/1.1\r\nHost: 127.0.0.1\r\n\r\n" % tgt.port).encode(), "'GET http://host:port' without a path")
    plain("query_without_path", lambda tgt: ("GET http://127.0.0.1:%d?x=1:2/3 HTTP/1.1\r\nHost: 127.0.0.1\r\n\r\n" % tgt.port).encode(), "'GET http://host:port?x=1:2/3' (query directly after the authority)")
    plain("named_host", lambda tgt: ("GET http://localhost:%d/named HTTP/1.1\r\nHost: localhost\r\n\r\n" % tgt.port).encode(), "'GET http://localhost:port/named'")

    def big_head(tgt):
        h = "GET http://127.0.0.1:%d/big HTTP/1.1\r\nHost: 127.0.0.1\r\n" % tgt.port
        i = 0
        while len(h) < 3000:
            h += "X-Pad-%02d: %s\r\n" % (i, "p" * 200)
            i += 1
        return (h + "\r\n").encode() + b"body-after-a-3k-head"
    plain("head_3k/whole", big_head, "request head of 3 KiB (more than the 1024 bytes the client looks at), one segment")
    plain("head_3k/split@1024", big_head, "request head of 3 KiB, split after byte 1024", segf=lambda d: seg_split(d, 1024, 0.03))
    plain("head_3k/split@1500", big_head, "request head of 3 KiB, split after byte 1500", segf=lambda d: seg_split(d, 1500, 0.03))
    plain("uri_1500", lambda tgt: ("GET http://127.0.0.1:%d/%s HTTP/1.1\r\nHost: 127.0.0.1\r\n\r\n" % (tgt.port, "u" * 1500)).encode(),
          "request line with a 1500-character path (well formed; the client may decline what it cannot look at: 414)", may_refuse=True)
    plain("ipv6_host", lambda tgt: ("GET http://[::1]:%d/v6 HTTP/1.1\r\nHost: [::1]:%d\r\n\r\n" % (tgt.port, tgt.port)).encode(),
          "'GET http://[::1]:port/v6' (bracketed IPv6 host)", extra={"_target_host": "::1", "_needs_v6": True})

    def connect(vname, hostf, desc, segf=None, extra=None):
        def build(tgt):
            hp = hostf(tgt)
            d = ("CONNECT %s HTTP/1.1\r\nHost: %s\r\n\r\n" % (hp, hp)).encode()
            return {"segments": (segf or (lambda x: [x]))(d), "reply": "connect", "to_target_first": b"", "describe": "HTTP CONNECT %s, %s" % (desc, vname)}
        plans.append(("connect_more/%s" % vname, build, extra or {}))
    connect("named_host", lambda tgt: "localhost:%d" % tgt.port, "to 'localhost:port'")
    connect("ipv6_host", lambda tgt: "[::1]:%d" % tgt.port, "to '[::1]:port'", extra={"_target_host": "::1", "_needs_v6": True})
    connect("ipv6_host_split_in_brackets", lambda tgt: "[::1]:%d" % tgt.port, "to '[::1]:port', split inside the brackets", segf=lambda d: seg_split(d, 10, 0.03),
            extra={"_target_host": "::1", "_needs_v6": True})
    connect("pause_1s_in_head", lambda tgt: "127.0.0.1:%d" % tgt.port, "with a pause of 1 s in the middle of the head", segf=lambda d: seg_split(d, len(d) // 2, 1.0))

    def s5(vname, segf, desc):
        def build(tgt):
            g, r = T.socks5_handshake_bytes(T.LOOPBACK, tgt.port, 1)
            return {"segments": segf(g, r), "reply": "socks5", "to_target_first": b"", "describe": "SOCKS5 CONNECT ipv4, %s" % desc}
        plans.append(("socks5_ipv4/%s" % vname, build, {}))
    s5("pause_1s_before_request", lambda g, r: [g, 1.0, r], "greeting, 1 s, request")
    s5("pause_1s_inside_request", lambda g, r: [g + r[:5], 1.0, r[5:]], "greeting and half of the request, 1 s, the rest")
    return plans


# ------------------------------------------------------------------------------------------------
# malformed / unsupported
# ------------------------------------------------------------------------------------------------

def malformed_cases():
    """-> list of (name, steps(tport) -> list of ("send", bytes) | ("recv", n, seconds), description)"""
    ip = socket.inet_aton(T.LOOPBACK)
    long_host = "a" * 300

    def P(port):
        return struct.pack(">H", port)
    return [
        ("socks4_connect", lambda tp: [("send", b"\x04\x01" + P(tp) + ip + b"\x00"), ("send_later", b"data-after-socks4")],
         "SOCKS4 CONNECT (0x04) to the trap target"),
        ("socks5_bind_v4", lambda tp: [("send", b"\x05\x01\x00"), ("recv", 2, 1.0), ("send", b"\x05\x02\x00\x01" + ip + P(tp)), ("send_later", b"data-after-bind")],
         "SOCKS5 BIND (CMD=2) naming the trap target"),
        ("socks5_domain_len0", lambda tp: [("send", b"\x05\x01\x00"), ("recv", 2, 1.0), ("send", b"\x05\x01\x00\x03\x00" + P(tp)), ("send_later", b"data-after-empty-domain")],
         "SOCKS5 CONNECT with a domain name of length 0"),
        ("http_origin_form", lambda tp: [("send", ("GET / HTTP/1.1\r\nHost: 127.0.0.1:%d\r\n\r\n" % tp).encode())],
         "'GET / HTTP/1.1' (origin form) with a Host header naming the trap target"),
        ("connect_host_without_port", lambda tp: [("send", b"CONNECT hostwithoutport HTTP/1.1\r\nHost: hostwithoutport\r\n\r\n")],
         "'CONNECT hostwithoutport HTTP/1.1'"),
        ("connect_port_65536", lambda tp: [("send", b"CONNECT 127.0.0.1:65536 HTTP/1.1\r\nHost: 127.0.0.1:65536\r\n\r\n")],
         "CONNECT with port 65536"),
        ("http_host_300_chars", lambda tp: [("send", ("GET http://%s:%d/ HTTP/1.1\r\nHost: %s\r\n\r\n" % (long_host, tp, long_host)).encode())],
         "plain HTTP request whose host has 300 characters"),
        ("connect_host_300_chars", lambda tp: [("send", ("CONNECT %s:%d HTTP/1.1\r\nHost: x\r\n\r\n" % (long_host, tp)).encode())],
         "CONNECT whose host has 300 characters"),
        # ---- dimension audit
        ("socks5_only_userpass_method", lambda tp: [("send", b"\x05\x01\x02"), ("recv", 2, 1.0), ("send_later", b"\x05\x01\x00\x01" + ip + P(tp))],
         "RECORDED ONLY: SOCKS5 greeting offering only username/password (02), then a CONNECT request all the same (RFC 1928 wants 05 FF; whether the client must refuse is not stated by the property)"),
        ("socks5_udp_associate", lambda tp: [("send", b"\x05\x01\x00"), ("recv", 2, 1.0), ("send", b"\x05\x03\x00\x01" + ip + P(tp)), ("send_later", b"data-after-udp-associate")],
         "SOCKS5 UDP ASSOCIATE (CMD=3) naming the trap target"),
        ("socks5_unknown_atyp", lambda tp: [("send", b"\x05\x01\x00"), ("recv", 2, 1.0), ("send", b"\x05\x01\x00\x09" + ip + P(tp)), ("send_later", b"data-after-unknown-atyp")],
         "SOCKS5 CONNECT with address type 9"),
        ("tls_client_hello", lambda tp: [("send", T.tls_client_hello())], "a TLS ClientHello sent to the local port"),
        ("http_head_never_ends", lambda tp: [("send", ("CONNECT 127.0.0.1:%d HTTP/1.1\r\n" % tp).encode() + b"X-Fill: " + b"f" * 9000)],
         "CONNECT head of 9 KiB that never ends (no empty line)"),
        ("http_garbage_line", lambda tp: [("send", b"\x00\x01\x02 this is not a request\r\n\r\n")], "bytes that are neither SOCKS5 nor HTTP"),
    ]


def _is_error_reply(reply):
    if reply.startswith(b"HTTP/1."):
        try:
            return int(reply.split(b" ", 2)[1]) >= 400
        except (ValueError, IndexError):
            return False
    if reply[:1] == b"\x05":
        if reply[:2] == b"\x05\xff":
            return True
        if len(reply) >= 4 and reply[:2] == b"\x05\x00" and reply[2:3] == b"\x05" and reply[3] != 0:
            return True
    if reply[:1] == b"\x00" and len(reply) >= 2 and reply[1] in (0x5b, 0x5c, 0x5d):   # SOCKS4 rejection
        return True
    return False


def run_malformed(name, spec, seed, steps_fn, desc):
    deadline = 3.0
    expect = {"request": desc, "connection_reaches_a_target": False, "app_connection": "closed, or answered with an error",
              "canary_afterwards": True, "processes_alive_no_panic": True}
    if desc.startswith("RECORDED ONLY"):
        expect = {"request": desc, "recorded": "what the client answers and whether a tunnel is opened", "canary_afterwards": True, "processes_alive_no_panic": True}
    try:
        dep = T.Deployment(dict(spec, seed=seed))
    except T.DeploymentError as e:
        return T.deploy_failed([name], spec, e)
    with dep:
        with T.TcpTarget() as trap:
            problems = []
            obs = {"trap_target": "%s:%d" % trap.addr}
            reply = b""
            s = T._connect_local(dep.client_port, deadline)
            state = None
            try:
                later = []
                for st in steps_fn(trap.port):
                    if st[0] == "send":
                        s.sendall(st[1])
                    elif st[0] == "recv":
                        reply += T._recv_some(s, st[1], st[2])
                    elif st[0] == "send_later":
                        later.append(st[1])
                # whatever the client answers within the deadline, and whether it closes
                s.settimeout(deadline)
                t_end = time.monotonic() + deadline
                sent_later = False
                while time.monotonic() < t_end:
                    s.settimeout(0.3 if (later and not sent_later) else max(0.05, t_end - time.monotonic()))
                    try:
                        b = s.recv(4096)
                    except socket.timeout:
                        if later and not sent_later:
                            sent_later = True
                            try:
                                for d in later:
                                    s.sendall(d)
                            except OSError:
                                state = "reset"
                                break
                            continue
                        break
                    except OSError:
                        state = "reset"
                        break
                    if not b:
                        state = "closed"
                        break
                    reply += b
                if state is None:
                    state = "open"
            except OSError as e:
                state = "reset (%s)" % (e.__class__.__name__,)
            finally:
                s.close()
            time.sleep(0.2)
            obs["reply_bytes"] = reply[:120].hex() if reply[:1] in (b"\x05", b"\x00", b"\x04") else reply[:200].decode("latin-1")
            obs["app_connection"] = state
            obs["reply_is_error"] = _is_error_reply(reply)
            obs["trap_target_connections"] = trap.count()
            recorded_only = desc.startswith("RECORDED ONLY")
            if trap.count():
                c = trap.wait_conn(0, 0)
                obs["trap_target_received"] = T.summarize(c.received()) if c else None
                if not recorded_only:
                    problems.append("a connection reached the trap target although the request is malformed/unsupported")
            if state == "open" and not obs["reply_is_error"] and not recorded_only:
                problems.append("the app's connection is neither closed nor answered with an error within %.0f s (reply so far: %r)" % (deadline, reply[:40]))
        ok, hp, h = T.health(dep, udp=False)
        obs.update(h)
        problems.extend(hp)
        if problems:
            obs.update(T.tails(dep, 700))
        return [T.result(name, dict(spec, request=desc), expect, obs, not problems, "; ".join(problems)[:1500])]


# ------------------------------------------------------------------------------------------------
# suite
# ------------------------------------------------------------------------------------------------

def suite_handshake(tier, seed, only):
    jobs = []
    results = []
    v6 = ipv6_loopback_works()
    for cname, spec in hs_configs(tier):
        base = "handshake/%s" % cname
        for kind in ("ipv4", "ipv6", "domain"):
            for vname, build in socks5_plans(kind, seed, tier, "%s/%s" % (cname, kind)):
                name = "%s/socks5_%s/%s" % (base, kind, vname)
                if not T.wanted(name, only) or _lite_skip(tier, cname, name):
                    continue
                if kind == "ipv6" and not v6:
                    results.append(T.result(name, spec, {"skipped": True}, {"skipped": "IPv6 loopback (::1) does not work in this sandbox"}, True, "skipped: no IPv6 loopback"))
                    continue
                sp = dict(spec, _target_host="::1") if kind == "ipv6" else spec
                jobs.append(lambda name=name, sp=sp, build=build: run_positive(name, sp, seed, build))
        for vname, build in connect_plans(seed) + plain_plans():
            name = "%s/%s" % (base, vname)
            if T.wanted(name, only) and not _lite_skip(tier, cname, name):
                jobs.append(lambda name=name, build=build, spec=spec: run_positive(name, spec, seed, build))
        for vname, build, extra in audit_plans(seed):
            name = "%s/%s" % (base, vname)
            if not T.wanted(name, only) or _lite_skip(tier, cname, name):
                continue
            if extra.get("_needs_v6") and not v6:
                results.append(T.result(name, spec, {"skipped": True}, {"skipped": "IPv6 loopback (::1) does not work in this sandbox"}, True, "skipped: no IPv6 loopback"))
                continue
            sp = dict(spec, **extra)
            jobs.append(lambda name=name, build=build, sp=sp: run_positive(name, sp, seed, build))
        for mname, steps_fn, desc in malformed_cases():
            name = "%s/malformed/%s" % (base, mname)
            if T.wanted(name, only) and not _lite_skip(tier, cname, name):
                jobs.append(lambda name=name, steps_fn=steps_fn, desc=desc, spec=spec: run_malformed(name, spec, seed, steps_fn, desc))
    for r in results:
        T.report_line(r)
    return results + T.run_parallel(jobs, T.SETTINGS["workers"], on_done=T.report_line)
