#!/usr/bin/env python3
"""T2 system-level test driver for octo-squirrel (real client + server binaries on loopback).

usage: python3 /verif/t2/run_t2.py <suite> [--tier quick|thorough] [--seed N] [--out FILE.json]
                                   [--only substring] [--workers N] [--deadline S] [--no-build]

Writes a JSON list of {"scenario", "config", "expect", "observed", "ok", "detail"}.
Exit status is 0 unless the driver itself crashed; the caller interprets the results.
Add a suite: write  def suite_x(tier, seed, only) -> list of results  and put it in SUITES.
"""
import argparse
import json
import os
import random
import sys
import time
import traceback

sys.path.insert(0, os.path.dirname(os.path.abspath(__file__)))
import t2lib as T  # noqa: E402
import aud_matrix  # noqa: E402
import aud_udp  # noqa: E402
import aud_listeners  # noqa: E402

WORKERS = 8
DEADLINE = T.DEFAULT_DEADLINE


def wanted(name, only):
    return T.wanted(name, only)


def tails(dep, n=500):
    l = dep.logs()
    return {"client_log_tail": l["client"][-n:], "server_log_tail": l["server"][-n:]}


def process_state(dep):
    return {"alive": {"client": dep.alive()[0], "server": dep.alive()[1]},
            "exit_codes": {"client": dep.exit_codes()[0], "server": dep.exit_codes()[1]},
            "panicked": dep.panicked()}


# ------------------------------------------------------------------------------------------------
# suite: matrix  (property: the TCP relay is byte transparent)
# ------------------------------------------------------------------------------------------------

def matrix_combos():
    out = []
    for c in T.SS_CIPHERS:
        for t in T.TRANSPORTS:
            out.append(("shadowsocks", c, t))
    for c in T.VMESS_CIPHERS:
        for t in T.TRANSPORTS:
            out.append(("vmess", c, t))
    for t in T.TRANSPORTS:
        out.append(("trojan", None, t))
    return out


def combo_name(p, c, t):
    return "%s/%s/%s" % (p, c or "-", t)


def matrix_scripts(tier, seed, label):
    """-> list of (script_name, steps, expect_app_eof, expect_target_eof, description)"""
    def sb(tag, n):
        return T.seeded_bytes(seed, "%s/%s" % (label, tag), n)

    mixed = [("app_send", sb("a1", 1)), ("target_send", sb("t1", 3)), ("app_send", sb("a2", 7)),
             ("target_send", sb("t2", 1)), ("drain",), ("app_send", sb("a3", 1500)), ("target_send", sb("t3", 2000)),
             ("app_send", sb("a4", 70000)), ("target_send", sb("t4", 65000)), ("drain",), ("target_close",)]
    scripts = [("mixed", mixed, True, False,
                "app writes 1,7,1500,70000 bytes interleaved with target writes 3,1,2000,65000; target closes last")]
    if tier == "thorough":
        scripts.append(("zero_len_writes",
                        [("app_send", b""), ("app_send", sb("z1", 5)), ("target_send", b""), ("target_send", sb("z2", 5)),
                         ("app_send", b""), ("drain",), ("target_close",)],
                        True, False, "0-byte writes around 5-byte writes; target closes last"))
        scripts.append(("one_mib_each_way",
                        [("app_send", sb("m1", 1 << 20)), ("drain",), ("target_send", sb("m2", 1 << 20)), ("drain",),
                         ("target_close",)],
                        True, False, "1 MiB app->target then 1 MiB target->app; target closes"))
        scripts.append(("app_closes_first",
                        [("app_send", sb("c1", 3000)), ("target_send", sb("c2", 3000)), ("drain",), ("app_close",)],
                        False, True, "after a 3000-byte exchange the app closes; the target must see EOF"))
        # a half-close is a close of that side (C15: closing one side tears the whole flow down): what the app wrote before its
        # FIN reaches the target, the target sees EOF, and the app's own connection is ended too
        scripts.append(("app_half_close",
                        [("app_send", sb("h1", 3000)), ("target_send", sb("h2", 3000)), ("drain",), ("app_send", sb("h3", 40000)),
                         ("app_shutdown_wr",), ("pause", 0.3)],
                        True, True, "after an exchange the app writes 40000 bytes and half-closes (FIN); the target must receive all of it and see EOF, and the app sees EOF"))
        scripts.append(("target_speaks_first",
                        [("target_send", sb("g1", 40)), ("drain",), ("app_send", sb("g2", 40)), ("drain",), ("target_close",)],
                        True, False, "app stays silent after the handshake; the target's greeting must arrive first"))
    return scripts


def one_flow_result(name, spec, dep, kind, sname, steps, exp_app_eof, exp_tgt_eof, desc, deadline):
    with T.TcpTarget() as tgt:
        obs = T.run_tcp_flow(dep, tgt, kind, steps, deadline=deadline)
    ok, detail = T.check_transparent(obs, expect_app_eof=exp_app_eof, expect_target_eof=exp_tgt_eof)
    observed = T.flow_observation(obs)
    observed.update(process_state(dep))
    if not ok:
        observed.update(tails(dep))
    expect = {"property": "TCP relay byte-transparent", "script": desc, "target_connections": 1,
              "target_received": "== app_sent", "app_received": "== target_sent",
              "app_eof_after_target_close": exp_app_eof, "target_eof_after_app_close": exp_tgt_eof}
    cfg = dict(spec, handshake=kind, script=sname)
    return T.result(name, cfg, expect, observed, ok, detail)


def concurrent_result(name, spec, dep, kind, seed, label, deadline, n=8):
    import threading
    obs_list = [None] * n

    def one(i):
        a = T.seeded_bytes(seed, "%s/conc-a%d" % (label, i), 20000 + 1111 * i)
        b = T.seeded_bytes(seed, "%s/conc-t%d" % (label, i), 15000 + 777 * i)
        steps = [("app_send", a[:10]), ("target_send", b[:10]), ("app_send", a[10:]), ("target_send", b[10:]),
                 ("drain",), ("target_close",)]
        try:
            with T.TcpTarget() as tgt:
                obs_list[i] = T.run_tcp_flow(dep, tgt, kind, steps, deadline=deadline)
        except Exception as e:
            obs_list[i] = {"driver_exception": repr(e)}
    ths = [threading.Thread(target=one, args=(i,), daemon=True) for i in range(n)]
    for t in ths:
        t.start()
    for t in ths:
        t.join(deadline * 6 + 30)
    flows, bad = [], []
    for i, o in enumerate(obs_list):
        if not o or "driver_exception" in o:
            flows.append({"flow": i, "ok": False, "detail": "driver: %r" % (o,)})
            bad.append("flow%d: driver problem" % i)
            continue
        ok, detail = T.check_transparent(o)
        flows.append({"flow": i, "ok": ok, "detail": detail, "app_sent": T.summarize(o["app_sent"]),
                      "target_received": T.summarize(o["target_received"]), "target_sent": T.summarize(o["target_sent"]),
                      "app_received": T.summarize(o["app_received"]), "app_end": o["app_end"], "errors": o["errors"]})
        if not ok:
            bad.append("flow%d: %s" % (i, detail))
    observed = {"flows": flows}
    observed.update(process_state(dep))
    if bad:
        observed.update(tails(dep))
    expect = {"property": "TCP relay byte-transparent", "script": "%d concurrent flows with distinct data, each to its own target" % n,
              "each_flow": "transparent, app EOF after target close"}
    return T.result(name, dict(spec, handshake=kind, script="concurrent%d" % n), expect, observed, not bad, "; ".join(bad)[:1500])


def suite_matrix(tier, seed, only):
    jobs = []
    rng = random.Random(seed)
    for (p, c, t) in matrix_combos():
        cname = combo_name(p, c, t)
        spec = {"protocol": p, "cipher": c, "transport": t, "client_mode": "tcp", "seed": seed}
        if tier == "quick":
            names = ["matrix/%s/%s/mixed" % (cname, k) for k in T.HANDSHAKE_KINDS] + \
                    ["matrix/%s/socks5_ipv4/%s" % (cname, sn) for sn in ("target_speaks_first", "zero_len_writes", "app_closes_first", "app_half_close")]
            if not any(wanted(n, only) for n in names):
                continue
            jobs.append(lambda spec=spec, cname=cname: matrix_job_quick(spec, cname, seed, only))
        else:
            for k in T.HANDSHAKE_KINDS:
                snames = [s[0] for s in matrix_scripts(tier, seed, "x")] + ["concurrent8"]
                for sn in snames:
                    n = "matrix/%s/%s/%s" % (cname, k, sn)
                    if wanted(n, only):
                        jobs.append(lambda spec=spec, cname=cname, k=k, sn=sn, n=n: matrix_job_single(spec, cname, k, sn, n, seed))
    # dimension audit: traffic shapes, sizes, simultaneous bulk, pauses, concurrency, several users / client processes
    def mixed_script(label):
        sc = matrix_scripts("quick", seed, label)[0]
        return sc[1], sc[4]
    jobs.extend(aud_matrix.jobs(matrix_combos(), tier, seed, only, DEADLINE, mixed_script))
    rng.shuffle(jobs)  # spread slow (failing) combinations over the pool
    return T.run_parallel(jobs, WORKERS, on_done=T.report_line)


def _deploy_failed(names, spec, e):
    why = getattr(e, "ready_detail", None) or str(e)
    observed = {"deployment_error": why, "log_tails": getattr(e, "log_tails", None) or str(e)[-1500:]}
    return [T.result(n, spec, {"deployment": "starts and listens as documented"}, observed, False,
                     "deployment did not come up: %s" % (why[:400],)) for n in names]


def matrix_job_quick(spec, cname, seed, only):
    res = []
    kinds = [k for k in T.HANDSHAKE_KINDS if wanted("matrix/%s/%s/mixed" % (cname, k), only)]
    dep = None
    try:
        for k in kinds:
            name = "matrix/%s/%s/mixed" % (cname, k)
            restarted = False
            if dep is not None and not all(dep.alive()):
                dep.stop()
                dep = None
                restarted = True
            if dep is None:
                try:
                    dep = T.Deployment(spec)
                except T.DeploymentError as e:
                    res.extend(_deploy_failed([name], spec, e))
                    continue
            (sname, steps, ea, et, desc) = matrix_scripts("quick", seed, "%s/%s" % (cname, k))[0]
            r = one_flow_result(name, spec, dep, k, sname, steps, ea, et, desc, DEADLINE)
            if restarted:
                r["observed"]["note"] = "fresh deployment: a process of the shared deployment had died in the previous scenario"
            res.append(r)
        # two more endings per combination in the same deployment: the target speaks first (a silent application after the
        # handshake), and one of the other scripts of the thorough tier in rotation
        extra = {s[0]: s for s in matrix_scripts("thorough", seed, "%s/extra" % cname)}
        rot = ["zero_len_writes", "app_closes_first", "app_half_close"][sum(cname.encode()) % 3]
        for sn in ("target_speaks_first", rot):
            name = "matrix/%s/socks5_ipv4/%s" % (cname, sn)
            if not wanted(name, only):
                continue
            if dep is not None and not all(dep.alive()):
                dep.stop()
                dep = None
            if dep is None:
                try:
                    dep = T.Deployment(spec)
                except T.DeploymentError as e:
                    res.extend(_deploy_failed([name], spec, e))
                    continue
            (sname, steps, ea, et, desc) = extra[sn]
            res.append(one_flow_result(name, spec, dep, "socks5_ipv4", sname, steps, ea, et, desc, DEADLINE))
    finally:
        if dep is not None:
            dep.stop()
    return res


def matrix_job_single(spec, cname, kind, sname, name, seed):
    try:
        with T.Deployment(spec) as dep:
            if sname == "concurrent8":
                return [concurrent_result(name, spec, dep, kind, seed, "%s/%s" % (cname, kind), DEADLINE)]
            for (sn, steps, ea, et, desc) in matrix_scripts("thorough", seed, "%s/%s" % (cname, kind)):
                if sn == sname:
                    return [one_flow_result(name, spec, dep, kind, sn, steps, ea, et, desc, DEADLINE)]
            raise T.T2Error("no such script " + sname)
    except T.DeploymentError as e:
        return _deploy_failed([name], spec, e)


# ------------------------------------------------------------------------------------------------
# suite: udp  (property: the UDP relay preserves each datagram, its addresses and its owner)
# ------------------------------------------------------------------------------------------------

def udp_combos():
    out = []
    for c in T.SS_CIPHERS:
        out.append(("shadowsocks", c, "tcp", None))
    for c in ("2022-blake3-aes-128-gcm", "2022-blake3-aes-256-gcm"):
        out.append(("shadowsocks", c, "tcp", ["u1", "u2"]))
    for c in T.VMESS_CIPHERS:
        for t in T.TRANSPORTS:
            out.append(("vmess", c, t, None))
    for t in ("tls", "wss", "quic"):
        out.append(("trojan", None, t, None))
    return out


def udp_payload(seed, cname, ai, ti, size):
    if size == 0:
        return b""
    if size == 1:
        return bytes([1 + ai * 16 + ti])
    head = ("A%dT%dS%d#" % (ai, ti, size)).encode()
    body = T.seeded_bytes(seed, "%s/udp/%d/%d/%d" % (cname, ai, ti, size), max(0, size - len(head)))
    return (head + body)[:size]


def udp_rounds(rng, napps, ntargets, sizes):
    """Every app sends every size to every target once; a round = one datagram per app, the apps
    addressing different targets where possible; rounds in seeded random order."""
    rounds = []
    for s in sizes:
        for shift in range(ntargets):
            rounds.append([(ai, (ai + shift) % ntargets, s) for ai in range(napps)])
    rng.shuffle(rounds)
    for r in rounds:
        rng.shuffle(r)
    return rounds


def suite_udp(tier, seed, only):
    jobs = []
    rng = random.Random(seed)
    for (p, c, t, users) in udp_combos():
        cname = "udp/%s/%s/%s" % (p, c or "-", ("native-udp" if p == "shadowsocks" else t) + ("+users" if users else ""))
        sizes = [0, 1, 100, 1400] + ([2000, 8000, 60000] if tier == "thorough" else [8000, 60000])
        names = ["%s/size=%d" % (cname, s) for s in sizes] + [cname + "/isolation"] + ([cname + "/wire-uniqueness"] if p == "shadowsocks" else [])
        sub = rng.randrange(1 << 30)
        if any(wanted(n, only) for n in names):
            jobs.append(lambda p=p, c=c, t=t, users=users, cname=cname, sub=sub: udp_job(p, c, t, users, cname, tier, seed, sub))
        # dimension audit: sizes at the limit of the path, more applications than the binding table holds, bursts, several and late
        # replies, third parties, IPv6 and unresolvable targets, two client processes, a disturbing hop
        if any(wanted(n, only) for n in aud_udp.names_for(cname, p == "shadowsocks", tier)):
            jobs.append(lambda p=p, c=c, t=t, users=users, cname=cname: aud_udp.aud_job(p, c, t, users, cname, tier, seed, DEADLINE, only))
    # the audit jobs spend most of their time waiting (late answers, datagrams that must NOT arrive): twice the workers
    return [r for r in T.run_parallel(jobs, WORKERS * 2, on_done=lambda r: wanted(r["scenario"], only) and T.report_line(r))
            if wanted(r["scenario"], only)]


def udp_job(p, c, t, users, cname, tier, seed, sub):
    rng = random.Random(sub)
    spec = {"protocol": p, "cipher": c, "transport": t, "client_mode": "tcp_and_udp", "seed": seed}
    if p == "shadowsocks":
        spec["server_mode"] = "tcp_and_udp"
    if users:
        spec["users"] = users
    small = [0, 1, 100, 1400]
    big = [2000, 8000, 60000] if tier == "thorough" else [8000, 60000]   # datagrams above one MTU are part of the quick tier as well
    napps, ntargets = 3, rng.choice([2, 3])
    names = ["%s/size=%d" % (cname, s) for s in small + big] + [cname + "/isolation"]
    # native Shadowsocks datagrams travel through a recording UDP hop, so that the wire itself can be looked at
    wire = None
    if p == "shadowsocks":
        wire = T.UdpForwarder()
        spec["extra"] = {"client_server": {"port": wire.port}}
        names.append(cname + "/wire-uniqueness")
    try:
        dep = T.Deployment(spec)
    except T.DeploymentError as e:
        if wire is not None:
            wire.close()
        return _deploy_failed(names, spec, e)
    if wire is not None:
        wire.set_upstream((T.LOOPBACK, dep.server_port))
    res = []
    # the first application names its targets (ATYP 3, "localhost"), the others use IPv4 literals
    apps = [T.UdpApp("a%d" % i, by_name=(i == 0)) for i in range(napps)]
    targets = [T.UdpTarget(echo=True) for _ in range(ntargets)]
    try:
        phases = []
        rounds = [[(ai, ti, udp_payload(seed, cname, ai, ti, s)) for (ai, ti, s) in r] for r in udp_rounds(rng, napps, ntargets, small)]
        obs = T.run_udp_plan(dep, apps, targets, rounds, round_timeout=1.0, final_wait=2.0)
        phases.append(("interleaved sizes %s" % small, process_state(dep)))
        for s in big:  # ascending, one size after the other, so that a size that breaks the service is identifiable
            rounds = [[(ai, ti, udp_payload(seed, cname, ai, ti, s)) for (ai, ti, s2) in r] for r in udp_rounds(rng, napps, ntargets, [s])]
            o2 = T.run_udp_plan(dep, apps, targets, rounds, round_timeout=1.0, final_wait=2.0)
            obs["sent"].extend(o2["sent"])
            obs["send_errors"].extend(o2["send_errors"])
            for k in ("target_received", "target_sources", "app_received"):
                obs[k] = o2[k]  # recorders are cumulative
            obs["seconds"] += o2["seconds"]
            phases.append(("size %d" % s, process_state(dep)))
        state = process_state(dep)
        common = {"apps": napps, "targets": ntargets, "seconds": round(obs["seconds"], 2),
                  "server_udp_source_ports_seen_by_targets": sorted({s[1] for l in obs["target_sources"] for s in l})[:12]}
        for s in small + big:
            ok, detail, stats = T.check_udp(obs, select=lambda n, s=s: n == s)
            o = dict(common, stats=stats, **state)
            if not ok:
                o.update(tails(dep))
            res.append(T.result("%s/size=%d" % (cname, s), dict(spec, size=s),
                                {"property": "UDP relay preserves each datagram, addresses, owner",
                                 "datagrams_of_this_size": napps * ntargets, "delivered_to_addressed_target": "exactly once, identical payload",
                                 "echo_reply": "exactly once at the sending application, identical payload, labelled with the target's address"},
                                o, ok, detail))
        ok, detail, stats = T.check_udp(obs, select=None, categories={"dup", "stray", "foreign", "mislabelled", "malformed"})
        iso_keys = ("dup_at_target", "dup_at_app", "mislabelled", "foreign_at_app", "stray_at_target", "stray_at_app", "malformed_at_app")
        iso_bad = {k: stats[k] for k in iso_keys if stats[k]}
        dead = [w for w, a in state["alive"].items() if not a]
        panics = [w for w, a in state["panicked"].items() if a]
        iso_ok = not iso_bad and not dead and not panics
        det = []
        if iso_bad:
            det.append("isolation violations %s: %s" % (iso_bad, detail))
        if dead:
            det.append("process died: %s" % dead)
        if panics:
            det.append("panic logged by: %s" % panics)
        o = dict(common, stats=stats, phases=[{"phase": n, "state": st} for n, st in phases], send_errors=obs["send_errors"], **state)
        if not iso_ok:
            o.update(tails(dep, 900))
        res.append(T.result(cname + "/isolation", spec,
                            {"nothing_arrives_at_a_different_application": True, "no_duplicates_no_strays_no_mislabelled_replies": True,
                             "processes_stay_alive_without_panic": True}, o, iso_ok, "; ".join(det)[:1500]))
        if wire is not None:
            # every datagram starts with the part that fixes its nonce: the salt (legacy), the 24-byte nonce (2022 chacha) or
            # AES(session id || packet id) (2022 aes).  Two datagrams of one deployment that begin with the same 16 bytes were
            # sealed under the same key and nonce - whatever session, association or direction they belong to
            def dups(pkts):
                seen, bad = {}, []
                for i, (b, _peer, _t) in enumerate(pkts):
                    k = bytes(b[:16])
                    if len(k) == 16 and k in seen and bytes(pkts[seen[k]][0]) != bytes(b):
                        bad.append((seen[k], i))
                    seen.setdefault(k, i)
                return bad
            c2s, s2c = list(wire.captured), list(wire.replies)
            bad_c, bad_s = dups(c2s), dups(s2c)
            okw = not bad_c and not bad_s and len(s2c) > 0
            det = []
            if bad_c:
                det.append("%d pairs of client->server datagrams begin with the same 16 bytes (same key and nonce), e.g. #%d and #%d" % (len(bad_c), bad_c[0][0], bad_c[0][1]))
            if bad_s:
                det.append("%d pairs of server->client datagrams begin with the same 16 bytes (same key and nonce), e.g. #%d and #%d" % (len(bad_s), bad_s[0][0], bad_s[0][1]))
            if not s2c:
                det.append("no server->client datagram was seen on the wire")
            res.append(T.result(cname + "/wire-uniqueness", spec,
                                {"property": "no two ciphertexts under one key share a nonce", "nonce_fixing_prefix_of_every_datagram": "pairwise distinct, both directions, across all sessions and associations of the deployment"},
                                {"client_to_server_datagrams": len(c2s), "server_to_client_datagrams": len(s2c), "client_sources": len({x[1] for x in c2s}),
                                 "example_collisions": [[s2c[i][0][:24].hex(), s2c[j][0][:24].hex()] for i, j in bad_s[:2]] + [[c2s[i][0][:24].hex(), c2s[j][0][:24].hex()] for i, j in bad_c[:2]]},
                                okw, "; ".join(det)))
    finally:
        for a in apps:
            a.close()
        for tg in targets:
            tg.close()
        dep.stop()
        if wire is not None:
            wire.close()
    return res


# ------------------------------------------------------------------------------------------------
# suite: listeners  (property: configuration names select the documented behaviour)
# ------------------------------------------------------------------------------------------------

LCIPHER = "2022-blake3-aes-128-gcm"


def _own(listening, port):
    return {"tcp": port in listening["tcp"], "udp": port in listening["udp"]}


def listeners_server_mode(mode, seed):
    """server mode -> which sockets; plus a functional probe per documented path."""
    name = "listeners/server-mode/%s" % mode
    want = {"tcp": {"tcp": True, "udp": False}, "udp": {"tcp": False, "udp": True}, "tcp_and_udp": {"tcp": True, "udp": True},
            "quic": {"tcp": False, "udp": True}, "tcp_and_quic": {"tcp": True, "udp": True}}[mode]
    needs_quic = mode in ("quic", "tcp_and_quic")
    spec = {"protocol": "shadowsocks", "cipher": LCIPHER, "transport": "quic" if needs_quic else "tcp",
            "server_mode": mode, "client_mode": "tcp_and_udp" if mode in ("udp", "tcp_and_udp") else "tcp", "seed": seed}
    observed = {}
    problems = []
    with T.Deployment(spec, strict=False) as dep:
        time.sleep(0.3)
        l = dep.listening("server")
        observed["server_listening_all"] = l
        observed["server_port"] = dep.server_port
        own = _own(l, dep.server_port)
        observed["server_listens_on_configured_port"] = own
        if own != want:
            problems.append("server mode %s: listens %s on its port, documented %s" % (mode, own, want))
        probes = {}
        if mode in ("tcp", "tcp_and_udp"):
            probes["tcp_relay"] = T.probe_tcp(dep)["relayed"]
        if mode in ("udp", "tcp_and_udp"):
            probes["udp_relay"] = T.probe_udp(dep)["relayed"]
        if needs_quic:
            probes["quic_relay"] = T.probe_tcp(dep)["relayed"]
        observed.update(process_state(dep))
        observed["ready_detail"] = dep.ready_detail
        if problems:
            observed.update(tails(dep))
    if mode == "tcp_and_quic":
        # second client, configured WITHOUT a quic section, i.e. plain tcp towards the same kind of server
        spec2 = dict(spec, extra={"client_server": {"quic": None}})
        with T.Deployment(spec2, strict=False) as dep2:
            probes["tcp_relay"] = T.probe_tcp(dep2)["relayed"]
            if not probes["tcp_relay"]:
                observed["tcp_client_log_tail"] = dep2.log_tail("client", 400)
    observed["probes"] = probes
    for k, v in probes.items():
        if not v:
            problems.append("%s does not work in server mode %s" % (k, mode))
    return T.result(name, spec, {"server_listens_on_configured_port": want, "probes": {k: True for k in probes}},
                    observed, not problems, "; ".join(problems))


def listeners_client_mode(mode, seed):
    name = "listeners/client-mode/%s" % mode
    want = {"tcp": {"tcp": True, "udp": False}, "udp": {"tcp": False, "udp": True}, "tcp_and_udp": {"tcp": True, "udp": True}}[mode]
    spec = {"protocol": "shadowsocks", "cipher": LCIPHER, "transport": "tcp", "server_mode": "tcp_and_udp", "client_mode": mode, "seed": seed}
    observed, problems, probes = {}, [], {}
    with T.Deployment(spec, strict=False) as dep:
        time.sleep(0.5)
        l = dep.listening("client")
        own = _own(l, dep.client_port)
        observed["client_listening_all"] = l
        observed["client_port"] = dep.client_port
        observed["client_listens_on_configured_port"] = own
        if own != want:
            problems.append("client mode %s: listens %s on its port, documented %s" % (mode, own, want))
        if want["tcp"]:
            probes["tcp_relay"] = T.probe_tcp(dep)["relayed"]
        if want["udp"]:
            probes["udp_relay"] = T.probe_udp(dep)["relayed"]
        observed.update(process_state(dep))
        if not dep.alive()[0]:
            problems.append("client process exited with code %s" % (dep.exit_codes()[0],))
        observed["ready_detail"] = dep.ready_detail
        observed["probes"] = probes
        for k, v in probes.items():
            if not v:
                problems.append("%s does not work in client mode %s" % (k, mode))
        if problems:
            observed.update(tails(dep))
    return T.result(name, spec, {"client_listens_on_configured_port": want, "client_stays_alive": True,
                                 "probes": {k: True for k in probes}}, observed, not problems, "; ".join(problems))


def _b64(n, fill):
    import base64
    return base64.b64encode(bytes([fill]) * n).decode()


def bad_config_cases(seed):
    """-> list of (case_name, base_spec, extra_overrides, which side(s) carry the bad value)"""
    ss = {"protocol": "shadowsocks", "cipher": LCIPHER, "transport": "tcp", "client_mode": "tcp", "seed": seed}
    ss256 = dict(ss, cipher="2022-blake3-aes-256-gcm")
    k16, k32 = _b64(16, 0x41), _b64(32, 0x42)
    cases = []
    for side in ("server", "client"):
        key = "server" if side == "server" else "client_server"
        cases.append(("unknown-cipher/%s" % side, ss, {key: {"cipher": "aes-999-gcm"}}, [side]))
        cases.append(("missing-cipher/%s" % side, ss, {key: {"cipher": None}}, [side]))
        cases.append(("unknown-protocol/%s" % side, ss, {key: {"protocol": "socks9"}}, [side]))
        cases.append(("malformed-base64-key/%s" % side, ss, {key: {"password": "!!!not*base64!!!"}}, [side]))
        cases.append(("key-16-bytes-for-aes-256/%s" % side, ss256, {key: {"password": k16}}, [side]))
        cases.append(("key-32-bytes-for-aes-128/%s" % side, ss, {key: {"password": k32}}, [side]))
    cases.append(("unknown-mode/server", ss, {"server": {"mode": "sctp"}}, ["server"]))
    cases.append(("unknown-mode/client", ss, {"client": {"mode": "sctp"}}, ["client"]))
    cases.append(("key-16-bytes-for-aes-256/both", ss256, {"server": {"password": k16}, "client_server": {"password": k16}}, ["server", "client"]))
    cases.append(("key-32-bytes-for-aes-128/both", ss, {"server": {"password": k32}, "client_server": {"password": k32}}, ["server", "client"]))
    cases.append(("malformed-base64-key/both", ss, {"server": {"password": "!!!not*base64!!!"}, "client_server": {"password": "!!!not*base64!!!"}},
                  ["server", "client"]))
    # ---- dimension audit: inconsistent values
    cases.append(("client-index-out-of-range/client", ss, {"client": {"index": 5}}, ["client"]))
    vm = {"protocol": "vmess", "cipher": "aes-128-gcm", "transport": "tcp", "client_mode": "tcp", "seed": seed}
    cases.append(("vmess-user-password-not-a-uuid/server", vm, {"server": {"user": [{"name": "u1", "password": "this-is-not-a-uuid"}]}}, ["server"]))
    cases.append(("vmess-password-not-a-uuid/client", vm, {"client_server": {"password": "this-is-not-a-uuid"}}, ["client"]))
    cases.append(("vmess-cipher-vmess-does-not-offer/client", vm, {"client_server": {"cipher": "aes-256-gcm"}}, ["client"]))
    cases.append(("server-mode-quic-without-quic-section/server", ss, {"server": {"mode": "quic"}}, ["server"]))
    cases.append(("server-mode-tcp_and_quic-without-quic-section/server", ss, {"server": {"mode": "tcp_and_quic"}}, ["server"]))
    cases.append(("server-only-mode-quic/client", ss, {"client": {"mode": "quic"}}, ["client"]))
    cases.append(("server-only-mode-tcp_and_quic/client", ss, {"client": {"mode": "tcp_and_quic"}}, ["client"]))
    ssu = dict(ss256, users=["u1", "u2"])
    cases.append(("user-key-16-bytes-for-aes-256/server", ssu, {"server": {"user": [{"name": "u1", "password": k16}, {"name": "u2", "password": k32}]}}, ["server"]))
    cases.append(("empty-key/server", ss, {"server": {"password": ""}}, ["server"]))
    return cases


# cases whose present behaviour is a reported, still open defect of /repo (t2lib.OPEN_DEFECTS)
BAD_CONFIG_DEFECT = {"client-index-out-of-range/client": "F-aud-5", "vmess-user-password-not-a-uuid/server": "F-aud-6",
                     "vmess-password-not-a-uuid/client": "F-aud-7"}


def error_logged(text):
    """An ERROR-level log line or main() returning Err ('Error: ...' on stderr).  A panic is NOT a clean refusal (C16: "stop
    startup with an error rather than a panic")."""
    for line in text.splitlines():
        if " ERROR " in line or line.startswith("Error:"):
            return True
    return False


def listeners_bad_config(case, base, extra, sides, seed):
    name = "listeners/bad-config/%s" % case
    spec = dict(base, extra=extra)
    observed, problems = {}, []
    with T.Deployment(spec, strict=False) as dep:
        codes = {}
        for w in sides:
            codes[w] = dep.wait_exit(w, 3.0)
        observed["exit_code_within_3s"] = {w: codes[w] for w in sides}
        observed["listening"] = {w: _own(dep.listening(w), dep._port(w)) for w in ("client", "server")}
        logs = dep.logs()
        observed["error_logged"] = {w: error_logged(logs[w]) for w in sides}
        probe = T.probe_tcp(dep, deadline=2.0) if dep.alive()[0] else {"relayed": False, "handshake_ok": False, "errors": ["client not running"]}
        observed["probe_flow"] = {"relayed": probe["relayed"], "local_handshake_ok": probe.get("handshake_ok"),
                                  "dialled": probe.get("dialled"), "errors": probe.get("errors")}
        observed.update(process_state(dep))
        observed["log_tail"] = {w: logs[w][-500:] for w in sides}
        tag = BAD_CONFIG_DEFECT.get(case)

        def problem(text):
            problems.append((tag, text) if tag else text)
        for w in sides:
            rejected = codes[w] is not None or observed["error_logged"][w]
            if observed["panicked"][w]:
                problem("%s PANICS on the bad value instead of stopping with an error" % w)
            elif not rejected:
                problem("%s accepted the bad value silently (still running, no error logged)" % w)
            li = observed["listening"][w]
            if codes[w] is None and (li["tcp"] or li["udp"]):
                problem("%s keeps listening (%s) with the bad value" % (w, li))
        if probe["relayed"]:
            problem("a flow is relayed end to end although the configuration is invalid")
        problems = T.settle(problems, observed)
    return T.result(name, spec, {"bad_side": sides, "process": "exits or logs an error (a panic is not an error message)", "listens": False, "relays": False},
                    observed, not problems, "; ".join(problems))


def listeners_legacy_udp(seed):
    name = "listeners/legacy-cipher-ordinary-password/udp-relay"
    spec = {"protocol": "shadowsocks", "cipher": "aes-128-gcm", "transport": "tcp", "client_mode": "tcp_and_udp",
            "server_mode": "tcp_and_udp", "seed": seed}
    observed, problems = {}, []
    with T.Deployment(spec, strict=False) as dep:
        time.sleep(0.3)
        observed["listening"] = {w: _own(dep.listening(w), dep._port(w)) for w in ("client", "server")}
        pr = T.probe_udp(dep)
        observed["udp_probe"] = pr
        observed.update(process_state(dep))
        observed["ready_detail"] = dep.ready_detail
        if not pr["relayed"]:
            problems.append("UDP datagram not relayed with legacy cipher + ordinary password (target got %d, replies %d)" % (pr["target_got"], pr["replies"]))
        for w in ("client", "server"):
            if not observed["listening"][w]["udp"]:
                problems.append("%s has no UDP socket on its port" % w)
        if problems:
            observed.update(tails(dep, 700))
    return T.result(name, spec, {"udp_relay_works": True, "readme": "a legacy cipher takes an ordinary password, on TCP and UDP alike"},
                    observed, not problems, "; ".join(problems))


def suite_listeners(tier, seed, only):
    jobs = []

    def add(name, fn):
        if wanted(name, only):
            jobs.append(fn)
    for m in ("tcp", "udp", "tcp_and_udp", "quic", "tcp_and_quic"):
        add("listeners/server-mode/%s" % m, lambda m=m: listeners_server_mode(m, seed))
    for m in ("tcp", "udp", "tcp_and_udp"):
        add("listeners/client-mode/%s" % m, lambda m=m: listeners_client_mode(m, seed))
    for (case, base, extra, sides) in bad_config_cases(seed):
        add("listeners/bad-config/%s" % case, lambda case=case, base=base, extra=extra, sides=sides: listeners_bad_config(case, base, extra, sides, seed))
    add("listeners/legacy-cipher-ordinary-password/udp-relay", lambda: listeners_legacy_udp(seed))
    jobs.extend(aud_listeners.jobs(seed, only))      # dimension audit
    return T.run_parallel(jobs, WORKERS, on_done=T.report_line)


# ------------------------------------------------------------------------------------------------
# registry + CLI
# ------------------------------------------------------------------------------------------------

import suite_faults  # noqa: E402
import suite_teardown  # noqa: E402
import suite_handshake  # noqa: E402

SUITES = {
    "matrix": suite_matrix,
    "udp": suite_udp,
    "listeners": suite_listeners,
    "faults": suite_faults.suite_faults,
    "teardown": suite_teardown.suite_teardown,
    "handshake": suite_handshake.suite_handshake,
}


def main(argv=None):
    global WORKERS, DEADLINE
    ap = argparse.ArgumentParser(description=__doc__, formatter_class=argparse.RawDescriptionHelpFormatter)
    ap.add_argument("suite", choices=sorted(SUITES))
    ap.add_argument("--tier", choices=["quick", "thorough"], default="quick")
    ap.add_argument("--seed", type=int, default=1)
    ap.add_argument("--out", default=None)
    ap.add_argument("--only", default=None, help="run only scenarios whose name contains this substring (alternatives separated by '|')")
    ap.add_argument("--workers", type=int, default=8)
    ap.add_argument("--deadline", type=float, default=T.DEFAULT_DEADLINE, help="per-wait deadline in seconds")
    ap.add_argument("--no-build", action="store_true", help="skip the cargo build (binaries must exist)")
    a = ap.parse_args(argv)
    WORKERS, DEADLINE = a.workers, a.deadline
    T.SETTINGS["workers"], T.SETTINGS["deadline"] = a.workers, a.deadline
    T.install_signal_handlers()
    t0 = time.monotonic()
    b = T.build_binaries(build=not a.no_build)
    sys.stderr.write("[t2] binaries %s in %.1fs -> %s\n" % ("snapshotted (no build)" if a.no_build else "built from /repo working tree",
                                                            b["seconds"], os.path.dirname(b["client"])))
    T.certs()
    results = SUITES[a.suite](a.tier, a.seed, a.only)
    out = a.out or "%s/results-%s-%s-seed%d.json" % (T.CACHE, a.suite, a.tier, a.seed)
    tmp = out + ".tmp%d" % os.getpid()
    with open(tmp, "w") as f:
        json.dump(results, f, indent=1)
    os.replace(tmp, out)
    bad = [r for r in results if not r["ok"]]
    sys.stderr.write("[t2] suite=%s tier=%s seed=%d: %d scenarios, %d ok, %d not ok, %.1fs -> %s\n"
                     % (a.suite, a.tier, a.seed, len(results), len(results) - len(bad), len(bad), time.monotonic() - t0, out))
    return 0


if __name__ == "__main__":
    try:
        rc = main()
    except SystemExit:
        raise
    except BaseException:
        traceback.print_exc()
        rc = 2
    sys.exit(rc)
