"""Additional `udp` scenarios from the dimension audit (seeded/audit/aud-t2a.md).

scenario = udp/<protocol>/<cipher>/<transport or native-udp>[+users]/<what>

Strict expectations are the sentences of C02 ("reaches the addressed target as exactly one datagram with the identical
payload", "each reply returns to that same application as one datagram labelled with the replying target's address",
"whole or not at all - never truncated, merged, altered or duplicated by the relay - and never to a different local
application, client session or user"), C11 (a duplicate is dropped, the session goes on, any arrival order is accepted) and
C08/C09 (nothing takes the service down, concurrent sessions are independent).  Where the properties do not say what must
happen (datagrams beyond what the path can carry, IPv6 targets, replies from a third party, loss under a burst) the outcome
is RECORDED in the observation and only the whole-or-nothing / no-crash / service-continues part is required.
"""
import collections
import socket
import threading
import time

import t2lib as T

WHATS = ["max-size", "apps=70", "burst", "multi-reply", "late-reply", "third-party-reply", "ipv6-target", "unresolvable-then-ok",
         "two-clients", "big-reply"]     # big-reply last: F-aud-2 takes the reply path of the whole client down
HOP = "lossy-hop"

P_C02 = "UDP relay preserves each datagram, addresses, owner"


IDLE_COMBO = "udp/shadowsocks/2022-blake3-aes-128-gcm/native-udp"      # the one combination that sits out the 305 s (thorough tier only)


def names_for(cname, native, tier="quick"):
    extra = ([HOP, "server-session-renewed"] if native else []) + (["idle-305s"] if (tier == "thorough" and cname == IDLE_COMBO) else [])
    return ["%s/%s" % (cname, w) for w in WHATS + extra]


def snapshot(sent, apps, targets):
    return {"sent": list(sent),
            "target_received": [[p for p, _s, _t in list(t.received)] for t in targets],
            "target_sources": [[s for _p, s, _t in list(t.received)] for t in targets],
            "app_received": [[(l, p) for l, p, _t in list(a.received)] for a in apps],
            "target_addrs": [t.addr for t in targets], "send_errors": [], "seconds": 0.0}


def send_wait(dep, app, tgt, payload, wait, echo=True):
    """one datagram, then wait (at most `wait`) until the target has it and (echo) the app has one more datagram"""
    t0, a0 = tgt.count(), app.count()
    app.send(dep.client_port, tgt.addr, payload)
    got_t = tgt.wait_count(t0 + 1, wait)
    got_a = app.wait_count(a0 + 1, wait) if (echo and got_t) else False
    return got_t, got_a


def state_problems(dep, extra_clients=()):
    st = T.process_state(dep)
    problems = []
    for w in ("client", "server"):
        if not st["alive"][w]:
            problems.append("%s process died (exit code %s)" % (w, st["exit_codes"][w]))
        if st["panicked"][w]:
            problems.append("%s logged a panic" % w)
    for c in extra_clients:
        if not c.alive():
            problems.append("second client process died (exit code %s)" % c.exit_code())
        if c.panicked():
            problems.append("second client logged a panic")
    return st, problems


class Mangler:
    """deterministic disturbance of a UdpForwarder direction: every `dup`-th datagram twice, every `drop`-th not at all,
    and of every `swap` consecutive ones the first is held back and released after the second.  Off until .on is set."""

    def __init__(self, dup, drop, swap):
        self.dup, self.drop, self.swap = dup, drop, swap
        self.on = False
        self.n = 0
        self.held = None
        self.stats = collections.Counter()
        self._lock = threading.Lock()

    def __call__(self, payload, _index):
        with self._lock:
            if not self.on:
                out = ([self.held] if self.held is not None else []) + [payload]
                self.held = None
                return out
            self.n += 1
            n = self.n
            self.stats["seen"] += 1
            if self.drop and n % self.drop == 0:
                self.stats["dropped"] += 1
                return []
            out = [payload]
            if self.dup and n % self.dup == 0:
                self.stats["duplicated"] += 1
                out = [payload, payload]
            if self.swap and n % self.swap == 1 and self.held is None:
                self.held = payload
                self.stats["held_back"] += 1
                return out[1:]          # a duplicate of a held datagram still goes out now (arrives before the original)
            if self.held is not None:
                out = out + [self.held]
                self.held = None
                self.stats["released_after_successor"] += 1
            return out

    def flush(self):
        with self._lock:
            h, self.held = self.held, None
            return h


def aud_job(p, c, t, users, cname, tier, seed, deadline, only=None):
    native = p == "shadowsocks"
    names = [n for n in names_for(cname, native, tier) if T.wanted(n, only)]

    def on(what):
        return "%s/%s" % (cname, what) in names
    spec = {"protocol": p, "cipher": c, "transport": t, "client_mode": "tcp_and_udp", "seed": seed}
    if native:
        spec["server_mode"] = "tcp_and_udp"
    if users:
        spec["users"] = users
    hop = mc = ms = None
    if native:
        mc, ms = Mangler(dup=3, drop=7, swap=4), Mangler(dup=4, drop=9, swap=5)
        hop = T.UdpForwarder(mangle_c2s=mc, mangle_s2c=ms)
        spec["extra"] = {"client_server": {"port": hop.port}}
    try:
        dep = T.Deployment(spec)
    except T.DeploymentError as e:
        if hop is not None:
            hop.close()
        return T.deploy_failed(names, spec, e)
    if hop is not None:
        hop.set_upstream((T.LOOPBACK, dep.server_port))
    res = []
    closers = []

    def add(what, expect, observed, problems, extra_clients=()):
        st, sp = state_problems(dep, extra_clients)
        observed = dict(observed, **st)
        if sp and T.UNALIGNED_ABORT in dep.logs()["client"]:
            # the client aborted on its unaligned read: everything observed in this phase is a consequence of that
            problems = [("F-aud-4", "; ".join(sp + [x if isinstance(x, str) else x[1] for x in problems])[:600])]
            sp = []
        problems = T.settle(list(problems), observed) + sp
        if problems:
            observed.update(T.tails(dep, 700))
        res.append(T.result("%s/%s" % (cname, what), dict(spec, what=what), expect, observed, not problems, "; ".join(problems)[:1500]))

    def mk(cls, *a, **k):
        x = cls(*a, **k)
        closers.append(x)
        return x

    try:
        wait = max(2.0, deadline / 2)
        # ---------------------------------------------------------------- max-size
        if on("max-size"):
            app, tgt = mk(T.UdpApp, "max"), mk(T.UdpTarget)
            outcome, problems = {}, []
            send_wait(dep, app, tgt, b"warm-up", wait)
            for size in (65000, 65457, 65458, 65497):
                pl = (b"S%d#" % size + T.seeded_bytes(seed, "%s/max/%d" % (cname, size), size))[:size]
                gt, ga = send_wait(dep, app, tgt, pl, 0.7)
                time.sleep(0.1)
                at_t = [x for x in tgt.payloads() if x[:8] == pl[:8]]
                at_a = [x for _l, x, _t in list(app.received) if x[:8] == pl[:8]]
                outcome[str(size)] = {"at_target": len(at_t), "echo_at_app": len(at_a)}
                for where, got in (("target", at_t), ("app", at_a)):
                    if len(got) > 1:
                        problems.append("%d-byte datagram arrived %d times at the %s" % (size, len(got), where))
                    for g in got:
                        if g != pl:
                            problems.append("%d-byte datagram arrived ALTERED at the %s (%d bytes, first difference at offset %s)" % (size, where, len(g), T.first_diff(g, pl)))
            gt, ga = send_wait(dep, app, tgt, b"small-one-after-the-big-ones", wait)
            if not (gt and ga):
                problems.append(("F-aud-1", "after the oversized datagrams a small datagram of the same application is no longer relayed (target got it: %s, echo: %s)" % (gt, ga)))
            add("max-size", {"property": P_C02, "sizes": "65000..65497 (the largest a SOCKS5-UDP datagram on loopback can carry)",
                             "each": "delivered whole, exactly once, or not at all (which of the two is recorded, not required)", "afterwards": "a small datagram of the same application is relayed and answered"},
                {"per_size": outcome, "small_datagram_afterwards": {"at_target": gt, "echo": ga}}, problems)

        # ---------------------------------------------------------------- apps=70 (the client's binding table holds 64)
        if on("apps=70"):
            tgt = mk(T.UdpTarget)
            apps = [mk(T.UdpAppSync, "m%d" % i) for i in range(70)]
            sent = []
            slow = 0
            for rnd, idxs in enumerate((range(70), list(range(0, 6)) + list(range(64, 70)))):
                for i in idxs:
                    pl = b"app%02d-round%d-" % (i, rnd) + T.seeded_bytes(seed, "%s/apps/%d/%d" % (cname, i, rnd), 40)
                    gt, ga = send_wait(dep, apps[i], tgt, pl, wait)
                    sent.append((i, 0, pl))
                    slow += 0 if (gt and ga) else 1
                    if slow >= 4:
                        break
            time.sleep(0.3)
            for a in apps:
                a.pump(0)        # whatever else arrived at any of the 70 sockets (strays, duplicates, foreign replies)
            ok, detail, stats = T.check_udp(snapshot(sent, apps, [tgt]))
            add("apps=70", {"property": P_C02, "applications": 70, "note": "more local applications than the client's binding table holds (64): the first ones are evicted and come back",
                            "each_datagram": "delivered exactly once to the target, echo exactly once at the SAME application, labelled with the target's address"},
                {"stats": stats, "datagrams": len(sent)}, [] if ok else [detail])
            for a in apps:
                a.close()

        # ---------------------------------------------------------------- burst
        if on("burst"):
            app, tgt = mk(T.UdpApp, "burst"), mk(T.UdpTarget)
            send_wait(dep, app, tgt, b"burst-warm-up", wait)
            sent = [(0, 0, b"burst-warm-up")]
            for i in range(200):
                pl = b"B%03d#" % i + T.seeded_bytes(seed, "%s/burst/%d" % (cname, i), 495)
                app.send(dep.client_port, tgt.addr, pl)
                sent.append((0, 0, pl))
            end = time.monotonic() + wait
            while time.monotonic() < end and app.count() < 201:
                time.sleep(0.05)
            time.sleep(0.2)
            ok, detail, stats = T.check_udp(snapshot(sent, [app], [tgt]), categories={"dup", "stray", "foreign", "mislabelled", "malformed"})
            problems = [] if ok else [detail]
            if stats["delivered"] < 2:
                problems.append("of a burst of 200 datagrams none was relayed")
            add("burst", {"property": P_C02, "burst": "200 datagrams of 500 bytes back to back from one application", "required": "no duplicate, altered, merged, mislabelled or stray datagram",
                          "recorded_not_required": "how many of the 200 got through (socket buffers may overflow)"}, {"stats": stats}, problems)

        # ---------------------------------------------------------------- multi-reply
        if on("multi-reply"):
            app = mk(T.UdpApp, "multi")

            class Multi(T.UdpTarget):
                def _run(self):
                    while not self._stop:
                        try:
                            b, src = self.sock.recvfrom(70000)
                        except socket.timeout:
                            continue
                        except OSError:
                            if self._stop:
                                break
                            continue
                        with self._cv:
                            self.received.append((b, src, time.monotonic()))
                            self._cv.notify_all()
                        for k in range(3):
                            try:
                                self.sock.sendto(b"reply%d:" % k + b, src)
                            except OSError:
                                pass
                    self.sock.close()
            tgt = mk(Multi, echo=False)
            app.send(dep.client_port, tgt.addr, b"one-request")
            app.wait_count(3, wait)
            time.sleep(0.3)
            got = [(l, pl) for l, pl, _t in list(app.received)]
            want = collections.Counter((tgt.addr, b"reply%d:one-request" % k) for k in range(3))
            have = collections.Counter((tuple(l) if l else None, pl) for l, pl in got)
            problems = []
            if have != want:
                problems.append("three replies to one request: the application received %s" % (sorted((str(k[0]), k[1].decode("latin-1"), v) for k, v in have.items()),))
            add("multi-reply", {"property": P_C02, "target": "answers ONE request with three different datagrams", "application_receives": "each of the three exactly once, labelled with the target's address"},
                {"received": [[str(l), pl.decode("latin-1")] for l, pl in got]}, problems)

        # ---------------------------------------------------------------- late-reply
        if on("late-reply"):
            app = mk(T.UdpApp, "late")

            class Late(T.UdpTarget):
                pass
            tgt = mk(Late, echo=False)
            app.send(dep.client_port, tgt.addr, b"answer-me-later")
            tgt.wait_count(1, wait)
            problems = []
            if tgt.count() != 1:
                problems.append("target got %d datagrams (want 1)" % tgt.count())
            else:
                src = tgt.received[0][1]
                time.sleep(1.5)
                tgt.sock.sendto(b"late-answer-1", src)
                time.sleep(0.05)
                tgt.sock.sendto(b"late-answer-2", src)
                app.wait_count(2, wait)
                time.sleep(0.2)
                have = [(tuple(l) if l else None, pl) for l, pl, _t in list(app.received)]
                if sorted(have) != sorted([(tgt.addr, b"late-answer-1"), (tgt.addr, b"late-answer-2")]):
                    problems.append("answers sent 1.5 s after the request: the application received %s" % ([(str(l), pl) for l, pl in have],))
            add("late-reply", {"property": P_C02, "target": "answers 1.5 s after the request, twice", "application_receives": "both answers exactly once, labelled with the target's address"},
                {"received": [[str(l), pl.decode("latin-1")] for l, pl, _t in list(app.received)]}, problems)

        # ---------------------------------------------------------------- third-party-reply
        if on("third-party-reply"):
            app, other_app = mk(T.UdpApp, "tp"), mk(T.UdpApp, "tp-bystander")
            tgt, third = mk(T.UdpTarget, echo=True), mk(T.UdpTarget, echo=False)
            bystander_tgt = mk(T.UdpTarget)
            send_wait(dep, other_app, bystander_tgt, b"bystander-1", wait)
            gt, ga = send_wait(dep, app, tgt, b"tp-request", wait)
            problems = []
            if not (gt and ga):
                problems.append("the request was not relayed and echoed (target: %s, echo: %s)" % (gt, ga))
            else:
                src = tgt.received[0][1]
                third.sock.sendto(b"from-a-third-party", src)
                time.sleep(0.4)
            gt2, ga2 = send_wait(dep, app, tgt, b"tp-request-2", wait)
            if not (gt2 and ga2):
                problems.append("after the third party's datagram the application's next datagram is not relayed and echoed")
            have = [(tuple(l) if l else None, pl) for l, pl, _t in list(app.received)]
            tp = [l for l, pl in have if pl == b"from-a-third-party"]
            own = collections.Counter((l, pl) for l, pl in have if pl != b"from-a-third-party")
            if own != collections.Counter([(tgt.addr, b"tp-request"), (tgt.addr, b"tp-request-2")]) and not problems:
                problems.append("the target's own echoes arrived as %s" % ([(str(l), pl) for l, pl in have],))
            if any(pl == b"from-a-third-party" for _l, pl, _t in list(other_app.received)):
                problems.append("the third party's datagram was delivered to a DIFFERENT application")
            add("third-party-reply", {"property": P_C02, "third_party": "a socket the application never addressed sends a datagram to the server-side source address of the session",
                                      "required": "the addressed target's echoes arrive exactly once with its address; nothing reaches another application; the session goes on",
                                      "recorded_not_required": "whether the third party's datagram is delivered, and with which label"},
                {"third_party_addr": str(third.addr), "third_party_datagram_delivered": len(tp), "third_party_datagram_label": [str(x) for x in tp],
                 "label_is_the_real_sender": all(x == third.addr for x in tp) if tp else None}, problems)

        # ---------------------------------------------------------------- ipv6-target
        if on("ipv6-target"):
            app, tgt = mk(T.UdpApp, "v6"), mk(T.UdpTarget)
            v6 = None
            try:
                v6 = socket.socket(socket.AF_INET6, socket.SOCK_DGRAM)
                v6.bind(("::1", 0))
                v6.settimeout(0.7)
            except OSError:
                v6 = None
            observed, problems = {"ipv6_loopback": v6 is not None}, []
            if v6 is not None:
                app.send(dep.client_port, ("::1", v6.getsockname()[1]), b"to-an-ipv6-target", atyp=4)
                try:
                    b, src = v6.recvfrom(70000)
                    observed["ipv6_target_received"] = b.decode("latin-1")
                    if b != b"to-an-ipv6-target":
                        problems.append("the IPv6 target received an altered datagram")
                    v6.sendto(b"ipv6-answer", src)
                    app.wait_count(1, 1.0)
                    observed["answer_at_app"] = [[str(l), pl.decode("latin-1")] for l, pl, _t in list(app.received)]
                except (socket.timeout, OSError):
                    observed["ipv6_target_received"] = None
                v6.close()
            time.sleep(0.3)
            fresh = mk(T.UdpApp, "v6-fresh")
            gt, ga = send_wait(dep, fresh, tgt, b"fresh-app-after-ipv6", wait)
            if not (gt and ga):
                problems.append("after a datagram for an IPv6 target a FRESH application's datagram is not relayed and echoed")
            g2, a2 = send_wait(dep, app, tgt, b"same-app-after-ipv6", wait)
            observed["same_application_continues"] = bool(g2 and a2)
            add("ipv6-target", {"property": P_C02 + " / one failing flow never takes the service down", "readme": "only IPv4 is supported",
                                "required": "whole or not at all; both processes survive; a fresh application is served afterwards",
                                "recorded_not_required": "whether the IPv6 target is reached; whether the same application goes on"}, observed, problems)

        # ---------------------------------------------------------------- unresolvable-then-ok
        if on("unresolvable-then-ok"):
            app, tgt = mk(T.UdpApp, "unres"), mk(T.UdpTarget)
            g0, a0 = send_wait(dep, app, tgt, b"before-the-unresolvable-one", wait)
            app.send(dep.client_port, ("nonexistent.invalid", 53), b"who-is-there", atyp=3)
            g1, a1 = send_wait(dep, app, tgt, b"right-after-the-unresolvable-one", 1.0)
            time.sleep(1.0)
            g2, a2 = send_wait(dep, app, tgt, b"one-second-after-the-unresolvable-one", wait)
            problems = []
            if not (g0 and a0):
                problems.append("the first datagram was not relayed and echoed")
            if not (g2 and a2):
                problems.append("1 s after a datagram for an unresolvable name the SAME application's datagram to a good target is not relayed and echoed (target: %s, echo: %s)" % (g2, a2))
            ok, detail, stats = T.check_udp(snapshot([(0, 0, b"before-the-unresolvable-one"), (0, 0, b"right-after-the-unresolvable-one"), (0, 0, b"one-second-after-the-unresolvable-one")], [app], [tgt]),
                                            categories={"dup", "stray", "foreign", "mislabelled", "malformed"})
            if not ok:
                problems.append(detail)
            add("unresolvable-then-ok", {"property": P_C02, "history": "good target, unresolvable name, good target at once, good target 1 s later - all from ONE application",
                                         "required": "the datagram sent 1 s later is relayed and echoed; nothing duplicated, altered or mislabelled",
                                         "recorded_not_required": "the datagram sent right after the unresolvable one (it may share the fate of a tunnel that is being torn down)"},
                {"right_after": {"at_target": g1, "echo": a1}, "one_second_later": {"at_target": g2, "echo": a2}, "stats": stats}, problems)

        # ---------------------------------------------------------------- two-clients
        if on("two-clients"):
            problems, observed = [], {}
            over = {"client_user": 1} if users else {}
            try:
                with T.ExtraClient(dep, overrides=over) as c2:
                    tgts = [mk(T.UdpTarget), mk(T.UdpTarget)]
                    apps1 = [mk(T.UdpApp, "c1a%d" % i) for i in range(2)]
                    apps2 = [mk(T.UdpApp, "c2a%d" % i) for i in range(2)]
                    sent = []
                    for rnd in range(6):
                        for ai in range(4):
                            ti = (ai + rnd) % 2
                            pl = b"C%dA%dT%dR%d#" % (ai // 2 + 1, ai % 2, ti, rnd) + T.seeded_bytes(seed, "%s/two/%d/%d" % (cname, ai, rnd), 30 + 17 * rnd)
                            port = dep.client_port if ai < 2 else c2.client_port
                            (apps1 + apps2)[ai].send(port, tgts[ti].addr, pl)
                            sent.append((ai, ti, pl))
                        end = time.monotonic() + wait
                        while time.monotonic() < end and sum(a.count() for a in apps1 + apps2) < len(sent):
                            time.sleep(0.02)
                    end = time.monotonic() + deadline          # stragglers of the last rounds on a loaded machine
                    while time.monotonic() < end and sum(a.count() for a in apps1 + apps2) < len(sent):
                        time.sleep(0.05)
                    time.sleep(0.3)
                    ok, detail, stats = T.check_udp(snapshot(sent, apps1 + apps2, tgts))
                    observed = {"stats": stats, "second_client_user": (users[1] if users else None)}
                    if not ok:
                        problems.append(detail)
                        observed["second_client_log_tail"] = c2.log()[-500:]
                    add("two-clients", {"property": P_C02, "history": "two client PROCESSES%s on one server, two applications behind each, two targets, 6 rounds" % (" (users %s and %s)" % (users[0], users[1]) if users else ""),
                                        "each_datagram": "delivered exactly once; echo exactly once at the sending application of the sending client; never at another application, client session or user"},
                        observed, problems, extra_clients=[c2])
            except T.DeploymentError as e:
                add("two-clients", {"property": P_C02}, {"second_client_error": str(e)[:600]}, ["the second client did not come up: %s" % (getattr(e, "ready_detail", e),)])

        # ---------------------------------------------------------------- server-session-renewed / idle-305s (native datagrams only)
        def renewed(what, how, do):
            app, tgt = mk(T.UdpApp, what), mk(T.UdpTarget)
            before = 0
            for i in range(5):
                gt, ga = send_wait(dep, app, tgt, b"before-%d" % i, wait)
                before += 1 if (gt and ga) else 0
            info = do()
            n0, t0 = app.count(), tgt.count()
            for i in range(6):
                send_wait(dep, app, tgt, b"after-%d" % i, 1.0)
            t_all = None
            end = time.monotonic() + deadline              # stragglers on a loaded machine
            while time.monotonic() < end and app.count() - n0 < 6:
                if tgt.count() - t0 >= 6:
                    t_all = t_all or time.monotonic()
                    if time.monotonic() - t_all > 1.5:
                        break                               # everything was answered 1.5 s ago: what is missing will not come
                time.sleep(0.05)
            time.sleep(0.3)
            at_t, at_a = tgt.count() - t0, app.count() - n0
            problems = []
            if before != 5:
                problems.append("only %d of the 5 exchanges before worked" % before)
            if at_t != 6:
                problems.append("%s: %d of the application's 6 datagrams reached the target" % (how, at_t))
            if at_a != 6 and at_t == 6:
                problems.append(("F-aud-3", "%s: all 6 datagrams reached the target and were answered, %d of the 6 replies came back to the application" % (how, at_a)))
            ok, detail, stats = T.check_udp(snapshot([(0, 0, b"before-%d" % i) for i in range(5)] + [(0, 0, b"after-%d" % i) for i in range(6)], [app], [tgt]),
                                            categories={"dup", "stray", "foreign", "mislabelled", "malformed"})
            if not ok:
                problems.append(detail)
            add(what, {"property": P_C02, "history": "5 exchanges; %s; 6 more exchanges of the SAME application" % how,
                       "required": "all 6 datagrams reach the target and all 6 replies return to the application, each once"},
                dict(info or {}, exchanges_before=before, after={"reached_the_target": at_t, "replies_at_the_application": at_a}, stats=stats), problems)
        if native and on("server-session-renewed"):
            renewed("server-session-renewed", "the server loses its association table (stand-in for an association that expired after 300 s without traffic: the server "
                    "process is restarted on the same port while the client and its binding live on)", lambda: {"restart": dep.restart("server", down=0.2)})
        if native and on("idle-305s"):
            renewed("idle-305s", "305 s without traffic (the server drops an association after 300 s, the client keeps its binding for 600 s)", lambda: time.sleep(305.0))

        # ---------------------------------------------------------------- big-reply
        if on("big-reply"):
            app, tgt = mk(T.UdpApp, "bigr"), mk(T.UdpTarget, echo=False)
            bystander, btgt = mk(T.UdpApp, "bigr-bystander"), mk(T.UdpTarget)
            send_wait(dep, bystander, btgt, b"bystander-before", wait)
            app.send(dep.client_port, tgt.addr, b"send-me-your-biggest")
            tgt.wait_count(1, wait)
            problems, observed = [], {}
            if tgt.count() != 1:
                problems.append("target got %d datagrams (want 1)" % tgt.count())
            else:
                src = tgt.received[0][1]
                outcome = {}
                for size in (65400, 65507):
                    pl = (b"R%d#" % size + T.seeded_bytes(seed, "%s/bigr/%d" % (cname, size), size))[:size]
                    n0 = app.count()
                    try:
                        tgt.sock.sendto(pl, src)
                    except OSError as e:
                        outcome[str(size)] = "driver could not send: %r" % (e,)
                        continue
                    app.wait_count(n0 + 1, 0.7)
                    got = [x for _l, x, _t in list(app.received) if x[:8] == pl[:8]]
                    outcome[str(size)] = {"at_app": len(got)}
                    for g in got:
                        if g != pl:
                            problems.append("a %d-byte answer arrived ALTERED at the application (%d bytes, first difference at offset %s)" % (size, len(g), T.first_diff(g, pl)))
                    if len(got) > 1:
                        problems.append("a %d-byte answer arrived %d times" % (size, len(got)))
                observed["per_size"] = outcome
                time.sleep(0.3)
                fresh = mk(T.UdpApp, "bigr-fresh")
                gt, ga = send_wait(dep, fresh, btgt, b"fresh-app-after-the-big-answer", wait)
                g1, a1 = send_wait(dep, bystander, btgt, b"bystander-after", wait)
                g2, a2 = send_wait(dep, app, btgt, b"same-app-after-the-big-answer", wait)
                observed.update({"fresh_application_afterwards": {"at_target": gt, "echo": ga}, "bystander_application_afterwards": {"at_target": g1, "echo": a1},
                                 "same_application_afterwards": {"at_target": g2, "echo": a2}})
                if not (gt and ga):
                    problems.append(("F-aud-2", "after a target answered with a datagram too big to be handed to the application, a FRESH application gets no service (target: %s, echo: %s)" % (gt, ga)))
                if not (g1 and a1):
                    problems.append(("F-aud-2", "after a target answered with a datagram too big to be handed to the application, ANOTHER application that was working before gets no service (target: %s, echo: %s)" % (g1, a1)))
                if not (g2 and a2):
                    problems.append(("F-aud-2", "after the big answer the same application's next datagram is not relayed and echoed (target: %s, echo: %s)" % (g2, a2)))
            add("big-reply", {"property": P_C02 + " / one failing flow never takes the service down", "target": "answers with datagrams of 65400 and 65507 bytes (the largest UDP payload; with the SOCKS5-UDP header it cannot be handed to the application)",
                              "required": "whole or not at all; afterwards a fresh application, a bystander application and the same application are served",
                              "recorded_not_required": "which of the answers are delivered"}, observed, problems)

        # ---------------------------------------------------------------- lossy-hop (native datagrams only)
        if native and on(HOP):
            rp = (c or "").startswith("2022")
            app, tgt = mk(T.UdpApp, "hop"), mk(T.UdpTarget)
            send_wait(dep, app, tgt, b"hop-warm-up", wait)
            mc.on = ms.on = True
            sent = [(0, 0, b"hop-warm-up")]
            for i in range(60):
                pl = b"H%02d#" % i + T.seeded_bytes(seed, "%s/hop/%d" % (cname, i), 60 + i)
                app.send(dep.client_port, tgt.addr, pl)
                sent.append((0, 0, pl))
                time.sleep(0.01)
            time.sleep(0.5)
            mc.on = ms.on = False          # a datagram still held back is released together with the next one
            # the session must go on after duplicates, gaps and reordering
            gt, ga = send_wait(dep, app, tgt, b"hop-after-1", wait)
            gt2, ga2 = send_wait(dep, app, tgt, b"hop-after-2", wait)
            sent += [(0, 0, b"hop-after-1"), (0, 0, b"hop-after-2")]
            time.sleep(0.3)
            cats = {"dup", "stray", "foreign", "mislabelled", "malformed"} if rp else {"stray", "foreign", "mislabelled", "malformed"}
            ok, detail, stats = T.check_udp(snapshot(sent, [app], [tgt]), categories=cats)
            problems = [] if ok else [detail]
            if not (gt2 and ga2):
                problems.append("after duplicated, dropped and reordered datagrams the session does not go on (target: %s, echo: %s)" % (gt2, ga2))
            c_seen, c_drop = mc.stats["seen"], mc.stats["dropped"]
            s_seen, s_drop = ms.stats["seen"], ms.stats["dropped"]
            # every datagram the hop let through (once or twice, early or late) must arrive: any arrival order is accepted
            want_t = 1 + (c_seen - c_drop) + 2
            if stats["delivered"] < want_t:
                problems.append("the hop let %d of the %d disturbed client->server datagrams through (plus 3 undisturbed ones): %d distinct datagrams expected at the target, %d arrived"
                                % (c_seen - c_drop, c_seen, want_t, stats["delivered"]))
            want_a = 1 + (s_seen - s_drop) + 2
            if rp and stats["replied"] < want_a:
                problems.append("the hop let %d of the %d disturbed server->client datagrams through (plus 3 undisturbed ones): %d distinct replies expected at the application, %d arrived"
                                % (s_seen - s_drop, s_seen, want_a, stats["replied"]))
            add(HOP, {"property": "a duplicate is dropped, the session goes on, any arrival order within the window is accepted (2022 ciphers) / " + P_C02,
                      "hop": "between client and server: every 3rd (4th) datagram twice, every 7th (9th) lost, one of every 4 (5) overtaken by its successor",
                      "required": ("no datagram reaches the target or the application twice; " if rp else "") + "nothing altered, mislabelled or stray; every datagram the hop let through arrives; the session goes on afterwards",
                      "recorded_not_required": None if rp else "duplicates (a legacy cipher has no replay filter: a datagram duplicated by the NETWORK is relayed twice)"},
                {"stats": stats, "hop_client_to_server": dict(mc.stats), "hop_server_to_client": dict(ms.stats), "session_goes_on": bool(gt2 and ga2)}, problems)
    finally:
        for x in closers:        # tell every recorder thread to stop first, so that the joins below do not add up
            if hasattr(x, "_stop"):
                x._stop = True
        for x in closers:
            try:
                x.close()
            except Exception:
                pass
        dep.stop()
        if hop is not None:
            hop.close()
    return res
