#!/usr/bin/env python3
"""t2lib -- system-level test library for the octo-squirrel client/server binaries.

Standard library only.  Everything here talks to the REAL binaries built from /repo over
loopback sockets.  See /verif/t2/README.md for the one-page API description.

Rules kept by this library:
  * nothing in /repo is modified; all scratch data lives under /verif/.cache/t2/
  * child processes are stopped by stored PID only (never by name pattern)
  * every wait has a deadline; nothing loops forever
"""
import atexit
import base64
import collections
import errno
import fcntl
import hashlib
import json
import os
import random
import select
import shutil
import signal
import socket
import struct
import subprocess
import sys
import threading
import time
import uuid
from concurrent.futures import ThreadPoolExecutor

REPO = os.environ.get("VERIF_REPO", "/repo")                                  # developer override only
CACHE = "/verif/.cache/t2"
TARGET_DIR = os.environ.get("VERIF_T2_TARGET", "/verif/.cache/target-bin")   # developer override only
CLIENT_BIN = TARGET_DIR + "/debug/octo-squirrel-client"
SERVER_BIN = TARGET_DIR + "/debug/octo-squirrel-server"
CERT_DIR = CACHE + "/certs"
LOOPBACK = "127.0.0.1"
DEFAULT_DEADLINE = 5.0

SS_LEGACY = ["aes-128-gcm", "aes-256-gcm", "chacha20-poly1305"]
SS_2022 = ["2022-blake3-aes-128-gcm", "2022-blake3-aes-256-gcm",
           "2022-blake3-chacha8-poly1305", "2022-blake3-chacha20-poly1305"]
SS_CIPHERS = SS_LEGACY + SS_2022
SS_2022_KEYLEN = {"2022-blake3-aes-128-gcm": 16, "2022-blake3-aes-256-gcm": 32,
                  "2022-blake3-chacha8-poly1305": 32, "2022-blake3-chacha20-poly1305": 32}
VMESS_CIPHERS = ["aes-128-gcm", "chacha20-poly1305"]
TRANSPORTS = ["tcp", "tls", "ws", "wss", "quic"]
HANDSHAKE_KINDS = ["socks5_ipv4", "socks5_domain", "http_connect", "http_plain"]


class T2Error(Exception):
    pass


class DeploymentError(T2Error):
    """The deployment did not come up (process died, expected sockets never appeared)."""


class InfraError(T2Error):
    """A failure of the test infrastructure (port taken, ...).  Only these may be retried."""


# --------------------------------------------------------------------------------------------
# build, ports, certificates
# --------------------------------------------------------------------------------------------

def _ensure_cache():
    os.makedirs(CACHE, exist_ok=True)


class _FileLock:
    def __init__(self, path):
        self.path = path
        self.fd = None

    def __enter__(self):
        _ensure_cache()
        self.fd = os.open(self.path, os.O_CREAT | os.O_RDWR, 0o644)
        fcntl.flock(self.fd, fcntl.LOCK_EX)
        return self

    def __exit__(self, *exc):
        try:
            fcntl.flock(self.fd, fcntl.LOCK_UN)
        finally:
            os.close(self.fd)
            self.fd = None


_BUILT_CLIENT = TARGET_DIR + "/debug/octo-squirrel-client"
_BUILT_SERVER = TARGET_DIR + "/debug/octo-squirrel-server"
_snapshot_dir = [None]


def _pid_alive(pid):
    return os.path.isdir("/proc/%d" % pid)


def cleanup_stale():
    """Remove run-<pid>-<n>/ and bin-<pid>/ directories left by driver processes that no longer exist."""
    try:
        names = os.listdir(CACHE)
    except OSError:
        return
    for n in names:
        parts = n.split("-")
        if parts[0] in ("run", "bin") and len(parts) >= 2 and parts[1].isdigit():
            if not _pid_alive(int(parts[1])):
                shutil.rmtree(os.path.join(CACHE, n), ignore_errors=True)


def _remove_snapshot():
    d = _snapshot_dir[0]
    if d and os.path.isdir(d):
        shutil.rmtree(d, ignore_errors=True)


def _snapshot_binaries():
    """Hard-link (or copy) the freshly built binaries into bin-<pid>/ so that this driver process
    keeps using ONE consistent build even if a concurrent run rebuilds /repo meanwhile.
    Call with the build lock held."""
    global CLIENT_BIN, SERVER_BIN
    d = "%s/bin-%d" % (CACHE, os.getpid())
    shutil.rmtree(d, ignore_errors=True)
    os.makedirs(d)
    for src in (_BUILT_CLIENT, _BUILT_SERVER):
        if not os.access(src, os.X_OK):
            raise T2Error("binary missing: " + src)
        dst = os.path.join(d, os.path.basename(src))
        try:
            os.link(src, dst)
        except OSError:
            shutil.copy2(src, dst)
    if _snapshot_dir[0] is None:
        atexit.register(_remove_snapshot)
    _snapshot_dir[0] = d
    CLIENT_BIN = d + "/octo-squirrel-client"
    SERVER_BIN = d + "/octo-squirrel-server"


def build_binaries(timeout=1800, quiet=True, build=True):
    """(Re)build client and server from /repo's current working tree (incremental, under a
    file lock), then snapshot them for this driver process (CLIENT_BIN / SERVER_BIN point at the
    snapshot).  build=False only snapshots the existing binaries.
    Returns {"client": path, "server": path, "seconds": float}."""
    t0 = time.monotonic()
    env = dict(os.environ)
    env["CARGO_NET_OFFLINE"] = "true"
    env["CARGO_TARGET_DIR"] = TARGET_DIR
    cmd = ["cargo", "build", "--offline", "--bins", "-p", "octo-squirrel-client", "-p", "octo-squirrel-server"]
    with _FileLock(CACHE + "/build.lock"):
        cleanup_stale()
        if build:
            p = subprocess.run(cmd, cwd=REPO, env=env, stdout=subprocess.PIPE, stderr=subprocess.STDOUT,
                               timeout=timeout)
            out = p.stdout.decode("utf-8", "replace")
            if p.returncode != 0:
                raise T2Error("cargo build failed (exit %d):\n%s" % (p.returncode, out[-4000:]))
            if not quiet:
                sys.stderr.write(out[-600:])
        _snapshot_binaries()
    return {"client": CLIENT_BIN, "server": SERVER_BIN, "seconds": round(time.monotonic() - t0, 2)}


_port_lock = threading.Lock()
_ports_given = set()
_port_rng = random.Random(os.getpid() * 7919 + int(time.time() * 1000) % 100003)


def _ephemeral_low():
    try:
        with open("/proc/sys/net/ipv4/ip_local_port_range") as f:
            return int(f.read().split()[0])
    except Exception:
        return 32768


def _try_bind_both(port):
    """Bind TCP and UDP on 127.0.0.1:port; return the port actually bound or None."""
    t = socket.socket(socket.AF_INET, socket.SOCK_STREAM)
    u = socket.socket(socket.AF_INET, socket.SOCK_DGRAM)
    try:
        t.bind((LOOPBACK, port))
        got = t.getsockname()[1]
        u.bind((LOOPBACK, got))
        return got
    except OSError:
        return None
    finally:
        t.close()
        u.close()


def free_port():
    """A port currently free on 127.0.0.1 for BOTH TCP and UDP.

    Ports are preferably drawn from below the kernel's ephemeral range, so that the outbound
    sockets of the processes under test (which bind port 0) cannot grab the port between this
    probe and the moment the binary binds it.  Falls back to binding port 0.  Never hands out the
    same port twice within one driver process."""
    low, high = 12000, max(12100, _ephemeral_low() - 1)
    with _port_lock:
        for _ in range(200):
            cand = _port_rng.randrange(low, high)
            if cand in _ports_given:
                continue
            got = _try_bind_both(cand)
            if got:
                _ports_given.add(got)
                return got
        for _ in range(200):
            got = _try_bind_both(0)
            if got and got not in _ports_given:
                _ports_given.add(got)
                return got
    raise InfraError("no free port found")


def certs():
    """Self-signed throw-away certificate for CN=localhost (generated once, then reused).
    Returns {"cert": pem_path, "key": pem_path}."""
    cert, key = CERT_DIR + "/cert.pem", CERT_DIR + "/key.pem"
    with _FileLock(CACHE + "/certs.lock"):
        fresh = (os.path.isfile(cert) and os.path.isfile(key) and os.path.getsize(cert) > 0
                 and time.time() - os.path.getmtime(cert) < 20 * 86400)
        if not fresh:
            os.makedirs(CERT_DIR, exist_ok=True)
            p = subprocess.run(
                ["openssl", "req", "-x509", "-newkey", "rsa:2048", "-nodes", "-keyout", key, "-out", cert,
                 "-days", "30", "-subj", "/CN=localhost", "-addext", "subjectAltName=DNS:localhost,IP:127.0.0.1",
                 # rustls/webpki refuses a CA certificate as end entity (CaUsedAsEndEntity)
                 "-addext", "basicConstraints=critical,CA:FALSE"],
                stdout=subprocess.PIPE, stderr=subprocess.STDOUT, timeout=120)
            if p.returncode != 0:
                raise InfraError("openssl failed: " + p.stdout.decode("utf-8", "replace")[-1000:])
    return {"cert": cert, "key": key}


# --------------------------------------------------------------------------------------------
# small helpers
# --------------------------------------------------------------------------------------------

def seeded_bytes(seed, label, n):
    """n pseudo-random bytes, a pure function of (seed, label)."""
    if n <= 0:
        return b""
    r = random.Random("%s/%s" % (seed, label))
    return r.randbytes(n)


def summarize(b):
    """JSON-friendly description of a byte string."""
    if b is None:
        return None
    b = bytes(b)
    return {"len": len(b), "sha256": hashlib.sha256(b).hexdigest()[:16], "head": b[:24].hex()}


def first_diff(a, b):
    """Offset of the first differing byte, or None if equal."""
    if a == b:
        return None
    n = min(len(a), len(b))
    lo, hi = 0, n
    if a[:n] == b[:n]:
        return n
    while hi - lo > 1:  # binary search on prefix equality
        mid = (lo + hi) // 2
        if a[:mid] == b[:mid]:
            lo = mid
        else:
            hi = mid
    return lo


def jsonable(x):
    """Recursively convert an observation (bytes, tuples, sets ...) to something json.dump takes."""
    if isinstance(x, (bytes, bytearray, memoryview)):
        return summarize(x)
    if isinstance(x, dict):
        return {str(k): jsonable(v) for k, v in x.items()}
    if isinstance(x, (list, tuple, set, frozenset)):
        return [jsonable(v) for v in x]
    if isinstance(x, float):
        return round(x, 4)
    if isinstance(x, (str, int, bool)) or x is None:
        return x
    return repr(x)


def result(scenario, config, expect, observed, ok, detail=""):
    return {"scenario": scenario, "config": jsonable(config), "expect": jsonable(expect),
            "observed": jsonable(observed), "ok": bool(ok), "detail": detail}


def run_parallel(jobs, workers=8, on_done=None):
    """jobs: list of zero-argument callables returning a list of results (or one result).
    Runs them on a thread pool, returns the flattened result list in job order.  An exception in a
    job becomes a result with ok=False and scenario 'driver-error'."""
    out = [None] * len(jobs)

    def run(i):
        try:
            r = jobs[i]()
        except Exception as e:  # driver-side problem: report it, never hide it
            import traceback
            r = [result("driver-error/job%d" % i, {}, {}, {"exception": repr(e), "trace": traceback.format_exc()[-1500:]},
                        False, "driver exception: %r" % (e,))]
        if isinstance(r, dict):
            r = [r]
        out[i] = r
        if on_done:
            for x in r:
                on_done(x)
        return r

    with ThreadPoolExecutor(max_workers=max(1, workers)) as ex:
        list(ex.map(run, range(len(jobs))))
    flat = []
    for r in out:
        flat.extend(r or [])
    return flat


def report_line(res):
    """One-line summary of a result on stderr."""
    sys.stderr.write("%s %s%s\n" % ("ok  " if res["ok"] else "FAIL", res["scenario"],
                                     ("  -- " + res["detail"]) if res["detail"] and not res["ok"] else ""))
    sys.stderr.flush()


# --------------------------------------------------------------------------------------------
# /proc inspection
# --------------------------------------------------------------------------------------------

def _socket_inodes(pid):
    inodes = set()
    try:
        fds = os.listdir("/proc/%d/fd" % pid)
    except OSError:
        return inodes
    for fd in fds:
        try:
            l = os.readlink("/proc/%d/fd/%s" % (pid, fd))
        except OSError:
            continue
        if l.startswith("socket:["):
            inodes.add(l[8:-1])
    return inodes


def _net_table(pid, name):
    rows = []
    try:
        with open("/proc/%d/net/%s" % (pid, name)) as f:
            next(f, None)
            for line in f:
                p = line.split()
                if len(p) < 10:
                    continue
                addr, port = p[1].rsplit(":", 1)
                rows.append((addr, int(port, 16), p[3], p[9]))
    except OSError:
        pass
    return rows


def listening_of_pid(pid):
    """{"tcp": [ports in LISTEN state], "udp": [bound udp ports]} of one process."""
    inodes = _socket_inodes(pid)
    tcp, udp = set(), set()
    for name in ("tcp", "tcp6"):
        for _addr, port, st, inode in _net_table(pid, name):
            if st == "0A" and inode in inodes:
                tcp.add(port)
    for name in ("udp", "udp6"):
        for _addr, port, _st, inode in _net_table(pid, name):
            if inode in inodes and port != 0:
                udp.add(port)
    return {"tcp": sorted(tcp), "udp": sorted(udp)}


_TCP_STATES = {"01": "ESTABLISHED", "02": "SYN_SENT", "03": "SYN_RECV", "04": "FIN_WAIT1", "05": "FIN_WAIT2", "06": "TIME_WAIT",
               "07": "CLOSE", "08": "CLOSE_WAIT", "09": "LAST_ACK", "0A": "LISTEN", "0B": "CLOSING"}


def _hex_addr(a):
    host, port = a.rsplit(":", 1)
    port = int(port, 16)
    if len(host) == 8:
        return "%s:%d" % (socket.inet_ntoa(struct.pack("<I", int(host, 16))), port)
    try:
        raw = b"".join(struct.pack("<I", int(host[i:i + 8], 16)) for i in range(0, 32, 8))
        return "[%s]:%d" % (socket.inet_ntop(socket.AF_INET6, raw), port)
    except Exception:
        return "%s:%d" % (host, port)


def describe_fds(pid):
    """{fd: text} for every open descriptor of a process (sockets resolved through /proc/<pid>/net)."""
    inode_desc = {}
    for name in ("tcp", "tcp6", "udp", "udp6"):
        try:
            with open("/proc/%d/net/%s" % (pid, name)) as f:
                next(f, None)
                for line in f:
                    q = line.split()
                    if len(q) < 10:
                        continue
                    if name.startswith("tcp"):
                        inode_desc[q[9]] = "%s %s->%s %s" % (name, _hex_addr(q[1]), _hex_addr(q[2]), _TCP_STATES.get(q[3], q[3]))
                    else:
                        inode_desc[q[9]] = "%s %s->%s" % (name, _hex_addr(q[1]), _hex_addr(q[2]))
        except OSError:
            pass
    out = {}
    try:
        names = os.listdir("/proc/%d/fd" % pid)
    except OSError:
        return out
    for fd in names:
        try:
            l = os.readlink("/proc/%d/fd/%s" % (pid, fd))
        except OSError:
            continue
        if l.startswith("socket:["):
            l = "%s %s" % (l, inode_desc.get(l[8:-1], "(not in /proc/net tcp/udp tables)"))
        out[int(fd)] = l
    return out


# --------------------------------------------------------------------------------------------
# Deployment
# --------------------------------------------------------------------------------------------

_live_lock = threading.RLock()   # re-entrant: the signal handler may interrupt the main thread inside it
_live = set()
_run_counter = [0]
_shutting_down = [False]


def _kill_all_live():
    """Stop every live deployment.  Once called, no new process can be spawned (process creation
    and registration happen under _live_lock and check the flag)."""
    with _live_lock:
        _shutting_down[0] = True
        deps = list(_live)
    for d in deps:
        try:
            d.stop()
        except Exception:
            pass


atexit.register(_kill_all_live)


def install_signal_handlers():
    """Make SIGTERM/SIGINT stop every live deployment before the driver dies (call from main)."""
    def handler(signum, _frame):
        _kill_all_live()
        _remove_snapshot()
        os._exit(128 + signum)
    for s in (signal.SIGTERM, signal.SIGINT, signal.SIGHUP):
        try:
            signal.signal(s, handler)
        except Exception:
            pass


def _b64key(seed, label, n):
    return base64.b64encode(hashlib.sha256(("%s/%s" % (seed, label)).encode()).digest()[:n]).decode()


def make_credentials(protocol, cipher, users=None, seed=0, client_user=0):
    """-> {"server_password", "server_users" (list of {"name","password"} or None), "client_password"}"""
    users = users or []
    if protocol == "shadowsocks":
        if cipher in SS_2022_KEYLEN:
            n = SS_2022_KEYLEN[cipher]
            spw = _b64key(seed, "server-key", n)
            su = [{"name": u, "password": _b64key(seed, "user-key-" + u, n)} for u in users]
            cpw = spw if not su else "%s:%s" % (spw, su[client_user]["password"])
            return {"server_password": spw, "server_users": su or None, "client_password": cpw}
        pw = "t2-ordinary-password-%s" % seed
        return {"server_password": pw, "server_users": None, "client_password": pw}
    if protocol == "vmess":
        names = users or ["u1"]
        su = [{"name": u, "password": str(uuid.UUID(bytes=hashlib.sha256(("%s/uuid-%s" % (seed, u)).encode()).digest()[:16], version=4))}
              for u in names]
        return {"server_password": "unused", "server_users": su, "client_password": su[client_user]["password"]}
    if protocol == "trojan":
        pw = "t2-trojan-password-%s" % seed
        return {"server_password": pw, "server_users": None, "client_password": pw}
    # unknown protocol (bad-config scenarios): ordinary password
    pw = "t2-password-%s" % seed
    return {"server_password": pw, "server_users": None, "client_password": pw}


def _apply_overrides(obj, over):
    for k, v in (over or {}).items():
        if v is None:
            obj.pop(k, None)
        else:
            obj[k] = v


def build_configs(spec, client_port, server_port):
    """spec -> (client_config dict, server_config list, expected listeners).

    spec keys: protocol, cipher (optional for trojan), transport (tcp|tls|ws|wss|quic),
    client_mode (default "tcp"), server_mode (default: derived; only written when meaningful),
    users (list of user names), client_user (index), seed, extra = {"client": {...},
    "client_server": {...}, "server": {...}} shallow overrides applied last (None deletes a key)."""
    protocol = spec["protocol"]
    cipher = spec.get("cipher")
    transport = spec.get("transport", "tcp")
    client_mode = spec.get("client_mode", "tcp")
    server_mode = spec.get("server_mode")
    if server_mode is None and protocol == "shadowsocks":
        if transport == "quic":
            server_mode = "quic"
        elif "udp" in client_mode:
            server_mode = "tcp_and_udp"
    cred = make_credentials(protocol, cipher, spec.get("users"), spec.get("seed", 0), spec.get("client_user", 0))
    c = certs() if transport in ("tls", "wss", "quic") else None

    cs = {"host": LOOPBACK, "port": server_port, "password": cred["client_password"], "protocol": protocol}
    sv = {"host": LOOPBACK, "port": server_port, "password": cred["server_password"], "protocol": protocol}
    if cipher is not None:
        cs["cipher"] = cipher
        sv["cipher"] = cipher
    if server_mode is not None:
        sv["mode"] = server_mode
    if cred["server_users"]:
        sv["user"] = cred["server_users"]
    if transport in ("tls", "wss"):
        cs["ssl"] = {"certificateFile": c["cert"], "serverName": "localhost"}
        sv["ssl"] = {"certificateFile": c["cert"], "keyFile": c["key"], "serverName": "localhost"}
    if transport in ("ws", "wss"):
        cs["ws"] = {"path": "/ws", "header": {"Host": "localhost"}}
        sv["ws"] = {"path": "/ws"}
    if transport == "quic":
        cs["quic"] = {"certificateFile": c["cert"], "serverName": "localhost"}
        sv["quic"] = {"certificateFile": c["cert"], "keyFile": c["key"], "serverName": "localhost"}
    cc = {"host": LOOPBACK, "port": client_port, "index": 0, "mode": client_mode,
          "logger": {"level": "debug"}, "servers": [cs]}
    extra = spec.get("extra") or {}
    _apply_overrides(cc, extra.get("client"))
    _apply_overrides(cs, extra.get("client_server"))
    _apply_overrides(sv, extra.get("server"))

    # what we wait for (documented behaviour)
    cm = cc.get("mode", "tcp")
    exp_client = {"tcp": cm in ("tcp", "tcp_and_udp"), "udp": cm in ("udp", "tcp_and_udp")}
    if protocol == "shadowsocks":
        sm = sv.get("mode", "tcp")
        exp_server = {"tcp": sm in ("tcp", "tcp_and_udp", "tcp_and_quic"),
                      "udp": sm in ("udp", "tcp_and_udp", "quic", "tcp_and_quic")}
    else:
        exp_server = {"tcp": True, "udp": "quic" in sv}
    exp = {"client": exp_client, "server": exp_server}
    if spec.get("expect_listen"):
        for w in ("client", "server"):
            exp[w].update(spec["expect_listen"].get(w, {}))
    # further raw entries: the server takes a LIST of configurations, the client a list of servers of which `index` selects one
    cc["servers"].extend(spec.get("more_client_servers") or [])
    return cc, [sv] + list(spec.get("more_servers") or []), exp


class Deployment:
    """One server + one client process for a spec (see build_configs).  Context manager.

    strict=True : raise DeploymentError when the documented sockets do not appear in time.
    strict=False: never raise for that; inspect .ready / .alive() / .listening() / .exit_codes().
    Infrastructure errors (port taken) are retried with fresh ports in both modes."""

    def __init__(self, spec, strict=True, ready_timeout=6.0, keep=False, start=True, settle=0.0):
        self.spec = dict(spec)
        self.strict = strict
        self.ready_timeout = ready_timeout
        self.keep = keep
        self.settle = settle
        self.client_port = self.server_port = None
        self.client = self.server = None
        self.client_pid = self.server_pid = None
        self.ready = False
        self.ready_detail = ""
        self.dir = None
        self.client_config = self.server_config = None
        self.expected = None
        self._stopped = False
        self._logf = []
        if start:
            self.start()

    # -- lifecycle ---------------------------------------------------------------------------
    def start(self):
        last = None
        for attempt in range(4):
            try:
                self._start_once()
                return self
            except InfraError as e:
                last = e
                self._teardown(remove=True)
                time.sleep(0.1 * (attempt + 1))
            except DeploymentError:
                raise
            except BaseException:
                self._teardown(remove=True)
                raise
        raise InfraError("deployment could not get free ports after retries: %s" % (last,))

    def _start_once(self):
        if _shutting_down[0]:
            raise T2Error("driver is shutting down")
        _ensure_cache()
        with _live_lock:
            _run_counter[0] += 1
            n = _run_counter[0]
        self.dir = "%s/run-%d-%d" % (CACHE, os.getpid(), n)
        os.makedirs(self.dir, exist_ok=True)
        self.client_port = free_port()
        self.server_port = free_port()
        cc, sc, exp = build_configs(self.spec, self.client_port, self.server_port)
        self.client_config, self.server_config, self.expected = cc, sc, exp
        with open(self.dir + "/client.json", "w") as f:
            json.dump(cc, f, indent=1)
        with open(self.dir + "/server.json", "w") as f:
            json.dump(sc, f, indent=1)
        self._stopped = False
        with _live_lock:
            _live.add(self)
        env = dict(os.environ)
        env["RUST_BACKTRACE"] = str(self.spec.get("rust_backtrace", "0"))
        env.pop("SSLKEYLOGFILE", None)
        slog = open(self.dir + "/server.log", "wb")
        self._logf.append(slog)
        self.server = self._spawn([SERVER_BIN, self.dir + "/server.json", "debug"], slog, env, "server")
        self.server_pid = self.server.pid
        ok_s, why_s = self._wait_listening("server", self.ready_timeout)
        clog = open(self.dir + "/client.log", "wb")
        self._logf.append(clog)
        self.client = self._spawn([CLIENT_BIN, self.dir + "/client.json"], clog, env, "client")
        self.client_pid = self.client.pid
        ok_c, why_c = self._wait_listening("client", self.ready_timeout)
        logs = self.logs()
        for w in ("server", "client"):
            t = logs[w]
            if "Address already in use" in t or "AddrInUse" in t:
                raise InfraError("%s: port already in use" % w)
        self.ready = ok_s and ok_c
        self.ready_detail = "; ".join(x for x in (why_s, why_c) if x)
        if self.settle:
            time.sleep(self.settle)
        if self.strict and not self.ready:
            tail = {w: logs[w][-800:] for w in logs}
            self._teardown(remove=not self.keep)
            e = DeploymentError("deployment not ready: %s; logs=%r" % (self.ready_detail, tail))
            e.ready_detail = self.ready_detail
            e.log_tails = tail
            raise e

    def _spawn(self, argv, log, env, which):
        # creation + registration are atomic w.r.t. _kill_all_live(): a process either is never
        # started or is reachable through a deployment in _live
        with _live_lock:
            if _shutting_down[0] or self._stopped:
                raise T2Error("driver is shutting down; not starting " + which)
            nofile = self.spec.get("%s_nofile" % which)
            if nofile:
                # prlimit execs the command, so the pid (and the process name) is the binary's own
                if shutil.which("prlimit"):
                    argv = ["prlimit", "--nofile=%d:%d" % (nofile, nofile), "--"] + list(argv)
                    p = subprocess.Popen(argv, stdin=subprocess.DEVNULL, stdout=log, stderr=subprocess.STDOUT, cwd=self.dir, env=env)
                else:
                    import resource
                    p = subprocess.Popen(argv, stdin=subprocess.DEVNULL, stdout=log, stderr=subprocess.STDOUT, cwd=self.dir, env=env,
                                         preexec_fn=lambda: resource.setrlimit(resource.RLIMIT_NOFILE, (nofile, nofile)))
            else:
                p = subprocess.Popen(argv, stdin=subprocess.DEVNULL, stdout=log, stderr=subprocess.STDOUT, cwd=self.dir, env=env)
            if which == "client":
                self.client = p
            else:
                self.server = p
            _live.add(self)
            return p

    def _proc(self, which):
        return self.client if which == "client" else self.server

    def _port(self, which):
        return self.client_port if which == "client" else self.server_port

    def _wait_listening(self, which, timeout):
        want = self.expected[which]
        port = self._port(which)
        proc = self._proc(which)
        end = time.monotonic() + (timeout if self.strict else min(timeout, 3.0))
        while True:
            l = listening_of_pid(proc.pid)
            ok = (not want["tcp"] or port in l["tcp"]) and (not want["udp"] or port in l["udp"])
            if ok:
                return True, ""
            if proc.poll() is not None:
                return False, "%s exited with code %s before listening" % (which, proc.returncode)
            if time.monotonic() >= end:
                return False, "%s does not listen as documented (want %s on port %d, has %s)" % (which, want, port, l)
            time.sleep(0.02)

    def stop(self):
        if self._stopped:
            return
        self._teardown(remove=not self.keep)

    def _teardown(self, remove):
        with _live_lock:
            self._stopped = True
        for p in (self.client, self.server):
            if p is not None and p.poll() is None:
                try:
                    p.terminate()
                except OSError:
                    pass
        for p in (self.client, self.server):
            if p is not None:
                try:
                    p.wait(timeout=2.0)
                except subprocess.TimeoutExpired:
                    try:
                        p.kill()
                    except OSError:
                        pass
                    try:
                        p.wait(timeout=5.0)
                    except subprocess.TimeoutExpired:
                        pass
        for f in self._logf:
            try:
                f.close()
            except Exception:
                pass
        self._logf = []
        with _live_lock:
            _live.discard(self)
        if remove and self.dir and os.path.isdir(self.dir):
            shutil.rmtree(self.dir, ignore_errors=True)

    def __enter__(self):
        return self

    def __exit__(self, *exc):
        self.stop()
        return False

    def restart(self, which, down=0.0, ready_timeout=None):
        """Stop the client or the server process (SIGTERM by stored PID) and start it again with the same
        configuration file and port, `down` seconds later.  The other process keeps running.
        -> {"old_pid", "new_pid", "exit_code", "listening_again": bool, "detail", "seconds"}"""
        t0 = time.monotonic()
        p = self._proc(which)
        old = p.pid if p is not None else None
        code = None
        if p is not None:
            if p.poll() is None:
                try:
                    p.terminate()
                except OSError:
                    pass
            try:
                code = p.wait(timeout=3.0)
            except subprocess.TimeoutExpired:
                try:
                    p.kill()
                except OSError:
                    pass
                code = p.wait(timeout=5.0)
        if down:
            time.sleep(down)
        env = dict(os.environ)
        env["RUST_BACKTRACE"] = str(self.spec.get("rust_backtrace", "0"))
        env.pop("SSLKEYLOGFILE", None)
        log = open("%s/%s.log" % (self.dir, which), "ab")
        self._logf.append(log)
        argv = [SERVER_BIN, self.dir + "/server.json", "debug"] if which == "server" else [CLIENT_BIN, self.dir + "/client.json"]
        ok, why = False, ""
        for _attempt in range(3):      # the port may still be held for an instant by the process that just died
            np = self._spawn(argv, log, env, which)
            if which == "server":
                self.server_pid = np.pid
            else:
                self.client_pid = np.pid
            ok, why = self._wait_listening(which, ready_timeout or self.ready_timeout)
            if ok or np.poll() is None:
                break
            time.sleep(0.3)
        return {"old_pid": old, "new_pid": self._proc(which).pid, "exit_code": code, "listening_again": ok, "detail": why,
                "seconds": round(time.monotonic() - t0, 2)}

    # -- observation -------------------------------------------------------------------------
    def alive(self):
        """(client_alive, server_alive)"""
        return (self.client is not None and self.client.poll() is None,
                self.server is not None and self.server.poll() is None)

    def exit_codes(self):
        """(client_exit_code_or_None, server_exit_code_or_None)"""
        return (self.client.poll() if self.client else None, self.server.poll() if self.server else None)

    def wait_exit(self, which, timeout):
        """Exit code of the process if it exits within timeout, else None."""
        p = self._proc(which)
        if p is None:
            return None
        try:
            return p.wait(timeout=timeout)
        except subprocess.TimeoutExpired:
            return None

    def logs(self):
        out = {}
        for w in ("client", "server"):
            try:
                with open("%s/%s.log" % (self.dir, w), "rb") as f:
                    out[w] = f.read().decode("utf-8", "replace")
            except OSError:
                out[w] = ""
        return out

    def log_tail(self, which, n=600):
        return self.logs()[which][-n:]

    def panicked(self):
        """{"client": bool, "server": bool}: does the log contain a Rust panic message."""
        l = self.logs()
        return {w: ("panicked at" in l[w]) for w in l}

    def fd_count(self, which):
        p = self._proc(which)
        try:
            return len(os.listdir("/proc/%d/fd" % p.pid))
        except (OSError, AttributeError):
            return None

    def listening(self, which):
        p = self._proc(which)
        if p is None or p.poll() is not None:
            return {"tcp": [], "udp": []}
        return listening_of_pid(p.pid)

    def fds(self, which):
        """{fd_number: description} of the process: readlink of /proc/<pid>/fd/*, sockets resolved to
        'tcp 127.0.0.1:1->127.0.0.1:2 ESTABLISHED' / 'udp 0.0.0.0:5' where /proc/net knows them."""
        p = self._proc(which)
        if p is None or p.poll() is not None:
            return {}
        return describe_fds(p.pid)

    def describe(self):
        return {"client_port": self.client_port, "server_port": self.server_port,
                "alive": self.alive(), "ready": self.ready, "ready_detail": self.ready_detail}


class ExtraClient:
    """A further client PROCESS attached to the server of an existing Deployment (several clients on one server,
    a second user, a client holding a wrong credential).  Context manager; stop it before the deployment.

    overrides: spec keys replacing those of dep.spec for this client only (client_user, client_mode, extra ...);
    client_server: shallow overrides of the client's server entry applied last (e.g. {"password": "..."}).
    Has .client_port, so probe_tcp / probe_udp / run_tcp_flow / open_app accept it in place of a Deployment."""
    _n = [0]

    def __init__(self, dep, overrides=None, client_server=None, strict=True, ready_timeout=6.0):
        self.dep = dep
        self.spec = dict(dep.spec)
        self.spec.update(overrides or {})
        extra = dict(self.spec.get("extra") or {})
        cs_over = dict(extra.get("client_server") or {})
        cs_over.update(client_server or {})
        extra["client_server"] = cs_over
        self.spec["extra"] = extra
        self.client = None
        self.client_pid = None
        self.client_port = None
        self.ready = False
        self.ready_detail = ""
        self._stopped = False
        self._log = None
        with _live_lock:
            ExtraClient._n[0] += 1
            self.tag = "client-x%d" % ExtraClient._n[0]
        last = None
        for attempt in range(4):
            try:
                self._start_once(strict, ready_timeout)
                return
            except InfraError as e:
                last = e
                self.stop()
                self._stopped = False
                time.sleep(0.1 * (attempt + 1))
        raise InfraError("extra client could not get a free port: %s" % (last,))

    def _start_once(self, strict, ready_timeout):
        self.client_port = free_port()
        cc, _sc, exp = build_configs(self.spec, self.client_port, self.dep.server_port)
        if "port" not in ((self.spec.get("extra") or {}).get("client_server") or {}):
            cc["servers"][0]["port"] = self.dep.client_config["servers"][0]["port"]   # same hop (forwarder) as the first client
        self.config = cc
        self.expected = exp["client"]
        path = "%s/%s.json" % (self.dep.dir, self.tag)
        with open(path, "w") as f:
            json.dump(cc, f, indent=1)
        env = dict(os.environ)
        env["RUST_BACKTRACE"] = "0"
        env.pop("SSLKEYLOGFILE", None)
        self._log = open("%s/%s.log" % (self.dep.dir, self.tag), "wb")
        with _live_lock:
            if _shutting_down[0] or self._stopped:
                raise T2Error("driver is shutting down")
            self.client = subprocess.Popen([CLIENT_BIN, path], stdin=subprocess.DEVNULL, stdout=self._log, stderr=subprocess.STDOUT,
                                           cwd=self.dep.dir, env=env)
            self.client_pid = self.client.pid
            _live.add(self)
        end = time.monotonic() + (ready_timeout if strict else min(ready_timeout, 3.0))
        want = self.expected
        while True:
            l = listening_of_pid(self.client.pid)
            if (not want["tcp"] or self.client_port in l["tcp"]) and (not want["udp"] or self.client_port in l["udp"]):
                self.ready = True
                break
            if self.client.poll() is not None:
                self.ready_detail = "extra client exited with code %s before listening" % self.client.returncode
                break
            if time.monotonic() >= end:
                self.ready_detail = "extra client does not listen as documented (want %s on port %d, has %s)" % (want, self.client_port, l)
                break
            time.sleep(0.02)
        t = self.log()
        if "Address already in use" in t or "AddrInUse" in t:
            raise InfraError("extra client: port already in use")
        if strict and not self.ready:
            tail = t[-800:]
            self.stop()
            e = DeploymentError("extra client not ready: %s; log=%r" % (self.ready_detail, tail))
            e.ready_detail = self.ready_detail
            e.log_tails = {"client": tail}
            raise e

    def alive(self):
        return self.client is not None and self.client.poll() is None

    def exit_code(self):
        return self.client.poll() if self.client else None

    def log(self):
        try:
            with open("%s/%s.log" % (self.dep.dir, self.tag), "rb") as f:
                return f.read().decode("utf-8", "replace")
        except OSError:
            return ""

    def panicked(self):
        return "panicked at" in self.log()

    def stop(self):
        with _live_lock:
            self._stopped = True
        p = self.client
        if p is not None:
            if p.poll() is None:
                try:
                    p.terminate()
                except OSError:
                    pass
            try:
                p.wait(timeout=2.0)
            except subprocess.TimeoutExpired:
                try:
                    p.kill()
                except OSError:
                    pass
                try:
                    p.wait(timeout=5.0)
                except subprocess.TimeoutExpired:
                    pass
        if self._log is not None:
            try:
                self._log.close()
            except Exception:
                pass
            self._log = None
        with _live_lock:
            _live.discard(self)

    def __enter__(self):
        return self

    def __exit__(self, *exc):
        self.stop()
        return False


# --------------------------------------------------------------------------------------------
# Conn: a recorded socket (used for target-side connections and for the local application)
# --------------------------------------------------------------------------------------------

class Conn:
    """Wraps a connected TCP socket.  A reader thread records every byte (in order) and the time
    of EOF / RST.  Only the reader thread ever closes the descriptor."""

    def __init__(self, sock, name="conn", on_data=None, on_open=None):
        self.sock = sock
        self.name = name
        try:
            self.peer = sock.getpeername()
        except OSError:
            self.peer = None
        self.opened_at = time.monotonic()
        self.data = bytearray()
        self.chunks = []          # (time, nbytes)
        self.eof_at = None        # peer's FIN seen
        self.rst_at = None        # connection reset / other socket error seen
        self.error = None
        self.closed_by_us_at = None
        self.sent = bytearray()
        self._cv = threading.Condition()
        self._want = None         # "close" | "reset"
        self._done = threading.Event()
        self._on_data = on_data
        self._on_open = on_open
        self._wr, self._ww = socket.socketpair()
        sock.setblocking(False)
        self._thr = threading.Thread(target=self._reader, name="t2-" + name, daemon=True)
        self._thr.start()

    # reader -----------------------------------------------------------------------------------
    def _reader(self):
        po = select.poll()
        po.register(self.sock.fileno(), select.POLLIN)
        po.register(self._wr.fileno(), select.POLLIN)
        reading = True
        try:
            if self._on_open:
                try:
                    self._on_open(self)
                except Exception as e:
                    self.error = "on_open: %r" % (e,)
            while True:
                if self._want:
                    break
                evs = po.poll(200)
                if self._want:
                    break
                for fd, _ev in evs:
                    if fd == self.sock.fileno() and reading:
                        try:
                            b = self.sock.recv(262144)
                        except (BlockingIOError, InterruptedError):
                            continue
                        except OSError as e:
                            with self._cv:
                                self.rst_at = time.monotonic()
                                self.error = "recv: %s" % (errno.errorcode.get(e.errno, e.errno),)
                                self._cv.notify_all()
                            reading = False
                            po.unregister(self.sock.fileno())
                            continue
                        now = time.monotonic()
                        with self._cv:
                            if b:
                                self.data += b
                                self.chunks.append((now, len(b)))
                            else:
                                self.eof_at = now
                                reading = False
                            self._cv.notify_all()
                        if not b:
                            po.unregister(self.sock.fileno())
                        elif self._on_data:
                            try:
                                self._on_data(self, b)
                            except Exception as e:
                                self.error = "on_data: %r" % (e,)
        finally:
            try:
                if self._want == "reset":
                    self.sock.setsockopt(socket.SOL_SOCKET, socket.SO_LINGER, struct.pack("ii", 1, 0))
                self.sock.close()
            except OSError:
                pass
            self._wr.close()
            self._ww.close()
            with self._cv:
                self._cv.notify_all()
            self._done.set()

    def _finish(self, how):
        if self._want is None:
            self._want = how
            self.closed_by_us_at = time.monotonic()
            try:
                self._ww.send(b"x")
            except OSError:
                pass
        if threading.current_thread() is not self._thr:
            self._done.wait(2.0)

    # actions ----------------------------------------------------------------------------------
    def send(self, data, timeout=DEFAULT_DEADLINE):
        """Send all of data or raise (TimeoutError / OSError).  Returns number of bytes."""
        view = memoryview(bytes(data))
        end = time.monotonic() + timeout
        total = 0
        po = None
        while len(view):
            if self._want:
                raise OSError("send on a connection we closed")
            try:
                n = self.sock.send(view[:262144])
                self.sent += view[:n]
                view = view[n:]
                total += n
            except (BlockingIOError, InterruptedError):
                rem = end - time.monotonic()
                if rem <= 0:
                    raise TimeoutError("send stalled after %d bytes" % total)
                if po is None:
                    po = select.poll()
                    po.register(self.sock.fileno(), select.POLLOUT)
                po.poll(int(min(rem, 0.5) * 1000) + 1)
        return total

    def shutdown_wr(self):
        try:
            self.sock.shutdown(socket.SHUT_WR)
        except OSError as e:
            self.error = "shutdown: %r" % (e,)

    def close(self):
        """Orderly close (FIN)."""
        self._finish("close")

    def reset(self):
        """Abortive close (SO_LINGER 0 -> RST)."""
        self._finish("reset")

    # waits ------------------------------------------------------------------------------------
    def wait_len(self, n, timeout=DEFAULT_DEADLINE):
        """Wait until at least n bytes were received (or the stream ended).  True if len>=n."""
        end = time.monotonic() + timeout
        with self._cv:
            while len(self.data) < n and self.eof_at is None and self.rst_at is None and not self._done.is_set():
                rem = end - time.monotonic()
                if rem <= 0:
                    break
                self._cv.wait(rem)
            return len(self.data) >= n

    def wait_end(self, timeout=DEFAULT_DEADLINE):
        """Wait for EOF or RST from the peer.  Returns "eof", "rst" or None (deadline)."""
        end = time.monotonic() + timeout
        with self._cv:
            while self.eof_at is None and self.rst_at is None and not self._done.is_set():
                rem = end - time.monotonic()
                if rem <= 0:
                    break
                self._cv.wait(rem)
            if self.eof_at is not None:
                return "eof"
            if self.rst_at is not None:
                return "rst"
            return None

    def wait_quiet(self, quiet=0.3, timeout=DEFAULT_DEADLINE):
        """Wait until no new bytes arrived for `quiet` seconds (or deadline)."""
        end = time.monotonic() + timeout
        last = -1
        t_last = time.monotonic()
        while time.monotonic() < end:
            n = len(self.data)
            if n != last:
                last, t_last = n, time.monotonic()
            elif time.monotonic() - t_last >= quiet:
                return True
            time.sleep(0.02)
        return False

    def received(self):
        with self._cv:
            return bytes(self.data)

    @property
    def ended(self):
        return self.eof_at is not None or self.rst_at is not None


# --------------------------------------------------------------------------------------------
# scripted targets
# --------------------------------------------------------------------------------------------

class TcpTarget:
    """Listening TCP server on 127.0.0.1 (own thread).  Each accepted connection becomes a Conn.

    mode: "manual"/"never" (record only; drive conn.send()/close()/reset() yourself)
          "echo"                          echo every chunk
          ("after", n, data, close)       once n bytes arrived send data, then close if close
          ("immediate", data, close)      send data on accept, then close if close
          "reset"                         RST right after accept
          ("reset_after", n)              RST once n bytes arrived
          callable(conn, chunk_or_None)   custom: called with None on accept, then per chunk"""

    def __init__(self, mode="manual", port=0, backlog=128, host=LOOPBACK):
        self.mode = mode
        self.host = host
        fam = socket.AF_INET6 if ":" in host else socket.AF_INET
        self.lsock = socket.socket(fam, socket.SOCK_STREAM)
        self.lsock.setsockopt(socket.SOL_SOCKET, socket.SO_REUSEADDR, 1)
        self.lsock.bind((host, port))
        self.lsock.listen(backlog)
        self.lsock.setblocking(False)
        self.port = self.lsock.getsockname()[1]
        self.addr = (host, self.port)
        self.conns = []
        self._cv = threading.Condition()
        self._stop = False
        self._thr = threading.Thread(target=self._acceptor, name="t2-tcptarget-%d" % self.port, daemon=True)
        self._thr.start()

    def _hooks(self):
        m = self.mode
        if callable(m):
            return (lambda c: m(c, None)), (lambda c, b: m(c, b))
        if m in ("manual", "never", None):
            return None, None
        if m == "echo":
            return None, (lambda c, b: c.send(b))
        if m == "reset":
            return (lambda c: c.reset()), None
        if isinstance(m, (tuple, list)):
            if m[0] == "immediate":
                def on_open(c, m=m):
                    c.send(m[1])
                    if len(m) > 2 and m[2]:
                        c.close()
                return on_open, None
            if m[0] == "after":
                def on_data(c, _b, m=m):
                    if len(c.data) >= m[1] and not getattr(c, "_fired", False):
                        c._fired = True
                        c.send(m[2])
                        if len(m) > 3 and m[3]:
                            c.close()
                return None, on_data
            if m[0] == "reset_after":
                def on_data2(c, _b, m=m):
                    if len(c.data) >= m[1]:
                        c.reset()
                return None, on_data2
        raise ValueError("unknown TcpTarget mode %r" % (m,))

    def _acceptor(self):
        po = select.poll()
        po.register(self.lsock.fileno(), select.POLLIN)
        while not self._stop:
            if not po.poll(200):
                continue
            try:
                s, _peer = self.lsock.accept()
            except (BlockingIOError, InterruptedError):
                continue
            except OSError:
                break
            on_open, on_data = self._hooks()
            with self._cv:
                c = Conn(s, name="tgt%d-%d" % (self.port, len(self.conns)), on_data=on_data, on_open=on_open)
                self.conns.append(c)
                self._cv.notify_all()
        try:
            self.lsock.close()
        except OSError:
            pass

    def count(self):
        with self._cv:
            return len(self.conns)

    def wait_conn(self, index=0, timeout=DEFAULT_DEADLINE):
        """The index-th accepted connection (Conn) or None at the deadline."""
        end = time.monotonic() + timeout
        with self._cv:
            while len(self.conns) <= index:
                rem = end - time.monotonic()
                if rem <= 0:
                    return None
                self._cv.wait(rem)
            return self.conns[index]

    def close(self):
        self._stop = True
        for c in list(self.conns):
            c.close()
        self._thr.join(1.0)

    def __enter__(self):
        return self

    def __exit__(self, *exc):
        self.close()
        return False


class UdpTarget:
    """UDP socket on 127.0.0.1 (own thread): records (payload, source, time) of every datagram and
    optionally echoes prefix+payload back to the source."""

    def __init__(self, echo=True, prefix=b"", port=0):
        self.echo = echo
        self.prefix = prefix
        self.sock = socket.socket(socket.AF_INET, socket.SOCK_DGRAM)
        try:
            self.sock.setsockopt(socket.SOL_SOCKET, socket.SO_RCVBUF, 4 * 1024 * 1024)
        except OSError:
            pass
        self.sock.bind((LOOPBACK, port))
        self.port = self.sock.getsockname()[1]
        self.addr = (LOOPBACK, self.port)
        self.received = []        # (payload, source, time)
        self._cv = threading.Condition()
        self._stop = False
        self.sock.settimeout(0.2)
        self._thr = threading.Thread(target=self._run, name="t2-udptarget-%d" % self.port, daemon=True)
        self._thr.start()

    def _run(self):
        while not self._stop:
            try:
                b, src = self.sock.recvfrom(70000)
            except socket.timeout:
                continue
            except OSError:
                if self._stop:
                    break
                continue
            with self._cv:
                self.received.append((b, src, time.monotonic()))
                self._cv.notify_all()
            if self.echo:
                try:
                    self.sock.sendto(self.prefix + b, src)
                except OSError:
                    pass
        try:
            self.sock.close()
        except OSError:
            pass

    def count(self):
        with self._cv:
            return len(self.received)

    def wait_count(self, n, timeout=DEFAULT_DEADLINE):
        end = time.monotonic() + timeout
        with self._cv:
            while len(self.received) < n:
                rem = end - time.monotonic()
                if rem <= 0:
                    break
                self._cv.wait(rem)
            return len(self.received) >= n

    def payloads(self):
        with self._cv:
            return [p for p, _s, _t in self.received]

    def close(self):
        self._stop = True
        self._thr.join(1.0)

    def __enter__(self):
        return self

    def __exit__(self, *exc):
        self.close()
        return False


# --------------------------------------------------------------------------------------------
# scripted local applications
# --------------------------------------------------------------------------------------------

def encode_socks5_addr(host, port, atyp=None):
    """ATYP ADDR PORT.  atyp: 1 ipv4, 3 domain, 4 ipv6 (None: 1 if dotted quad else 3)."""
    if atyp is None:
        try:
            socket.inet_aton(host)
            atyp = 1 if host.count(".") == 3 else 3
        except OSError:
            atyp = 3
    if atyp == 1:
        return b"\x01" + socket.inet_aton(host) + struct.pack(">H", port)
    if atyp == 4:
        return b"\x04" + socket.inet_pton(socket.AF_INET6, host) + struct.pack(">H", port)
    h = host.encode() if isinstance(host, str) else bytes(host)
    return b"\x03" + bytes([len(h) & 0xff]) + h + struct.pack(">H", port)


def decode_socks5_addr(b, off=0):
    """-> ((host, port), next_offset) or raises ValueError"""
    atyp = b[off]
    if atyp == 1:
        if len(b) < off + 7:
            raise ValueError("short ipv4 address")
        return (socket.inet_ntoa(b[off + 1:off + 5]), struct.unpack(">H", b[off + 5:off + 7])[0]), off + 7
    if atyp == 3:
        n = b[off + 1]
        if len(b) < off + 2 + n + 2:
            raise ValueError("short domain address")
        return (b[off + 2:off + 2 + n].decode("latin-1"), struct.unpack(">H", b[off + 2 + n:off + 4 + n])[0]), off + 4 + n
    if atyp == 4:
        if len(b) < off + 19:
            raise ValueError("short ipv6 address")
        return (socket.inet_ntop(socket.AF_INET6, b[off + 1:off + 17]), struct.unpack(">H", b[off + 17:off + 19])[0]), off + 19
    raise ValueError("bad atyp %d" % atyp)


def _connect_local(client_port, timeout):
    s = socket.socket(socket.AF_INET, socket.SOCK_STREAM)
    s.settimeout(timeout)
    s.setsockopt(socket.IPPROTO_TCP, socket.TCP_NODELAY, 1)
    s.connect((LOOPBACK, client_port))
    return s


def _recv_some(s, want, timeout, until=None):
    """Read until `want` bytes / `until` marker / EOF / deadline.  Never raises on timeout."""
    buf = b""
    end = time.monotonic() + timeout
    while len(buf) < want and (until is None or until not in buf):
        rem = end - time.monotonic()
        if rem <= 0:
            break
        s.settimeout(rem)
        try:
            b = s.recv(want - len(buf))
        except socket.timeout:
            break
        except OSError:
            break
        if not b:
            break
        buf += b
    return buf


def socks5_connect(client_port, host, port, atyp=None, segments=None, timeout=DEFAULT_DEADLINE):
    """SOCKS5 no-auth CONNECT handshake towards the client's local port.

    segments=None: canonical exchange (greeting, read 2 bytes, request, read reply).
    segments=[b"...", 0.05, b"...", ...]: send exactly these chunks (floats are pauses in seconds),
    blindly, then read whatever reply arrives (up to 2+10 bytes) within the deadline.
    Returns (socket, reply_bytes).  A good reply is 05 00 | 05 00 00 01 <ip4> <port>."""
    s = _connect_local(client_port, timeout)
    greeting = b"\x05\x01\x00"
    request = b"\x05\x01\x00" + encode_socks5_addr(host, port, atyp)
    reply = b""
    try:
        if segments is None:
            s.sendall(greeting)
            reply += _recv_some(s, 2, timeout)
            if len(reply) == 2:
                s.sendall(request)
                reply += _recv_some(s, 10, timeout)
        else:
            for seg in segments:
                if isinstance(seg, (int, float)):
                    time.sleep(seg)
                else:
                    s.sendall(seg)
            reply += _recv_some(s, 12, timeout)
    except OSError as e:
        reply += b""
        s._t2_error = repr(e)
    return s, reply


def socks5_handshake_bytes(host, port, atyp=None):
    """(greeting, request) byte strings, for building custom segmentations."""
    return b"\x05\x01\x00", b"\x05\x01\x00" + encode_socks5_addr(host, port, atyp)


def socks5_reply_ok(reply):
    return len(reply) >= 4 and reply[:2] == b"\x05\x00" and reply[2:4] == b"\x05\x00"


def http_connect(client_port, hostport, segments=None, timeout=DEFAULT_DEADLINE):
    """HTTP CONNECT handshake.  Returns (socket, reply_bytes) -- reply should start 'HTTP/1.1 200'."""
    s = _connect_local(client_port, timeout)
    req = ("CONNECT %s HTTP/1.1\r\nHost: %s\r\n\r\n" % (hostport, hostport)).encode()
    reply = b""
    try:
        if segments is None:
            s.sendall(req)
        else:
            for seg in segments:
                if isinstance(seg, (int, float)):
                    time.sleep(seg)
                else:
                    s.sendall(seg)
        reply = _recv_some(s, 4096, timeout, until=b"\r\n\r\n")
    except OSError as e:
        s._t2_error = repr(e)
    return s, reply


def http_plain_request(absolute_uri, body=b"", method="GET"):
    """The exact bytes http_plain() sends (and which the target must receive untouched)."""
    rest = absolute_uri.split("://", 1)[-1]
    hostport = rest.split("/", 1)[0]
    head = "%s %s HTTP/1.1\r\nHost: %s\r\n" % (method, absolute_uri, hostport)
    if body:
        head += "Content-Length: %d\r\n" % len(body)
    return head.encode() + b"\r\n" + bytes(body)


def http_plain(client_port, absolute_uri, body=b"", method="GET", timeout=DEFAULT_DEADLINE):
    """Plain HTTP proxy request: sends http_plain_request(...) in one write.  The proxy answers
    nothing itself (it forwards the request bytes to the target), so reply_bytes is b"".
    Returns (socket, b"")."""
    s = _connect_local(client_port, timeout)
    try:
        s.sendall(http_plain_request(absolute_uri, body, method))
    except OSError as e:
        s._t2_error = repr(e)
    return s, b""


def udp_app_socket():
    """A local application's UDP socket (bound on 127.0.0.1, big receive buffer)."""
    s = socket.socket(socket.AF_INET, socket.SOCK_DGRAM)
    try:
        s.setsockopt(socket.SOL_SOCKET, socket.SO_RCVBUF, 4 * 1024 * 1024)
    except OSError:
        pass
    s.bind((LOOPBACK, 0))
    return s


def socks5_udp_datagram(target_addr, payload, atyp=None, frag=0):
    return b"\x00\x00" + bytes([frag]) + encode_socks5_addr(target_addr[0], target_addr[1], atyp) + bytes(payload)


def socks5_udp_send(sock, client_port, target_addr, payload, atyp=None):
    """Send one SOCKS5-UDP datagram (00 00 00 ATYP ADDR PORT payload) to the client's UDP port."""
    return sock.sendto(socks5_udp_datagram(target_addr, payload, atyp), (LOOPBACK, client_port))


def socks5_udp_recv(sock, timeout=DEFAULT_DEADLINE):
    """-> ((host, port) label, payload) of the next datagram, or None at the deadline.
    A datagram that is not a well-formed SOCKS5-UDP datagram is returned as (None, raw_bytes)."""
    sock.settimeout(max(timeout, 0.0001))
    try:
        b, _src = sock.recvfrom(70000)
    except socket.timeout:
        return None
    except OSError:
        return None
    try:
        if len(b) < 4 or b[:3] != b"\x00\x00\x00":
            return None, b
        addr, off = decode_socks5_addr(b, 3)
        return addr, b[off:]
    except (ValueError, IndexError):
        return None, b


# --------------------------------------------------------------------------------------------
# TCP flow runner
# --------------------------------------------------------------------------------------------

def open_app(dep_or_port, handshake_kind, target_addr, timeout=DEFAULT_DEADLINE, path="/t2"):
    """Perform the local handshake of the given kind towards target_addr=(ip, port).
    -> (socket, reply_bytes, handshake_ok, relayed_prefix)  (relayed_prefix: bytes of the handshake
    that the proxy must forward to the target: the request itself for http_plain, else b"")"""
    port = dep_or_port.client_port if hasattr(dep_or_port, "client_port") else dep_or_port
    ip, tport = target_addr
    if handshake_kind == "socks5_ipv4":
        s, r = socks5_connect(port, ip, tport, 1, timeout=timeout)
        return s, r, socks5_reply_ok(r), b""
    if handshake_kind == "socks5_domain":
        s, r = socks5_connect(port, "localhost", tport, 3, timeout=timeout)
        return s, r, socks5_reply_ok(r), b""
    if handshake_kind == "http_connect":
        s, r = http_connect(port, "%s:%d" % (ip, tport), timeout=timeout)
        return s, r, r.startswith(b"HTTP/1.1 200"), b""
    if handshake_kind == "http_plain":
        uri = "http://%s:%d%s" % (ip, tport, path)
        s, r = http_plain(port, uri, timeout=timeout)
        return s, r, not hasattr(s, "_t2_error"), http_plain_request(uri)
    raise ValueError("unknown handshake kind %r" % (handshake_kind,))


def run_tcp_flow(dep, target, handshake_kind, script, deadline=DEFAULT_DEADLINE, dial_deadline=None):
    """Run one scripted TCP flow: local application -> client -> server -> target.

    target: a TcpTarget in "manual" mode (the script drives it) or any other mode.
    script steps:
      ("app_send", bytes) ("target_send", bytes) ("pause", seconds) ("drain",)
      ("app_close",) ("app_reset",) ("app_shutdown_wr",)
      ("target_close",) ("target_reset",) ("target_shutdown_wr",)
      ("wait_target_len", n) ("wait_app_len", n)
    "drain" waits (up to the deadline) until everything sent so far in both directions arrived.
    Returns the observation dict described in README.md.  Never raises for behaviour of the
    system under test; driver-side problems end up in obs["errors"]."""
    t0 = time.monotonic()
    obs = {"handshake_kind": handshake_kind, "handshake_reply": b"", "handshake_ok": False,
           "dialled": False, "target_connections": 0, "target_peer": None,
           "app_sent": b"", "target_sent": b"", "target_received": b"", "app_received": b"",
           "app_eof": False, "target_eof": False, "app_end": None, "target_end": None,
           "app_closed_first": None, "errors": [], "seconds": 0.0}
    base = target.count()
    app = None
    tconn = None
    app_sent = bytearray()
    tgt_sent = bytearray()
    dial_deadline = deadline if dial_deadline is None else dial_deadline
    app_closed = target_closed = False
    first_close = None

    def get_tconn(wait):
        nonlocal tconn
        if tconn is None:
            tconn = target.wait_conn(base, wait)
        return tconn

    try:
        try:
            s, reply, ok, prefix = open_app(dep, handshake_kind, target.addr, timeout=deadline)
        except OSError as e:
            obs["errors"].append("local connect failed: %r" % (e,))
            return obs
        obs["handshake_reply"] = reply
        obs["handshake_ok"] = ok
        app_sent += prefix
        if hasattr(s, "_t2_error"):
            obs["errors"].append("handshake io: " + s._t2_error)
        app = Conn(s, name="app")
        if not ok:
            obs["errors"].append("local handshake not completed (reply %s)" % reply[:32].hex())
        dead = not ok
        for step in script:
            op = step[0]
            if dead and op not in ("app_close", "target_close"):
                continue
            try:
                if op == "app_send":
                    app_sent += step[1]
                    app.send(step[1], timeout=max(deadline, len(step[1]) / 200000.0))
                elif op == "target_send":
                    c = get_tconn(dial_deadline)
                    if c is None:
                        obs["errors"].append("target_send: target never got a connection")
                        dead = True
                        continue
                    tgt_sent += step[1]
                    c.send(step[1], timeout=max(deadline, len(step[1]) / 200000.0))
                elif op == "pause":
                    time.sleep(step[1])
                elif op == "drain":
                    c = get_tconn(dial_deadline)
                    if c is None:
                        obs["errors"].append("drain: target never got a connection")
                        dead = True
                        continue
                    budget = max(deadline, (len(app_sent) + len(tgt_sent)) / 200000.0)
                    if not c.wait_len(len(app_sent), budget):
                        obs["errors"].append("drain: target has %d of %d bytes" % (len(c.data), len(app_sent)))
                        dead = True
                    if not app.wait_len(len(tgt_sent), budget):
                        obs["errors"].append("drain: app has %d of %d bytes" % (len(app.data), len(tgt_sent)))
                        dead = True
                elif op == "wait_target_len":
                    c = get_tconn(dial_deadline)
                    if c is None or not c.wait_len(step[1], deadline):
                        obs["errors"].append("wait_target_len %d not reached" % step[1])
                elif op == "wait_app_len":
                    if not app.wait_len(step[1], deadline):
                        obs["errors"].append("wait_app_len %d not reached" % step[1])
                elif op in ("app_close", "app_reset"):
                    (app.close if op == "app_close" else app.reset)()
                    app_closed = True
                    first_close = first_close or "app"
                elif op == "app_shutdown_wr":
                    app.shutdown_wr()
                    first_close = first_close or "app"
                elif op in ("target_close", "target_reset", "target_shutdown_wr"):
                    c = get_tconn(0 if dead else dial_deadline)
                    if c is None:
                        obs["errors"].append("%s: target never got a connection" % op)
                        continue
                    if op == "target_close":
                        c.close()
                        target_closed = True
                    elif op == "target_reset":
                        c.reset()
                        target_closed = True
                    else:
                        c.shutdown_wr()
                    first_close = first_close or "target"
                else:
                    obs["errors"].append("unknown step %r" % (op,))
            except (OSError, TimeoutError) as e:
                obs["errors"].append("%s: %r" % (op, e))
                dead = True
        # ---- final collection
        c = get_tconn(0 if dead else dial_deadline)
        if c is not None and not dead:
            budget = max(deadline, (len(app_sent) + len(tgt_sent)) / 200000.0)
            if not target_closed:
                c.wait_len(len(app_sent), budget)
            if not app_closed:
                app.wait_len(len(tgt_sent), budget)
        if first_close is not None:
            # after one side ended, the other side must see the end of the stream
            if not app_closed:
                app.wait_end(deadline if c is not None else 0.2)
            if c is not None and not target_closed:
                c.wait_end(deadline)

        def end_of(conn):
            # what the peer did, as far as it was seen before we closed ourselves
            if conn is None:
                return None
            if conn.eof_at is not None:
                return "eof"
            if conn.rst_at is not None:
                return "rst"
            return None
        obs["app_end"] = end_of(app)
        obs["target_end"] = end_of(c)
        obs["app_eof"] = obs["app_end"] == "eof"
        obs["target_eof"] = obs["target_end"] == "eof"
        obs["app_closed_first"] = (first_close == "app") if first_close else None
    finally:
        obs["app_sent"] = bytes(app_sent)
        obs["target_sent"] = bytes(tgt_sent)
        if app is not None:
            obs["app_received"] = app.received()
            if app.error:
                obs["errors"].append("app: " + app.error)
            app.close()
        n = target.count() - base
        obs["target_connections"] = n
        obs["dialled"] = n > 0
        if tconn is None and n > 0:
            tconn = target.wait_conn(base, 0)
        if tconn is not None:
            obs["target_peer"] = tconn.peer
            obs["target_received"] = tconn.received()
            tconn.close()
        obs["seconds"] = round(time.monotonic() - t0, 3)
    return obs


def check_transparent(obs, expect_app_eof=True, expect_target_eof=False):
    """The byte-transparency property on a run_tcp_flow observation -> (ok, detail)."""
    problems = []
    if obs["target_connections"] != 1:
        problems.append("target got %d connections (want 1)" % obs["target_connections"])
    if obs["target_received"] != obs["app_sent"]:
        d = first_diff(obs["target_received"], obs["app_sent"])
        problems.append("target_received %d bytes != app_sent %d bytes (first difference at offset %s)"
                        % (len(obs["target_received"]), len(obs["app_sent"]), d))
    if obs["app_received"] != obs["target_sent"]:
        d = first_diff(obs["app_received"], obs["target_sent"])
        problems.append("app_received %d bytes != target_sent %d bytes (first difference at offset %s)"
                        % (len(obs["app_received"]), len(obs["target_sent"]), d))
    if expect_app_eof and not obs["app_eof"]:
        problems.append("app saw no EOF after target closed (saw %s)" % obs["app_end"])
    if expect_target_eof and not obs["target_eof"]:
        problems.append("target saw no EOF after app closed (saw %s)" % obs["target_end"])
    if not obs["handshake_ok"]:
        problems.append("local handshake failed")
    return (not problems), "; ".join(problems)


def flow_observation(obs):
    """JSON-friendly copy of a run_tcp_flow observation (byte strings summarised)."""
    return jsonable(obs)


# --------------------------------------------------------------------------------------------
# UDP exchange runner
# --------------------------------------------------------------------------------------------

class UdpApp:
    """A local application's UDP socket with a recorder thread: .received = [(label, payload, time)]
    where label is the (host, port) the client wrote in the SOCKS5-UDP header (None if malformed)."""

    def __init__(self, name="app", by_name=False):
        self.name = name
        self.by_name = by_name    # address every target as "localhost" (ATYP 3) instead of 127.0.0.1
        self.sock = udp_app_socket()
        self.addr = self.sock.getsockname()
        self.received = []
        self.sent = []            # (target_addr, payload, time)
        self._cv = threading.Condition()
        self._stop = False
        self.sock.settimeout(0.2)
        self._thr = threading.Thread(target=self._run, name="t2-udpapp-" + name, daemon=True)
        self._thr.start()

    def _run(self):
        while not self._stop:
            try:
                b, _src = self.sock.recvfrom(70000)
            except socket.timeout:
                continue
            except OSError:
                if self._stop:
                    break
                continue
            label, payload = None, b
            try:
                if len(b) >= 4 and b[:3] == b"\x00\x00\x00":
                    label, off = decode_socks5_addr(b, 3)
                    if label is not None and label[0] == "localhost":
                        label = (LOOPBACK, label[1])      # a reply may name the target the way the application did
                    payload = b[off:]
            except (ValueError, IndexError):
                label, payload = None, b
            with self._cv:
                self.received.append((label, payload, time.monotonic()))
                self._cv.notify_all()
        try:
            self.sock.close()
        except OSError:
            pass

    def send(self, client_port, target_addr, payload, atyp=None):
        self.sent.append((tuple(target_addr), bytes(payload), time.monotonic()))
        if self.by_name and atyp is None and target_addr[0] == LOOPBACK:
            target_addr, atyp = ("localhost", target_addr[1]), 3
        try:
            return self.sock.sendto(socks5_udp_datagram(target_addr, payload, atyp), (LOOPBACK, client_port))
        except OSError as e:
            return e

    def count(self):
        with self._cv:
            return len(self.received)

    def wait_count(self, n, timeout=DEFAULT_DEADLINE):
        end = time.monotonic() + timeout
        with self._cv:
            while len(self.received) < n:
                rem = end - time.monotonic()
                if rem <= 0:
                    break
                self._cv.wait(rem)
            return len(self.received) >= n

    def close(self):
        self._stop = True
        self._thr.join(1.0)

    def __enter__(self):
        return self

    def __exit__(self, *exc):
        self.close()
        return False


class UdpAppSync:
    """UdpApp without a recorder thread (for scenarios with many applications): datagrams are read when the
    driver waits for them (wait_count) or asks (pump).  Same .send / .received / .count / .wait_count / .close."""

    def __init__(self, name="app", by_name=False):
        self.name = name
        self.by_name = by_name
        self.sock = udp_app_socket()
        self.sock.setblocking(False)
        self._po = select.poll()         # not select(): descriptor numbers above 1023 occur in a driver with many sockets
        self._po.register(self.sock.fileno(), select.POLLIN)
        self.addr = self.sock.getsockname()
        self.received = []
        self.sent = []

    def send(self, client_port, target_addr, payload, atyp=None):
        self.sent.append((tuple(target_addr), bytes(payload), time.monotonic()))
        if self.by_name and atyp is None and target_addr[0] == LOOPBACK:
            target_addr, atyp = ("localhost", target_addr[1]), 3
        try:
            return self.sock.sendto(socks5_udp_datagram(target_addr, payload, atyp), (LOOPBACK, client_port))
        except OSError as e:
            return e

    def pump(self, timeout=0.0):
        """read everything that is there (waiting at most `timeout` for the first datagram) -> number read"""
        n = 0
        while True:
            if not self._po.poll(int((timeout if n == 0 else 0) * 1000)):
                return n
            try:
                b, _src = self.sock.recvfrom(70000)
            except (BlockingIOError, InterruptedError):
                return n
            except OSError:
                return n
            label, payload = None, b
            try:
                if len(b) >= 4 and b[:3] == b"\x00\x00\x00":
                    label, off = decode_socks5_addr(b, 3)
                    if label is not None and label[0] == "localhost":
                        label = (LOOPBACK, label[1])
                    payload = b[off:]
            except (ValueError, IndexError):
                label, payload = None, b
            self.received.append((label, payload, time.monotonic()))
            n += 1

    def count(self):
        self.pump(0)
        return len(self.received)

    def wait_count(self, n, timeout=DEFAULT_DEADLINE):
        end = time.monotonic() + timeout
        while len(self.received) < n:
            rem = end - time.monotonic()
            if rem <= 0:
                break
            self.pump(min(rem, 0.2))
        return len(self.received) >= n

    def close(self):
        try:
            self.sock.close()
        except OSError:
            pass

    def __enter__(self):
        return self

    def __exit__(self, *exc):
        self.close()
        return False


def run_udp_plan(dep, apps, targets, rounds, round_timeout=1.0, final_wait=3.0, gap=0.003):
    """rounds: list of rounds; a round is a list of (app_index, target_index, payload).  All
    datagrams of a round are sent back to back (gap seconds apart); then the runner waits until
    every echo of the round came back or round_timeout expired (after 3 completely silent rounds
    it stops waiting per round).  Finally waits up to final_wait for stragglers.

    Returns {"sent": [(app, target, payload)], "target_received": [[payload, ...] per target],
             "target_sources": [[(ip, port), ...] per target],
             "app_received": [[(label, payload), ...] per app], "send_errors": [...], "seconds"}"""
    t0 = time.monotonic()
    sent = []
    errors = []
    silent_rounds = 0
    echoing = [t.echo for t in targets]
    for rnd in rounds:
        before_apps = [a.count() for a in apps]
        before_tgts = [t.count() for t in targets]
        want_app = collections.Counter()
        want_tgt = collections.Counter()
        for (ai, ti, payload) in rnd:
            r = apps[ai].send(dep.client_port, targets[ti].addr, payload)
            if isinstance(r, Exception):
                errors.append("app%d->target%d %d bytes: %r" % (ai, ti, len(payload), r))
            else:
                want_tgt[ti] += 1
                if echoing[ti]:
                    want_app[ai] += 1
            sent.append((ai, ti, bytes(payload)))
            if gap:
                time.sleep(gap)
        if silent_rounds < 3:
            end = time.monotonic() + round_timeout
            for ti, n in want_tgt.items():
                targets[ti].wait_count(before_tgts[ti] + n, max(0.0, end - time.monotonic()))
            for ai, n in want_app.items():
                apps[ai].wait_count(before_apps[ai] + n, max(0.0, end - time.monotonic()))
            progressed = any(a.count() > b for a, b in zip(apps, before_apps)) or \
                any(t.count() > b for t, b in zip(targets, before_tgts))
            silent_rounds = 0 if progressed else silent_rounds + 1
    # stragglers
    end = time.monotonic() + final_wait
    exp_t = collections.Counter(ti for _a, ti, _p in sent)
    exp_a = collections.Counter(ai for ai, ti, _p in sent if echoing[ti])
    while time.monotonic() < end:
        if all(targets[ti].count() >= n for ti, n in exp_t.items()) and all(apps[ai].count() >= n for ai, n in exp_a.items()):
            break
        time.sleep(0.05)
    time.sleep(0.15)  # anything extra (duplicates, strays) gets a moment to show up
    return {"sent": sent,
            "target_received": [[p for p, _s, _t in list(t.received)] for t in targets],
            "target_sources": [[s for _p, s, _t in list(t.received)] for t in targets],
            "app_received": [[(l, p) for l, p, _t in list(a.received)] for a in apps],
            "target_addrs": [t.addr for t in targets],
            "send_errors": errors, "seconds": round(time.monotonic() - t0, 3)}


def check_udp(obs, select=None, categories=None):
    """Datagram-preservation property on a run_udp_plan observation.

    select: optional predicate on payload length restricting which SENT datagrams are checked for
    delivery (strays are only reported when select is None).
    categories: optional set restricting which problem categories count ("missing", "dup",
    "stray", "foreign", "mislabelled", "malformed").
    -> (ok, detail, stats) where stats has delivered/replied/duplicate/... counts."""
    sent = obs["sent"]
    addrs = [tuple(a) for a in obs["target_addrs"]]
    pick = (lambda p: True) if select is None else (lambda p: select(len(p)))
    problems = []   # (category, message)
    stats = {"sent": 0, "delivered": 0, "replied": 0, "dup_at_target": 0, "dup_at_app": 0,
             "mislabelled": 0, "foreign_at_app": 0, "stray_at_target": 0, "stray_at_app": 0, "malformed_at_app": 0}
    # targets
    for ti in range(len(addrs)):
        want = collections.Counter(p for _a, t, p in sent if t == ti and pick(p))
        got = collections.Counter(p for p in obs["target_received"][ti] if pick(p))
        stats["sent"] += sum(want.values())
        for p, n in want.items():
            g = got.get(p, 0)
            stats["delivered"] += min(g, n)
            if g < n:
                problems.append(("missing", "target%d: %d-byte datagram not delivered" % (ti, len(p))))
            if g > n:
                stats["dup_at_target"] += g - n
                problems.append(("dup", "target%d: %d-byte datagram delivered %d times (want %d)" % (ti, len(p), g, n)))
        if select is None:
            for p, g in got.items():
                if p not in want:
                    stats["stray_at_target"] += g
                    problems.append(("stray", "target%d: unexpected %d-byte datagram (head %s)" % (ti, len(p), p[:10].hex())))
    # apps
    napps = len(obs["app_received"])
    all_sent_by = [collections.Counter((addrs[t], p) for a, t, p in sent if a == ai) for ai in range(napps)]
    for ai in range(napps):
        want = collections.Counter((addrs[t], p) for a, t, p in sent if a == ai and pick(p))
        got = collections.Counter()
        for label, p in obs["app_received"][ai]:
            if label is None:
                if select is None:
                    stats["malformed_at_app"] += 1
                    problems.append(("malformed", "app%d: malformed datagram of %d bytes" % (ai, len(p))))
                continue
            if pick(p):
                got[(tuple(label), p)] += 1
        for k, n in want.items():
            g = got.get(k, 0)
            stats["replied"] += min(g, n)
            if g < n:
                wrong = [l for (l, p), c in got.items() if p == k[1] and l != k[0] and (l, p) not in want]
                if wrong:
                    stats["mislabelled"] += 1
                    problems.append(("mislabelled", "app%d: %d-byte reply labelled %s instead of %s" % (ai, len(k[1]), wrong[0], k[0])))
                else:
                    problems.append(("missing", "app%d: %d-byte echo reply not received" % (ai, len(k[1]))))
            if g > n:
                stats["dup_at_app"] += g - n
                problems.append(("dup", "app%d: %d-byte reply delivered %d times (want %d)" % (ai, len(k[1]), g, n)))
        if select is None:
            for k, g in got.items():
                if k in all_sent_by[ai]:
                    continue
                owner = [o for o in range(napps) if o != ai and any(p == k[1] and len(p) > 0 for (_l, p) in all_sent_by[o])]
                if owner:
                    stats["foreign_at_app"] += g
                    problems.append(("foreign", "app%d: received app%d's %d-byte reply" % (ai, owner[0], len(k[1]))))
                elif not any(p == k[1] for (_l, p) in all_sent_by[ai]):
                    stats["stray_at_app"] += g
                    problems.append(("stray", "app%d: unexpected %d-byte datagram labelled %s" % (ai, len(k[1]), k[0])))
    if categories is not None:
        problems = [(c, m) for c, m in problems if c in categories]
    agg = collections.Counter(m for _c, m in problems)
    msgs = ["%s%s" % (m, " (x%d)" % n if n > 1 else "") for m, n in agg.items()]
    if len(msgs) > 10:
        msgs = msgs[:10] + ["... %d more kinds" % (len(msgs) - 10)]
    return (not problems), "; ".join(msgs), stats


def probe_tcp(dep, kind="socks5_ipv4", deadline=3.0, payload=b"t2-probe-request", answer=b"t2-probe-answer"):
    """One small TCP flow through the deployment -> observation with extra key "relayed"."""
    with TcpTarget() as tgt:
        obs = run_tcp_flow(dep, tgt, kind, [("app_send", payload), ("target_send", answer), ("drain",), ("target_close",)],
                           deadline=deadline)
    ok, detail = check_transparent(obs)
    obs["relayed"] = ok
    obs["relay_detail"] = detail
    return obs


def probe_udp(dep, deadline=2.0, payload=b"t2-udp-probe", repeat=2):
    """Send `repeat` datagrams (0.3 s apart) through the client's SOCKS5-UDP port to an echoing
    UdpTarget -> {"target_got": n, "replies": n, "labels_ok": bool, "payload_ok": bool, "relayed": bool}"""
    with UdpTarget() as tgt, UdpApp("probe") as app:
        for i in range(repeat):
            app.send(dep.client_port, tgt.addr, payload + b"-%d" % i)
            time.sleep(0.3)
        tgt.wait_count(repeat, deadline)
        app.wait_count(repeat, deadline)
        got = tgt.payloads()
        rec = list(app.received)
    want = [payload + b"-%d" % i for i in range(repeat)]
    return {"target_got": len(got), "replies": len(rec),
            "payload_ok": sorted(got) == sorted(want) and sorted(p for _l, p, _t in rec) == sorted(want),
            "labels_ok": all(l is not None and tuple(l) == tgt.addr for l, _p, _t in rec),
            "relayed": sorted(got) == sorted(want) and sorted(p for _l, p, _t in rec) == sorted(want)
            and all(l is not None and tuple(l) == tgt.addr for l, _p, _t in rec)}


# --------------------------------------------------------------------------------------------
# forwarders (a driver-controlled hop between the client and the server)
# --------------------------------------------------------------------------------------------

class TcpForwarder:
    """Transparent TCP hop: listens on .port; every accepted connection is connected to the upstream
    (set_upstream((host, port)), may be set after creation) and relayed both ways.  Records the bytes
    of each direction per connection.  cut() closes BOTH sockets of every live connection at once
    (orderly close by default, reset=True for RST).

    Put it between client and server with spec["extra"] = {"client_server": {"port": fwd.port}} and
    fwd.set_upstream((LOOPBACK, dep.server_port)) once the deployment is up."""

    def __init__(self, upstream=None, port=0):
        self.upstream = upstream
        self.lsock = socket.socket(socket.AF_INET, socket.SOCK_STREAM)
        self.lsock.setsockopt(socket.SOL_SOCKET, socket.SO_REUSEADDR, 1)
        self.lsock.bind((LOOPBACK, port))
        self.lsock.listen(256)
        self.lsock.settimeout(0.2)
        self.port = self.lsock.getsockname()[1]
        self.addr = (LOOPBACK, self.port)
        self.links = []          # dicts: {"down": sock, "up": sock, "c2s": bytearray, "s2c": bytearray, "open": bool}
        self.errors = []
        self._lock = threading.Lock()
        self._stop = False
        self._refuse = False
        self._blackhole = 0      # the next n accepted connections are held open and never connected upstream
        self.held = []
        self._thr = threading.Thread(target=self._acceptor, name="t2-tcpfwd-%d" % self.port, daemon=True)
        self._thr.start()

    def set_upstream(self, addr):
        self.upstream = tuple(addr)

    def _acceptor(self):
        while not self._stop:
            try:
                d, _peer = self.lsock.accept()
            except socket.timeout:
                continue
            except OSError:
                break
            if self._refuse or self.upstream is None:
                d.close()
                continue
            with self._lock:
                hole = self._blackhole > 0
                if hole:
                    self._blackhole -= 1
                    self.held.append(d)
            if hole:
                continue
            try:
                u = socket.create_connection(self.upstream, timeout=3.0)
            except OSError as e:
                self.errors.append("upstream connect: %r" % (e,))
                d.close()
                continue
            for x in (d, u):
                x.settimeout(0.25)     # the pumps wake up regularly, so that a cut with reset=True (no shutdown, hence no FIN) gets through to them
                x.setsockopt(socket.IPPROTO_TCP, socket.TCP_NODELAY, 1)
            link = {"down": d, "up": u, "c2s": bytearray(), "s2c": bytearray(), "open": True, "lock": threading.Lock()}
            with self._lock:
                self.links.append(link)
            threading.Thread(target=self._pump, args=(link, d, u, "c2s"), daemon=True).start()
            threading.Thread(target=self._pump, args=(link, u, d, "s2c"), daemon=True).start()
        try:
            self.lsock.close()
        except OSError:
            pass

    def _pump(self, link, src, dst, key):
        try:
            while True:
                try:
                    b = src.recv(65536)
                except socket.timeout:
                    if not link["open"]:
                        return
                    continue
                if not link["open"]:
                    return
                if not b:
                    break
                link[key] += b
                view = memoryview(b)
                while len(view):
                    try:
                        n = dst.send(view)       # send(): either some bytes go out or the wait for room times out with nothing sent
                        view = view[n:]
                    except socket.timeout:
                        if not link["open"]:
                            return
            try:
                dst.shutdown(socket.SHUT_WR)   # propagate the half close
            except OSError:
                pass
            with link["lock"]:
                link["done"] = link.get("done", 0) + 1
                both = link["done"] >= 2
            if both:
                self._close_link(link, False)
        except OSError:
            self._close_link(link, False)

    def _close_link(self, link, reset):
        with link["lock"]:
            if not link["open"]:
                return
            link["open"] = False
        for x in (link["down"], link["up"]):
            try:
                if reset:
                    x.setsockopt(socket.SOL_SOCKET, socket.SO_LINGER, struct.pack("ii", 1, 0))
                else:
                    x.shutdown(socket.SHUT_RDWR)  # wakes the pump threads blocked in recv
            except OSError:
                pass
            try:
                x.close()
            except OSError:
                pass

    def blackhole_next(self, n=1):
        """The next n accepted connections are accepted and then ignored: nothing is read, nothing answered, nothing
        connected upstream (a server that stalls).  They stay in .held until release_held() / close()."""
        with self._lock:
            self._blackhole += n

    def release_held(self, reset=False):
        with self._lock:
            held, self.held = self.held, []
            self._blackhole = 0
        for x in held:
            try:
                if reset:
                    x.setsockopt(socket.SOL_SOCKET, socket.SO_LINGER, struct.pack("ii", 1, 0))
                x.close()
            except OSError:
                pass
        return len(held)

    def relayed(self):
        """(bytes client->server, bytes server->client) summed over all connections"""
        with self._lock:
            return sum(len(l["c2s"]) for l in self.links), sum(len(l["s2c"]) for l in self.links)

    def live(self):
        with self._lock:
            return sum(1 for l in self.links if l["open"])

    def cut(self, reset=False, refuse_new=True):
        """Close both sockets of every live connection; returns how many links were cut."""
        self._refuse = refuse_new
        with self._lock:
            links = [l for l in self.links if l["open"]]
        for l in links:
            self._close_link(l, reset)
        return len(links)

    def close(self):
        self._stop = True
        self.cut()
        self.release_held()
        self._thr.join(1.0)

    def __enter__(self):
        return self

    def __exit__(self, *exc):
        self.close()
        return False


class UdpForwarder:
    """Transparent UDP hop: datagrams arriving on .port from a client address are re-sent to the
    upstream from a per-client socket, replies go back to that client.  .captured holds every
    client->server datagram as (payload, client_addr, time); .replies every server->client one."""

    def __init__(self, upstream=None, port=0, mangle_c2s=None, mangle_s2c=None):
        """mangle_c2s / mangle_s2c: optional callables (payload, running_index) -> list of payloads to forward in
        that order ([] drops the datagram, [p, p] duplicates it, holding one back and releasing it with the next one
        reorders).  .captured / .replies always record what ARRIVED at the hop."""
        self.upstream = upstream
        self.mangle_c2s, self.mangle_s2c = mangle_c2s, mangle_s2c
        self._n_c2s = self._n_s2c = 0
        self.sock = socket.socket(socket.AF_INET, socket.SOCK_DGRAM)
        try:
            self.sock.setsockopt(socket.SOL_SOCKET, socket.SO_RCVBUF, 4 * 1024 * 1024)
        except OSError:
            pass
        self.sock.bind((LOOPBACK, port))
        self.sock.settimeout(0.2)
        self.port = self.sock.getsockname()[1]
        self.addr = (LOOPBACK, self.port)
        self.captured = []
        self.replies = []
        self._ups = {}           # client addr -> upstream-facing socket
        self._stop = False
        self._lock = threading.Lock()
        self._thr = threading.Thread(target=self._run, name="t2-udpfwd-%d" % self.port, daemon=True)
        self._thr.start()

    def set_upstream(self, addr):
        self.upstream = tuple(addr)

    def _run(self):
        while not self._stop:
            try:
                b, src = self.sock.recvfrom(70000)
            except socket.timeout:
                continue
            except OSError:
                if self._stop:
                    break
                continue
            with self._lock:
                self.captured.append((b, src, time.monotonic()))
                u = self._ups.get(src)
                if u is None and self.upstream is not None:
                    u = socket.socket(socket.AF_INET, socket.SOCK_DGRAM)
                    try:
                        u.setsockopt(socket.SOL_SOCKET, socket.SO_RCVBUF, 4 * 1024 * 1024)
                    except OSError:
                        pass
                    u.bind((LOOPBACK, 0))
                    u.settimeout(0.2)
                    self._ups[src] = u
                    threading.Thread(target=self._back, args=(u, src), daemon=True).start()
                idx = self._n_c2s
                self._n_c2s += 1
            if u is not None:
                out = [b] if self.mangle_c2s is None else self.mangle_c2s(b, idx)
                for x in out:
                    try:
                        u.sendto(x, self.upstream)
                    except OSError:
                        pass
        try:
            self.sock.close()
        except OSError:
            pass

    def inject_to_client(self, payload, client_addr):
        """Send a datagram to a client address FROM the hop's own port (what the client takes for the server)."""
        try:
            return self.sock.sendto(payload, tuple(client_addr))
        except OSError as e:
            return e

    def _back(self, u, client):
        while not self._stop:
            try:
                b, _src = u.recvfrom(70000)
            except socket.timeout:
                continue
            except OSError:
                break
            with self._lock:
                self.replies.append((b, client, time.monotonic()))
                idx = self._n_s2c
                self._n_s2c += 1
            out = [b] if self.mangle_s2c is None else self.mangle_s2c(b, idx)
            for x in out:
                try:
                    self.sock.sendto(x, client)
                except OSError:
                    pass
        try:
            u.close()
        except OSError:
            pass

    def close(self):
        self._stop = True
        self._thr.join(1.0)

    def __enter__(self):
        return self

    def __exit__(self, *exc):
        self.close()
        return False


def tls_client_hello(server_name="localhost"):
    """The bytes of a genuine TLS ClientHello record (made with the ssl module, nothing is sent)."""
    import ssl
    ctx = ssl.SSLContext(ssl.PROTOCOL_TLS_CLIENT)
    ctx.check_hostname = False
    ctx.verify_mode = ssl.CERT_NONE
    inc, out = ssl.MemoryBIO(), ssl.MemoryBIO()
    o = ctx.wrap_bio(inc, out, server_hostname=server_name)
    try:
        o.do_handshake()
    except ssl.SSLWantReadError:
        pass
    return out.read()


# --------------------------------------------------------------------------------------------
# helpers shared by the suites
# --------------------------------------------------------------------------------------------

SETTINGS = {"workers": 8, "deadline": DEFAULT_DEADLINE}   # set by run_t2.main() from the command line


def wanted(name, only):
    """--only: a substring of the scenario name; several alternatives are separated by '|'"""
    return (not only) or any(o in name for o in only.split("|") if o)


# Defects of /repo that the dimension audit found and reported.  True = OPEN (not repaired yet): a problem tagged with the id - a
# tuple (id, text) in a problems list - is recorded in observed["open_defects"] instead of failing its scenario, so that the
# unchanged tree passes while the finding stays visible in every result file.  Set an id to False once /repo is repaired: that is
# the ONLY edit needed - from then on the same observation fails the scenario, with the property sentence in its detail.
# every defect below has been repaired in /repo (known_findings.json: F-02c, F-08f, F-11c, F-07n, F-16j, F-16k, F-16l): all switches are off,
# i.e. the observation FAILS the scenario again should the defect return
OPEN_DEFECTS = {
    "F-aud-1": False,
    "F-aud-2": False,
    "F-aud-3": False,
    "F-aud-4": False,
    "F-aud-5": False,
    "F-aud-6": False,
    "F-aud-7": False,
}
if os.environ.get("VERIF_T2_STRICT"):        # developer override: every switch off (e.g. VERIF_T2_STRICT=1 to see what still fails)
    OPEN_DEFECTS = {k: False for k in OPEN_DEFECTS}
DEFECTS = {   # id -> (what is wrong, the property sentence it violates)
    "F-aud-1": ("client, Shadowsocks UDP: a datagram too big to be sent to the server (EMSGSIZE) wedges the binding's UdpFramed sink; every later "
                "datagram of that application is lost",
                "C02: a datagram that a local application sends through the client's SOCKS5-UDP port reaches the addressed target as exactly one datagram"),
    "F-aud-2": ("client, UDP over a stream (Trojan): an answer too big to be handed to the application (EMSGSIZE) wedges the ONE sink towards all "
                "local applications; no application gets a reply any more",
                "C08: the client still relays datagrams for other, well-behaved users; C02: each reply returns to that same application as one datagram"),
    "F-aud-3": ("client, Shadowsocks 2022 UDP: one packet window per binding across server sessions; the replies of a NEW server session (association "
                "expired after 300 s idle, or server restarted) are dropped as duplicates until their ids exceed those of the old session",
                "C02: each reply returns to that same application as one datagram; C11: an ID is accepted if and only if it has not been accepted before"),
    "F-aud-4": ("client, Shadowsocks 2022 chacha UDP: udp.rs:222 reads the session id through an unaligned *const u64 (slice::from_raw_parts); after "
                "duplicated and reordered server->client datagrams the read buffer is misaligned and the debug build ABORTS the whole client "
                "process (undefined behaviour in a release build)",
                "C07: no network input can crash a task or the process; C08: the client still accepts new connections and relays datagrams for other users"),
    "F-aud-5": ("client: `index` beyond the `servers` list panics instead of stopping with an error",
                "C16: unknown or inconsistent values stop startup with an error rather than a panic"),
    "F-aud-7": ("client, VMess: a password that is not a UUID does not stop startup with an error (the client listens and every flow fails)",
                "C16: unknown or inconsistent values stop startup with an error rather than a panic or a silent fallback to different behaviour"),
    "F-aud-6": ("server, VMess: a user whose password is not a UUID does not stop startup with an error",
                "C16: unknown or inconsistent values stop startup with an error rather than a panic or a silent fallback to different behaviour"),
}
UNALIGNED_ABORT = "unsafe precondition(s) violated: slice::from_raw_parts"


def settle(problems, observed):
    """problems: list of str | (defect_id, str).  -> list of texts that FAIL the scenario; problems of defects that are still
    open go to observed["open_defects"] instead"""
    failing = []
    for pr in problems:
        if isinstance(pr, tuple):
            what, sentence = DEFECTS.get(pr[0], ("", ""))
            if OPEN_DEFECTS.get(pr[0]):
                observed.setdefault("open_defects", []).append({"id": pr[0], "observed": pr[1], "finding": what, "violates": sentence})
                continue
            pr = "%s [%s; violates %s]" % (pr[1], pr[0], sentence)
        failing.append(pr)
    return failing


def tails(dep, n=500):
    l = dep.logs()
    return {"client_log_tail": l["client"][-n:], "server_log_tail": l["server"][-n:]}


def process_state(dep):
    return {"alive": {"client": dep.alive()[0], "server": dep.alive()[1]},
            "exit_codes": {"client": dep.exit_codes()[0], "server": dep.exit_codes()[1]},
            "panicked": dep.panicked()}


def deploy_failed(names, spec, e):
    """Results (ok=False) for scenarios whose deployment did not come up."""
    why = getattr(e, "ready_detail", None) or str(e)
    observed = {"deployment_error": why, "log_tails": getattr(e, "log_tails", None) or str(e)[-1500:]}
    return [result(n, spec, {"deployment": "starts and listens as documented"}, observed, False,
                   "deployment did not come up: %s" % (why[:400],)) for n in names]


def canary(dep, udp=False, deadline=3.0, kind="socks5_ipv4"):
    """A fresh end-to-end check through the deployment: one SOCKS5 TCP flow (request, answer, target
    closes, app sees EOF) and, if udp, one pair of echoed datagrams from a fresh application socket.
    -> {"tcp": bool, "udp": bool|None, "tcp_detail": str, "udp_detail": dict|None, "ok": bool}"""
    t = probe_tcp(dep, kind=kind, deadline=deadline)
    out = {"tcp": bool(t["relayed"]), "tcp_detail": t["relay_detail"], "udp": None, "udp_detail": None}
    if udp:
        u = probe_udp(dep, deadline=deadline)
        out["udp"] = bool(u["relayed"])
        out["udp_detail"] = u
    out["ok"] = out["tcp"] and (out["udp"] is not False)
    return out


def health(dep, udp=False, deadline=3.0, when="afterwards"):
    """alive + no panic + canary -> (ok, problems list, observation dict)"""
    st = process_state(dep)
    c = canary(dep, udp=udp, deadline=deadline)
    problems = []
    for w in ("client", "server"):
        if not st["alive"][w]:
            problems.append("%s process died (exit code %s)" % (w, st["exit_codes"][w]))
        if st["panicked"][w]:
            problems.append("%s logged a panic" % w)
    if not c["tcp"]:
        problems.append("TCP canary failed %s: %s" % (when, c["tcp_detail"]))
    if udp and not c["udp"]:
        problems.append("UDP canary failed %s (target got %s, replies %s)" % (when, c["udp_detail"]["target_got"], c["udp_detail"]["replies"]))
    obs = dict(st, canary=c)
    return (not problems), problems, obs
