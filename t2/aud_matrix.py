"""Additional `matrix` scenarios from the dimension audit (seeded/audit/aud-t2a.md): traffic shapes, sizes around the
chunk limits, truly simultaneous bulk transfer, idle pauses, concurrency in the quick tier, several users and several
client processes on one server.  Every expectation is the C01 statement (exactly the requested target, every byte
exactly once, in order, unmodified; complete answer then EOF when the target closes after answering) applied per flow
(C09: each concurrent flow behaves as if it ran alone).

scenario = matrix/<protocol>/<cipher>/<transport>[+users]/<handshake>/<script>
"""
import threading
import time

import t2lib as T

SHAPES = ["sizes", "tiny_writes", "ping_pong", "duplex", "pauses", "concurrent8"]
BIG_COMBOS = ("shadowsocks/2022-blake3-aes-128-gcm/tcp", "shadowsocks/aes-256-gcm/ws", "vmess/aes-128-gcm/tcp", "trojan/-/tls",
              "vmess/chacha20-poly1305/quic")
BOUNDARY_SIZES = [16383, 16384, 16385, 65535, 65536, 65537]
EXPECT = {"property": "TCP relay byte-transparent", "target_connections": 1, "target_received": "== app_sent",
          "app_received": "== target_sent", "app_eof_after_target_close": True}


def _h(cname):
    return sum(cname.encode())


def shape_kind(cname, shape):
    """which local handshake a shape uses for a combination (rotates, so that every pair occurs over the matrix)"""
    h = _h(cname) + SHAPES.index(shape) if shape in SHAPES else _h(cname)
    if shape == "sizes":      # the first relayed write must be the big one: not http_plain (its request head comes first)
        return ["socks5_ipv4", "http_connect", "socks5_domain"][h % 3]
    return T.HANDSHAKE_KINDS[h % 4]


def shape_names(cname, tier):
    names = ["matrix/%s/%s/%s" % (cname, shape_kind(cname, s), _sname(s, tier)) for s in SHAPES]
    if cname in BIG_COMBOS or tier == "thorough":
        names.append("matrix/%s/socks5_ipv4/concurrent64" % cname)
    return names


def _sname(shape, tier):
    if shape == "duplex":
        return "duplex_%dmib" % (2 if tier == "quick" else 8)
    return shape


def script_for(shape, seed, label):
    def sb(tag, n):
        return T.seeded_bytes(seed, "%s/%s/%s" % (label, shape, tag), n)
    if shape == "sizes":
        steps = [("app_send", sb("first", 65537)), ("target_send", sb("tfirst", 65537)), ("drain",)]
        for n in BOUNDARY_SIZES:
            steps += [("app_send", sb("a%d" % n, n)), ("drain",), ("target_send", sb("t%d" % n, n)), ("drain",)]
        steps += [("target_close",)]
        return steps, ("the first write of each side is 65537 bytes (longer than any length field of 16 bits); then writes of %s bytes, "
                       "each drained before the next, in both directions; target closes last" % BOUNDARY_SIZES)
    if shape == "tiny_writes":
        a, t = sb("a", 1500), sb("t", 3000)
        steps = []
        for i in range(1500):
            steps.append(("app_send", a[i:i + 1]))
            steps.append(("target_send", t[2 * i:2 * i + 2]))
        steps += [("drain",), ("target_close",)]
        return steps, "1500 one-byte writes of the app interleaved with 1500 two-byte writes of the target, no waiting in between; target closes last"
    if shape == "ping_pong":
        steps = []
        for i in range(120):
            steps += [("app_send", sb("q%d" % i, 1 + (i * 37) % 300)), ("drain",), ("target_send", sb("r%d" % i, 1 + (i * 53) % 700)), ("drain",)]
        steps += [("target_close",)]
        return steps, "120 request/response round trips (requests of 1..300 bytes, answers of 1..700 bytes), each awaited; target closes last"
    if shape == "pauses":
        steps = [("app_send", sb("a1", 100)), ("drain",), ("pause", 1.2), ("target_send", sb("t1", 100)), ("drain",), ("pause", 1.2),
                 ("app_send", sb("a2", 5000)), ("target_send", sb("t2", 5000)), ("drain",), ("target_close",)]
        return steps, "100 bytes, 1.2 s of silence, 100 bytes back, 1.2 s of silence, 5000 bytes each way; target closes last"
    raise ValueError(shape)


def scripted(name, spec, dep, kind, shape, seed, label, deadline):
    steps, desc = script_for(shape, seed, label)
    with T.TcpTarget() as tgt:
        obs = T.run_tcp_flow(dep, tgt, kind, steps, deadline=deadline)
    ok, detail = T.check_transparent(obs)
    observed = T.flow_observation(obs)
    observed.update(T.process_state(dep))
    if not ok:
        observed.update(T.tails(dep))
    return T.result(name, dict(spec, handshake=kind, script=shape), dict(EXPECT, script=desc), observed, ok, detail)


def duplex_obs(dep, kind, a, b, deadline):
    """both directions at the same time: two threads write a (app->target) and b (target->app) concurrently"""
    obs = {"handshake_kind": kind, "handshake_reply": b"", "handshake_ok": False, "dialled": False, "target_connections": 0,
           "app_sent": b"", "target_sent": b"", "target_received": b"", "app_received": b"", "app_eof": False, "target_eof": False,
           "app_end": None, "target_end": None, "errors": [], "seconds": 0.0}
    t0 = time.monotonic()
    budget = max(deadline, (len(a) + len(b)) / 100000.0)
    with T.TcpTarget() as tgt:
        app = None
        try:
            s, reply, ok, prefix = T.open_app(dep, kind, tgt.addr, timeout=deadline)
            obs["handshake_reply"], obs["handshake_ok"] = reply, ok
            app = T.Conn(s, name="app-duplex")
            sent_a = bytes(prefix) + a
            obs["app_sent"] = sent_a
            obs["target_sent"] = b
            tconn = tgt.wait_conn(0, deadline)        # the tunnel is opened without the application having written a byte
            if tconn is None:
                obs["errors"].append("target never got a connection (the application had not written anything yet)")
            else:
                errs = []

                def pump(conn, data, who):
                    try:
                        conn.send(data, timeout=budget)
                    except (OSError, TimeoutError) as e:
                        errs.append("%s: %r" % (who, e))
                ths = [threading.Thread(target=pump, args=(app, a, "app"), daemon=True), threading.Thread(target=pump, args=(tconn, b, "target"), daemon=True)]
                for t in ths:
                    t.start()
                for t in ths:
                    t.join(budget + 5)
                obs["errors"].extend(errs)
                tconn.wait_len(len(sent_a), budget)
                app.wait_len(len(b), budget)
                tconn.close()
                obs["app_end"] = app.wait_end(deadline)
                obs["app_eof"] = obs["app_end"] == "eof"
                obs["target_received"] = tconn.received()
        except OSError as e:
            obs["errors"].append("driver/local: %r" % (e,))
        finally:
            if app is not None:
                obs["app_received"] = app.received()
                app.close()
            obs["target_connections"] = tgt.count()
            obs["dialled"] = tgt.count() > 0
    obs["seconds"] = round(time.monotonic() - t0, 3)
    return obs


def duplex(name, spec, dep, kind, mib, seed, label, deadline):
    n = mib << 20
    obs = duplex_obs(dep, kind, T.seeded_bytes(seed, label + "/dup-a", n), T.seeded_bytes(seed, label + "/dup-b", n), deadline)
    ok, detail = T.check_transparent(obs)
    observed = T.flow_observation(obs)
    observed.update(T.process_state(dep))
    if not ok:
        observed.update(T.tails(dep))
    desc = "%d MiB app->target and %d MiB target->app written AT THE SAME TIME (two threads), the tunnel being opened before the app wrote anything; target closes last" % (mib, mib)
    return T.result(name, dict(spec, handshake=kind, script="duplex_%dmib" % mib), dict(EXPECT, script=desc), observed, ok, detail)


def concurrent(name, spec, deps, kind, n, seed, label, deadline):
    """n flows at the same time, spread round-robin over the client processes in deps, each to its own target"""
    obs_list = [None] * n

    def one(i):
        a = T.seeded_bytes(seed, "%s/c%d-a%d" % (label, n, i), 9000 + 311 * i)
        b = T.seeded_bytes(seed, "%s/c%d-t%d" % (label, n, i), 7000 + 177 * i)
        steps = [("app_send", a[:10]), ("target_send", b[:10]), ("app_send", a[10:]), ("target_send", b[10:]), ("drain",), ("target_close",)]
        try:
            with T.TcpTarget() as tgt:
                obs_list[i] = T.run_tcp_flow(deps[i % len(deps)], tgt, kind, steps, deadline=deadline)
        except Exception as e:
            obs_list[i] = {"driver_exception": repr(e)}
    ths = [threading.Thread(target=one, args=(i,), daemon=True) for i in range(n)]
    for t in ths:
        t.start()
    for t in ths:
        t.join(deadline * 6 + 30)
    flows, bad = [], []
    for i, o in enumerate(obs_list):
        if not o or "driver_exception" in o:
            flows.append({"flow": i, "ok": False, "detail": "driver: %r" % (o,)})
            bad.append("flow%d: driver problem %r" % (i, o))
            continue
        ok, detail = T.check_transparent(o)
        if not ok or i < 4:
            flows.append({"flow": i, "ok": ok, "detail": detail, "app_sent": T.summarize(o["app_sent"]), "target_received": T.summarize(o["target_received"]),
                          "target_sent": T.summarize(o["target_sent"]), "app_received": T.summarize(o["app_received"]), "app_end": o["app_end"], "errors": o["errors"]})
        if not ok:
            bad.append("flow%d: %s" % (i, detail))
    observed = {"flows_total": n, "flows_failed": len(bad), "flows": flows[:12], "client_processes": len(deps)}
    return observed, bad


def concurrent_result(name, spec, dep, kind, n, seed, label, deadline):
    observed, bad = concurrent(name, spec, [dep], kind, n, seed, label, deadline)
    observed.update(T.process_state(dep))
    if bad:
        observed.update(T.tails(dep))
    expect = dict(EXPECT, script="%d concurrent flows with distinct data, each to its own target; each flow is transparent as if it ran alone" % n)
    return T.result(name, dict(spec, handshake=kind, script="concurrent%d" % n), expect, observed, not bad, "; ".join(bad)[:1500])


def shapes_job(spec, cname, tier, seed, only, deadline):
    """one deployment per combination; the `pauses` flow idles in its own thread while the other shapes run"""
    wanted = [n for n in shape_names(cname, tier) if T.wanted(n, only)]
    if not wanted:
        return []
    try:
        dep = T.Deployment(spec)
    except T.DeploymentError as e:
        return T.deploy_failed(wanted, spec, e)
    res = []
    with dep:
        label = cname + "/shapes"
        pause_res = []
        pth = None
        pname = "matrix/%s/%s/pauses" % (cname, shape_kind(cname, "pauses"))
        if pname in wanted:
            pth = threading.Thread(target=lambda: pause_res.append(scripted(pname, spec, dep, shape_kind(cname, "pauses"), "pauses", seed, label, deadline)), daemon=True)
            pth.start()
        for shape in SHAPES:
            if shape == "pauses":
                continue
            kind = shape_kind(cname, shape)
            name = "matrix/%s/%s/%s" % (cname, kind, _sname(shape, tier))
            if name not in wanted:
                continue
            if not all(dep.alive()):
                res.append(T.result(name, spec, EXPECT, T.process_state(dep), False, "a process of the deployment died in an earlier scenario of this combination"))
                continue
            if shape == "duplex":
                res.append(duplex(name, spec, dep, kind, 2 if tier == "quick" else 8, seed, label, deadline))
            elif shape == "concurrent8":
                res.append(concurrent_result(name, spec, dep, kind, 8, seed, label, deadline))
            else:
                res.append(scripted(name, spec, dep, kind, shape, seed, label, deadline))
        name = "matrix/%s/socks5_ipv4/concurrent64" % cname
        if name in wanted and all(dep.alive()):
            res.append(concurrent_result(name, spec, dep, "socks5_ipv4", 64, seed, label, max(deadline, 10.0)))
        if pth is not None:
            pth.join(deadline * 8 + 30)
            res.extend(pause_res or [T.result(pname, spec, EXPECT, {}, False, "driver: the pauses flow did not finish")])
    return res


# ------------------------------------------------------------------------------------------------
# several users, several client processes on one server
# ------------------------------------------------------------------------------------------------

USER_COMBOS = [("shadowsocks", "2022-blake3-aes-128-gcm", "tcp", ["u1", "u2"], 1),
               ("shadowsocks", "2022-blake3-aes-256-gcm", "ws", ["u1", "u2", "u3"], 0),
               ("vmess", "aes-128-gcm", "tcp", ["u1", "u2", "u3"], 2),
               ("vmess", "chacha20-poly1305", "tls", ["u1", "u2"], 1)]
TWO_CLIENT_COMBOS = [("shadowsocks", "aes-128-gcm", "tcp"), ("shadowsocks", "2022-blake3-chacha20-poly1305", "tls"), ("trojan", None, "wss"),
                     ("vmess", "aes-128-gcm", "quic")]


def users_names(p, c, t):
    cname = "%s/%s/%s+users" % (p, c or "-", t)
    return cname, ["matrix/%s/%s/mixed" % (cname, k) for k in ("socks5_ipv4", "http_connect")] + ["matrix/%s/socks5_ipv4/two_clients_two_users" % cname]


def users_job(p, c, t, users, client_user, seed, only, deadline, mixed_script):
    cname, names = users_names(p, c, t)
    wanted = [n for n in names if T.wanted(n, only)]
    if not wanted:
        return []
    spec = {"protocol": p, "cipher": c, "transport": t, "client_mode": "tcp", "seed": seed, "users": users, "client_user": client_user}
    try:
        dep = T.Deployment(spec)
    except T.DeploymentError as e:
        return T.deploy_failed(wanted, spec, e)
    res = []
    with dep:
        for k in ("socks5_ipv4", "http_connect"):
            name = "matrix/%s/%s/mixed" % (cname, k)
            if name not in wanted:
                continue
            steps, desc = mixed_script("%s/%s" % (cname, k))
            with T.TcpTarget() as tgt:
                obs = T.run_tcp_flow(dep, tgt, k, steps, deadline=deadline)
            ok, detail = T.check_transparent(obs)
            observed = T.flow_observation(obs)
            observed.update(T.process_state(dep))
            if not ok:
                observed.update(T.tails(dep))
            res.append(T.result(name, dict(spec, handshake=k, script="mixed"), dict(EXPECT, script=desc, server_user_table=users, client_is_user=users[client_user]),
                                observed, ok, detail))
        name = "matrix/%s/socks5_ipv4/two_clients_two_users" % cname
        if name in wanted:
            other = (client_user + 1) % len(users)
            try:
                with T.ExtraClient(dep, overrides={"client_user": other}) as c2:
                    observed, bad = concurrent(name, spec, [dep, c2], "socks5_ipv4", 8, seed, cname + "/two", deadline)
                    observed["second_client"] = {"user": users[other], "alive": c2.alive(), "panicked": c2.panicked()}
                    if not c2.alive():
                        bad.append("the second client process died")
                    if bad:
                        observed["second_client_log_tail"] = c2.log()[-500:]
            except T.DeploymentError as e:
                observed, bad = {"second_client_error": str(e)[:600]}, ["the second client (user %s) did not come up: %s" % (users[other], getattr(e, "ready_detail", e))]
            observed.update(T.process_state(dep))
            if bad:
                observed.update(T.tails(dep))
            expect = dict(EXPECT, script="two client PROCESSES, configured as users %s and %s of one server, run 4 flows each at the same time; each flow is transparent" % (users[client_user], users[other]))
            res.append(T.result(name, dict(spec, script="two_clients_two_users"), expect, observed, not bad, "; ".join(bad)[:1500]))
    return res


def two_clients_job(p, c, t, seed, only, deadline):
    cname = "%s/%s/%s" % (p, c or "-", t)
    name = "matrix/%s/socks5_ipv4/two_clients" % cname
    if not T.wanted(name, only):
        return []
    spec = {"protocol": p, "cipher": c, "transport": t, "client_mode": "tcp", "seed": seed}
    try:
        dep = T.Deployment(spec)
    except T.DeploymentError as e:
        return T.deploy_failed([name], spec, e)
    with dep:
        try:
            with T.ExtraClient(dep) as c2:
                observed, bad = concurrent(name, spec, [dep, c2], "socks5_ipv4", 8, seed, cname + "/two", deadline)
                observed["second_client"] = {"alive": c2.alive(), "panicked": c2.panicked()}
                if not c2.alive():
                    bad.append("the second client process died")
        except T.DeploymentError as e:
            observed, bad = {"second_client_error": str(e)[:600]}, ["the second client did not come up: %s" % (getattr(e, "ready_detail", e),)]
        observed.update(T.process_state(dep))
        if bad:
            observed.update(T.tails(dep))
        expect = dict(EXPECT, script="two client PROCESSES on one server run 4 flows each at the same time; each flow is transparent")
        return [T.result(name, dict(spec, script="two_clients"), expect, observed, not bad, "; ".join(bad)[:1500])]


def jobs(combos, tier, seed, only, deadline, mixed_script):
    """combos: [(protocol, cipher, transport)] of the matrix; mixed_script(label) -> (steps, description)"""
    out = []
    for (p, c, t) in combos:
        cname = "%s/%s/%s" % (p, c or "-", t)
        spec = {"protocol": p, "cipher": c, "transport": t, "client_mode": "tcp", "seed": seed}
        if any(T.wanted(n, only) for n in shape_names(cname, tier)):
            out.append(lambda spec=spec, cname=cname: shapes_job(spec, cname, tier, seed, only, deadline))
    for (p, c, t, users, cu) in USER_COMBOS:
        if any(T.wanted(n, only) for n in users_names(p, c, t)[1]):
            out.append(lambda p=p, c=c, t=t, users=users, cu=cu: users_job(p, c, t, users, cu, seed, only, deadline, mixed_script))
    for (p, c, t) in TWO_CLIENT_COMBOS:
        out.append(lambda p=p, c=c, t=t: two_clients_job(p, c, t, seed, only, deadline))
    return out
