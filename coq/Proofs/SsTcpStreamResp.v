(* The ANSWER direction of a Shadowsocks TCP tunnel as a byte stream (C01 capstone, server -> client):
   the server encodes the target's reads ts, one wire message per read (Model/EndToEnd.encode_msgs over ss_encode
   in Server mode); the concatenated wire is cut into ARBITRARY segments; the client decodes with
   Framed.run (ss_cdec P cxc now').  Never an error / panic / livelock, nothing is left in the buffer, and the
   items concatenate to concat ts.

     ss2022_response_stream     2022 kinds; the `first read` hypothesis first_read_ok is genuine (open_fixed
                                returns Err EShort when the salt is complete and the fixed header is not)
     sslegacy_response_stream   legacy kinds, no hypothesis on the segmentation

   Both are instances of head_then_chunks: a decoder that waits while a head is incomplete, crosses it in one
   poll and then behaves as the chunk unit machine (SsChunkCanon.crun).

   Goal 3: ss_encode_reads_enc_only / ss_decode_keeps_enc: the two directions of one connection do not
   interfere through the shared `codec` record. *)
From Coq Require Import List NArith ZArith Lia Bool Arith ZifyBool ZifyN ZifyNat.
From Octo Require Import Base.Bytes Crypto.Prims Model.NonceGen Model.SsChunk Model.Address Model.SsTcp Lib.Framed Lib.Canon Proofs.AddressFacts Proofs.SsChunkRoundtrip Proofs.SsChunkCanon Proofs.SsTcpSafety Proofs.SsTcpRoundtrip Model.EndToEnd.
Import ListNotations.  Open Scope N_scope.

(* ---------------------------------------------------------------------------------------------- *)
(* Goal 3: the encoder reads and writes cd_enc only; the decoder never touches cd_enc               *)
(* ---------------------------------------------------------------------------------------------- *)
Section SsCodecIndependence.
  Variable P : prims.

  Lemma ss_encode_reads_enc_only : forall cx now pad s cd cd2 item cd' w,
    cd_enc cd2 = cd_enc cd -> ss_encode P cx now pad s cd item = Ok (cd', w) ->
    ss_encode P cx now pad s cd2 item =
      Ok ({| cd_enc := cd_enc cd'; cd_dec := cd_dec cd2; cd_pending := cd_pending cd2 |}, w) /\
    cd_dec cd' = cd_dec cd /\ cd_pending cd' = cd_pending cd.
  Proof.
    intros cx now pad s cd cd2 item cd' w He. unfold ss_encode. rewrite He.
    destruct (cd_enc cd) as [a|].
    - destruct (encode_payload P a _ item) as [out a']. intros [= <- <-]. cbn [cd_enc cd_dec cd_pending]. auto.
    - match goal with |- bind ?X _ = _ -> _ => destruct X as [a| |] end; cbn [bind]; try discriminate.
      match goal with |- bind ?X _ = _ -> _ => destruct X as [[[h r] a1]| |] end; cbn [bind]; try discriminate.
      destruct (encode_payload P a1 _ r) as [out a2]. intros [= <- <-]. cbn [cd_enc cd_dec cd_pending]. auto.
  Qed.

  Lemma decode_body_keeps_enc s cd a st src s' cd' src' it :
    decode_body P s cd a st src = Ok (s', cd', src', it) -> cd_enc cd' = cd_enc cd.
  Proof.
    unfold decode_body.
    destruct (decode_payload P a st src) as [[[[a' st'] src1] dst]|e|]; cbn [bind]; try discriminate.
    destruct (s_mode s); [intros [= <- <- <- <-]; reflexivity|].
    destruct (s_addr s); [intros [= <- <- <- <-]; reflexivity|].
    destruct (s5_try_decode_at (cd_pending cd ++ dst) 0) as [[n|]|e|]; cbn [bind]; try discriminate;
      [|intros [= <- <- <- <-]; reflexivity].
    destruct (n <=? lenN (cd_pending cd ++ dst)); [|intros [= <- <- <- <-]; reflexivity].
    destruct (s5_decode (cd_pending cd ++ dst)) as [[ad rest]|e|]; cbn [bind]; try discriminate.
    intros [= <- <- <- <-]; reflexivity.
  Qed.

  Lemma ss_decode_keeps_enc : forall cx now cache s cd src cache' s' cd' src' it,
    ss_decode P cx now cache s cd src = (cache', Ok (s', cd', src', it)) -> cd_enc cd' = cd_enc cd.
  Proof.
    intros cx now cache s cd src cache' s' cd' src' it.
    destruct (cd_dec cd) as [[a st]|] eqn:ED.
    - rewrite (ss_decode_established P _ _ _ _ _ _ _ _ ED).
      destruct src as [|x t]; [intros [= <- <- <- <- <-]; reflexivity|].
      intros [= <- H]. exact (decode_body_keeps_enc _ _ _ _ _ _ _ _ _ H).
    - destruct (is_2022 (c_kind cx)) eqn:E22.
      + rewrite (ss_decode_2022 P _ _ _ _ _ _ ED E22).
        destruct (lenN src <? kind_n (c_kind cx)); [intros [= <- <- <- <- <-]; reflexivity|].
        intros EI. apply init_2022_ok_inv in EI. destruct EI as (a1 & s2 & len & after & _ & [H|H]).
        * destruct H as (_ & _ & _ & -> & _). reflexivity.
        * destruct H as (_ & _ & _ & H). apply open_var_inv in H.
          destruct H as (via & a2 & v & _ & -> & _). reflexivity.
      + rewrite (ss_decode_legacy P _ _ _ _ _ _ ED E22).
        destruct (lenN src <? kind_n (c_kind cx)); [intros [= <- <- <- <- <-]; reflexivity|].
        intros [= <- H]. revert H. unfold legacy_first. cbv zeta.
        destruct (new_auth_legacy P (c_kind cx) (c_key cx) (takeN (kind_n (c_kind cx)) src)) as [a|e|];
          cbn [bind]; try discriminate.
        destruct (dropN (kind_n (c_kind cx)) src) as [|b l]; [intros [= <- <- <- <-]; reflexivity|].
        intros H. apply decode_body_keeps_enc in H. exact H.
  Qed.
End SsCodecIndependence.

(* ---------------------------------------------------------------------------------------------- *)
(* P-independent helpers                                                                            *)
(* ---------------------------------------------------------------------------------------------- *)
(* a prefix p of x ++ y that is no longer than x is a prefix of x *)
Lemma prefix_of_shorter (p x y t : bytes) : x ++ y = p ++ t -> lenN p <= lenN x -> exists post, x = p ++ post.
Proof.
  intros E Hl. exists (dropN (lenN p) x). apply (prefix_split x p t y); [symmetry; exact E|exact Hl].
Qed.

(* one FramedRead poll with at most three decoder calls: an item, possibly a second one, then None *)
Lemma feed_some_opt_none St Item dec (s : St) buf seg s1 r1 (it1 : Item) s2 r2 it2 :
  buf ++ seg <> [] ->
  dec s (buf ++ seg) = Ok (s1, r1, Some it1) ->
  dec s1 r1 = Ok (s2, r2, it2) ->
  dec s2 r2 = Ok (s2, r2, None) ->
  Framed.feed St Item dec s buf seg = (s2, r2, it1 :: match it2 with Some i => [i] | None => [] end, Waiting).
Proof.
  intros Hne H1 H2 H3. unfold Framed.feed. cbv zeta. remember (buf ++ seg) as b eqn:Eb.
  destruct b as [|x t]; [congruence|].
  cbn [length Nat.add]. rewrite (drain_some _ _ _ _ _ _ _ _ _ _ H1). cbn [app].
  destruct it2 as [i|].
  - rewrite (drain_some _ _ _ _ _ _ _ _ _ _ H2). cbn [app]. rewrite (drain_none _ _ _ _ _ _ _ _ _ H3). reflexivity.
  - rewrite (drain_none _ _ _ _ _ _ _ _ _ H2). reflexivity.
Qed.

(* nothing arrives: nothing happens *)
Lemma run_all_empty St Item dec (s : St) : dec s [] = Ok (s, [], None) ->
  forall segs (acc : list Item), concat segs = [] -> Framed.run St Item dec s [] segs acc = (s, [], acc, Waiting).
Proof.
  intros Hd. induction segs as [|seg t IH]; intros acc Hc; [reflexivity|].
  cbn [concat] in Hc. apply app_eq_nil in Hc. destruct Hc as [-> Hc].
  cbn [Framed.run]. rewrite (feed_none St Item dec s [] [] s [] Hd). rewrite app_nil_r. apply IH. exact Hc.
Qed.

(* ---------------------------------------------------------------------------------------------- *)
(* The generic shape of both answer streams: a head, then a chunk stream                            *)
(* ---------------------------------------------------------------------------------------------- *)
Section HeadThenChunks.
  Variable P : prims.
  Hypothesis HL : prim_laws P.
  Variables (St : Type) (D : St -> bytes -> res (St * bytes * option bytes)).
  (* pre: the states in which the head has not been crossed; stC sd: established, chunk decoder in state sd;
     okc m: the arrival counts m < |head| at which a poll may happen *)
  Variables (pre : St -> Prop) (stC : state -> St) (okc : N -> Prop).
  Variables (head item1 : bytes) (sd0 : state).
  Hypothesis Hhead : 0 < lenN head.
  Hypothesis Hwf0 : wf sd0.
  (* while the head is incomplete the decoder keeps everything and waits *)
  Hypothesis Hwait : forall st src post, pre st -> head = src ++ post -> lenN src < lenN head -> okc (lenN src) ->
    exists st', D st src = Ok (st', src, None) /\ pre st'.
  (* the poll that completes the head: item1 comes out of the head, the rest is the chunk machine *)
  Hypothesis Hcross : forall st buf seg tl s2 r2 o2, pre st -> buf ++ seg = head ++ tl ->
    crun P sd0 tl = Stop s2 r2 o2 -> wf s2 ->
    exists items, Framed.feed _ _ D st buf seg = (stC s2, r2, items, Waiting) /\ concat items = item1 ++ o2.
  (* established: one call = one run of the unit machine *)
  Hypothesis HcallC : forall sd src s2 r2 o2, wf sd -> crun P sd src = Stop s2 r2 o2 ->
    D (stC sd) src = Ok (stC s2, r2, item_of o2).
  Variables (body : bytes) (sf : state) (rf out : bytes).
  Hypothesis Hbody : crun P sd0 body = Stop sf rf out.

  Lemma g_feed_C sd buf seg s2 r2 o2 : wf sd -> crun P sd (buf ++ seg) = Stop s2 r2 o2 ->
    Framed.feed _ _ D (stC sd) buf seg = (stC s2, r2, items_of o2, Waiting).
  Proof.
    intros Hwf E. pose proof (HcallC sd _ s2 r2 o2 Hwf E) as H1. destruct o2 as [|y ys].
    - apply feed_none. exact H1.
    - eapply feed_some_none; [exact H1|].
      apply (HcallC s2 r2 s2 r2 [] (crun_wf P HL _ _ _ _ _ Hwf E) (crun_stable P _ _ _ _ _ E)).
  Qed.

  Lemma g_body_prefix bpre bpost : body = bpre ++ bpost ->
    exists s1 r1 o1, crun P sd0 bpre = Stop s1 r1 o1 /\ wf s1.
  Proof.
    intros Eb. pose proof Hbody as H. rewrite Eb, crun_app in H.
    destruct (crun P sd0 bpre) as [s1 r1 o1|o1] eqn:E1; [|discriminate].
    exists s1, r1, o1. split; [reflexivity|]. exact (crun_wf P HL sd0 _ _ _ _ Hwf0 E1).
  Qed.

  (* where the FramedRead loop stands after the transport delivered `consumed` *)
  Definition g_inv (consumed : bytes) (st : St) (buf : bytes) (acc : list bytes) : Prop :=
    (lenN consumed < lenN head /\ pre st /\ buf = consumed /\ acc = []) \/
    (exists bpre sd o, consumed = head ++ bpre /\ crun P sd0 bpre = Stop sd buf o /\ wf sd /\
                       st = stC sd /\ concat acc = item1 ++ o).

  Lemma g_step consumed st buf acc seg post :
    g_inv consumed st buf acc -> head ++ body = (consumed ++ seg) ++ post ->
    (lenN (consumed ++ seg) < lenN head -> okc (lenN (consumed ++ seg))) ->
    exists st' buf' items,
      Framed.feed _ _ D st buf seg = (st', buf', items, Waiting) /\ g_inv (consumed ++ seg) st' buf' (acc ++ items).
  Proof.
    intros [(Hc & Hpre & -> & ->) | (bpre & sd & o & -> & E & Hwf & -> & Hacc)] Hpost Hok.
    - destruct (N.lt_ge_cases (lenN (consumed ++ seg)) (lenN head)) as [Hlt|Hge].
      + destruct (prefix_of_shorter (consumed ++ seg) head body post Hpost (N.lt_le_incl _ _ Hlt)) as [hp Hhp].
        destruct (Hwait st (consumed ++ seg) hp Hpre Hhp Hlt (Hok Hlt)) as (st' & HD & Hpre').
        exists st', (consumed ++ seg), []. split; [apply feed_none; exact HD|]. left. auto.
      + pose proof (prefix_split (consumed ++ seg) head body post Hpost Hge) as Hsp.
        set (bpre := dropN (lenN head) (consumed ++ seg)) in *.
        assert (Eb : body = bpre ++ post).
        { rewrite Hsp, <- app_assoc in Hpost. apply app_inv_head in Hpost. exact Hpost. }
        destruct (g_body_prefix bpre post Eb) as (s2 & r2 & o2 & E2 & Hwf2).
        destruct (Hcross st consumed seg bpre s2 r2 o2 Hpre Hsp E2 Hwf2) as (items & HF & Hci).
        exists (stC s2), r2, items. split; [exact HF|]. right. exists bpre, s2, o2. cbn [app]. auto 10.
    - rewrite <- !app_assoc in Hpost. apply app_inv_head in Hpost. rewrite app_assoc in Hpost.
      destruct (g_body_prefix (bpre ++ seg) post Hpost) as (s2 & r2 & o' & E2 & Hwf2).
      pose proof E2 as E2'. rewrite crun_app, E in E2'.
      destruct (crun P sd (buf ++ seg)) as [s2' r2' o2|o2] eqn:E3; [|discriminate].
      injection E2' as -> -> <-. rewrite <- app_assoc.
      eexists _, _, _. split; [apply (g_feed_C sd buf seg s2 r2 o2 Hwf E3)|].
      right. exists (bpre ++ seg), s2, (o ++ o2). split; [reflexivity|]. split; [exact E2|].
      split; [exact Hwf2|]. split; [reflexivity|].
      rewrite concat_app, concat_items_of, Hacc. symmetry. apply app_assoc.
  Qed.

  Lemma g_run segs : forall consumed st buf acc post,
    g_inv consumed st buf acc -> head ++ body = (consumed ++ concat segs) ++ post ->
    Forall (fun m => m < lenN head -> okc m) (arrivals (lenN consumed) segs) ->
    exists st' buf' items,
      Framed.run _ _ D st buf segs acc = (st', buf', items, Waiting) /\ g_inv (consumed ++ concat segs) st' buf' items.
  Proof.
    induction segs as [|seg t IH]; intros consumed st buf acc post Hinv Hpost Harr.
    - cbn [concat Framed.run]. rewrite app_nil_r. exists st, buf, acc. auto.
    - cbn [concat] in *. rewrite (app_assoc consumed) in Hpost.
      cbn [arrivals] in Harr. rewrite <- lenN_app in Harr. inversion Harr as [|m l Hm Hrest]; subst m l.
      assert (Hpost1 : head ++ body = (consumed ++ seg) ++ (concat t ++ post))
        by (rewrite Hpost, <- !app_assoc; reflexivity).
      destruct (g_step consumed st buf acc seg _ Hinv Hpost1 Hm) as (st1 & buf1 & items1 & HF & Hinv1).
      cbn [Framed.run]. rewrite HF.
      destruct (IH (consumed ++ seg) st1 buf1 (acc ++ items1) post Hinv1 Hpost Hrest) as (st' & buf' & items & HR & Hinv').
      exists st', buf', items. split; [exact HR|]. rewrite (app_assoc consumed). exact Hinv'.
  Qed.

  (* ANY segmentation of head ++ body whose polls before the end of the head happen at allowed counts *)
  Theorem head_then_chunks : forall segs st0, pre st0 -> concat segs = head ++ body ->
    Forall (fun m => m < lenN head -> okc m) (arrivals 0 segs) ->
    exists items, Framed.run _ _ D st0 [] segs [] = (stC sf, rf, items, Waiting) /\ concat items = item1 ++ out.
  Proof.
    intros segs st0 Hpre Hc Harr.
    assert (Hinit : g_inv [] st0 [] []) by (left; rewrite lenN_nil; auto).
    destruct (g_run segs [] st0 [] [] [] Hinit) as (st' & buf' & items & HR & Hinv).
    { cbn [app]. rewrite app_nil_r. symmetry. exact Hc. }
    { rewrite lenN_nil. exact Harr. }
    cbn [app] in Hinv. rewrite Hc in Hinv.
    destruct Hinv as [(Hlt & _) | (bpre & sd & o & Eb & E & Hwf & -> & Hacc)].
    { rewrite lenN_app in Hlt. lia. }
    apply app_inv_head in Eb. subst bpre. rewrite Hbody in E. injection E as <- <- <-.
    exists items. auto.
  Qed.
End HeadThenChunks.

Section SsTcpStreamResp.
  Variable P : prims.
  Hypothesis HL : prim_laws P.
  Hypothesis Hb3 : forall c m, lenN (p_b3derive P c m) = 32.
  Hypothesis Hhk : forall i s info n, lenN (p_hkdf_sha1 P i s info n) = n.

  (* ------------------------------------------------------------------------------------------ *)
  (* shared by the two editions                                                                   *)
  (* ------------------------------------------------------------------------------------------ *)
  (* the messages of later writes, once the encoder is established: a chunk stream *)
  Lemma encode_msgs_established cx now s : forall ws cd ae, cd_enc cd = Some ae ->
    exists cd' msgs ae',
      encode_msgs (fun cd w => ss_encode P cx now [] s cd w) cd ws = Ok (cd', msgs) /\ cd_enc cd' = Some ae' /\
      crun P (ae, DLen) (concat msgs) = Stop (ae', DLen) [] (concat ws).
  Proof.
    induction ws as [|w t IH]; intros cd ae He.
    - exists cd, [], ae. split; [reflexivity|]. split; [exact He|]. apply crun_nil.
    - cbn [encode_msgs concat]. rewrite (ss_encode_established P cx now [] s cd ae w He). cbn [bind].
      set (out1 := fst (encode_payload P ae (plimit (c_kind cx)) w)).
      set (a1 := snd (encode_payload P ae (plimit (c_kind cx)) w)).
      destruct (IH {| cd_enc := Some a1; cd_dec := cd_dec cd; cd_pending := cd_pending cd |} a1 eq_refl)
        as (cd' & ms & ae' & H1 & H2 & H5).
      rewrite H1. cbn [bind]. exists cd', (out1 :: ms), ae'. split; [reflexivity|]. split; [exact H2|].
      cbn [concat]. rewrite crun_app. subst out1. rewrite (crun_encode_payload P HL ae _ w (plimit_ok _)).
      cbn [app]. fold a1. rewrite H5. reflexivity.
  Qed.

  (* one call of the established client-side decoder = one run of the unit machine *)
  Lemma client_call_C cx now c s e p sd src s2 r2 o2 : s_mode s = Client -> wf sd -> crun P sd src = Stop s2 r2 o2 ->
    fdec P cx now (c, s, {| cd_enc := e; cd_dec := Some sd; cd_pending := p |}) src =
      Ok ((c, s, {| cd_enc := e; cd_dec := Some s2; cd_pending := p |}), r2, item_of o2).
  Proof.
    intros Hm Hwf E. destruct src as [|x xs].
    - rewrite crun_nil in E. injection E as <- <- <-. apply fdec_nil.
    - destruct sd as [a1 st1]. apply fdec_ok.
      rewrite (ss_decode_some P cx now c s _ a1 st1 (x :: xs)); [|discriminate|reflexivity].
      pose proof (decode_payload_of_crun P HL a1 st1 (x :: xs) s2 r2 o2 Hwf E) as Hd.
      rewrite (decode_body_client P s _ _ _ _ _ _ _ _ Hm Hd). destruct s2 as [a2 st2]. reflexivity.
  Qed.

  (* ------------------------------------------------------------------------------------------ *)
  (* 2022                                                                                         *)
  (* ------------------------------------------------------------------------------------------ *)
  (* the salt and the fixed header are buffered, the variable header part is not: the decoder keeps the
     buffer, leaves the cache alone and waits (only s_req_salt of the session changes) *)
  Lemma init_2022_wait cx now cache s cd salt a0 ts rs len after :
    lenN salt = kind_n (c_kind cx) -> mem_salt cache salt = false -> s_mode s = Client ->
    new_auth_2022 P (c_kind cx) (c_key cx) salt = Ok a0 ->
    lenN rs = kind_n (c_kind cx) -> ts < 2^64 -> validate_timestamp now ts = true -> len < 65536 ->
    bytes_eqb rs (s_salt s) = true -> lenN after < len + TAG ->
    init_2022 P cx now cache s cd (salt ++ sealed P a0 ([1] ++ put_u64 ts ++ rs ++ put_u16 len) ++ after) =
      (cache, Ok (set_req_salt s (Some salt), cd,
                  salt ++ sealed P a0 ([1] ++ put_u64 ts ++ rs ++ put_u16 len) ++ after, None)).
  Proof.
    intros Hs Hc Hm Ha Hrs Hts Hv Hlen Hecho Hshort. unfold init_2022.
    rewrite (open_fixed_gen P HL Hb3 Hhk cx now cache s salt a0 1 ts rs len after Hs Hc (or_introl Hm) Ha);
      try assumption; try (rewrite Hm; try reflexivity; assumption).
    rewrite Hm, Hecho. destruct (N.ltb_spec (lenN after) (len + TAG)); [reflexivity|lia].
  Qed.

  Section Resp2022.
    Variables (k : kind) (key ssalt csalt : bytes) (now now' : N) (cache : list bytes)
              (ik ikc : list bytes) (cu cuc : option (list user)) (su : option user) (sad cad : option addr)
              (creq : option bytes) (cuser : option user) (a0 : auth) (item : bytes).
    Hypothesis Hk : is_2022 k = true.
    Hypothesis Hss : lenN ssalt = kind_n k.
    Hypothesis Hcs : lenN csalt = kind_n k.
    Hypothesis Hnow : now < 2^64.
    Hypothesis Hclock : abs_diff now' now <= 30.
    Hypothesis Hfresh : mem_salt cache ssalt = false.

    Let skey := match su with Some u => u_key u | None => key end.
    Hypothesis Ha0 : new_auth_2022 P k skey ssalt = Ok a0.

    Let cxs := {| c_kind := k; c_key := key; c_ikeys := ik; c_users := cu |}.
    Let ssess := {| s_mode := Server; s_salt := ssalt; s_req_salt := Some csalt; s_user := su; s_addr := sad |}.
    Let cxc := {| c_kind := k; c_key := skey; c_ikeys := ikc; c_users := cuc |}.
    Let cs (rq : option bytes) := {| s_mode := Client; s_salt := csalt; s_req_salt := rq; s_user := cuser; s_addr := cad |}.
    Let item1 := takeN 65535 item.
    Let a2 := auth_step (auth_step a0).
    Let FX := sealed P a0 ([1] ++ put_u64 now ++ csalt ++ put_u16 (lenN item1)).
    Let VH := sealed P (auth_step a0) item1.
    Let head := ssalt ++ FX ++ VH.
    Let n := kind_n k.
    Let hl := 1 + 8 + kind_n k + 2 + 16.
    Let D := fdec P cxc now'.
    Let pre (st : fstate) : Prop := exists rq, st = (cache, cs rq, codec_new).
    Let stC (sd : state) : fstate :=
      (ssalt :: cache, cs (Some ssalt), {| cd_enc := None; cd_dec := Some sd; cd_pending := [] |}).
    Let okc (m : N) : Prop := m < n \/ n + hl <= m.

    Lemma r_len_FX : lenN FX = hl.
    Proof.
      unfold FX, hl. rewrite (lenN_sealed P HL). rewrite !lenN_app, lenN_put_u16. unfold put_u64; rewrite lenN_put_be.
      rewrite lenN_cons, lenN_nil, Hcs. lia.
    Qed.
    Lemma r_len_VH : lenN VH = lenN item1 + 16.
    Proof. unfold VH. apply (lenN_sealed P HL). Qed.
    Lemma r_len_head : lenN head = n + hl + lenN item1 + 16.
    Proof. unfold head. rewrite !lenN_app, r_len_FX, r_len_VH, Hss. fold n. lia. Qed.
    Lemma r_item1_small : lenN item1 < 65536.
    Proof. pose proof (lenN_takeN_le P Hb3 Hhk 65535 item) as H. fold item1 in H. lia. Qed.

    Lemma r_wait st src post : pre st -> head = src ++ post -> lenN src < lenN head -> okc (lenN src) ->
      exists st', D st src = Ok (st', src, None) /\ pre st'.
    Proof.
      intros [rq ->] Hh Hlt [Hs|Hl].
      - exists (cache, cs rq, codec_new). split; [|exists rq; reflexivity].
        apply fdec_ok. apply (ss_decode_short P Hb3 Hhk); [reflexivity|exact Hs].
      - exists (cache, cs (Some ssalt), codec_new). split; [|exists (Some ssalt); reflexivity].
        assert (Hl1 : lenN (ssalt ++ FX) = n + hl) by (rewrite lenN_app, r_len_FX, Hss; reflexivity).
        assert (Hh' : (ssalt ++ FX) ++ VH = src ++ post) by (rewrite <- Hh; unfold head; symmetry; apply app_assoc).
        pose proof (prefix_split src (ssalt ++ FX) VH post Hh' ltac:(lia)) as Hsp.
        rewrite Hl1 in Hsp.
        assert (Haf : lenN (dropN (n + hl) src) < lenN item1 + TAG).
        { rewrite lenN_dropN. rewrite r_len_head in Hlt. unfold TAG. lia. }
        set (after := dropN (n + hl) src) in *. clearbody after. subst src.
        apply fdec_ok. rewrite (ss_decode_init_2022 P Hb3 Hhk); [|reflexivity|cbn [c_kind cxc]; fold n; lia|exact Hk].
        rewrite <- app_assoc. unfold FX.
        rewrite (init_2022_wait cxc now' cache (cs rq) codec_new ssalt a0 now csalt (lenN item1) after Hss Hfresh eq_refl Ha0
                   Hcs Hnow (validate_ok _ _ Hclock) r_item1_small (bytes_eqb_refl csalt) Haf).
        reflexivity.
    Qed.

    Lemma r_callC sd src s2 r2 o2 : wf sd -> crun P sd src = Stop s2 r2 o2 -> D (stC sd) src = Ok (stC s2, r2, item_of o2).
    Proof. intros Hwf E. apply (client_call_C cxc now' _ (cs (Some ssalt)) None [] sd src s2 r2 o2 eq_refl Hwf E). Qed.

    Lemma r_cross st buf seg tl s2 r2 o2 : pre st -> buf ++ seg = head ++ tl ->
      crun P (a2, DLen) tl = Stop s2 r2 o2 -> wf s2 ->
      exists items, Framed.feed _ _ D st buf seg = (stC s2, r2, items, Waiting) /\ concat items = item1 ++ o2.
    Proof.
      intros [rq ->] Eb E Hwf2.
      destruct (response_2022_core P HL Hb3 Hhk k key ssalt csalt item [] now now' cache codec_new codec_new ik ikc cu cuc
                  su sad cad rq cuser Hk Hss Hcs Hnow Hclock Hfresh eq_refl eq_refl a0 Ha0) as (_ & Hd & _).
      cbv zeta in Hd. specialize (Hd tl).
      exists (item1 :: match item_of o2 with Some i => [i] | None => [] end). split; [|apply concat_head_stream].
      apply (feed_some_opt_none _ _ D _ buf seg (stC (a2, DLen)) tl item1 (stC s2) r2 (item_of o2)).
      - rewrite Eb. intros E0. apply (f_equal lenN) in E0. rewrite lenN_app, r_len_head, lenN_nil in E0. unfold hl in E0. lia.
      - rewrite Eb. apply fdec_ok. exact Hd.
      - apply r_callC; [exact I|exact E].
      - exact (r_callC s2 r2 s2 r2 [] Hwf2 (crun_stable P _ _ _ _ _ E)).
    Qed.

    (* the stream of a non-empty list of reads item :: rest *)
    Lemma r_stream_cons rest :
      exists cdf msgs,
        encode_msgs (fun cd w => ss_encode P cxs now [] ssess cd w) codec_new (item :: rest) = Ok (cdf, msgs) /\
        n + hl <= lenN (hd [] msgs) /\
        forall segs, concat segs = concat msgs -> first_read_ok n hl segs ->
          exists items stf,
            Framed.run _ _ (ss_cdec P cxc now') (cache, cs creq, codec_new) [] segs [] = (stf, [], items, Waiting) /\
            concat items = concat (item :: rest).
    Proof.
      destruct (response_2022_core P HL Hb3 Hhk k key ssalt csalt item [] now now' cache codec_new codec_new ik ikc cu cuc
                  su sad cad creq cuser Hk Hss Hcs Hnow Hclock Hfresh eq_refl eq_refl a0 Ha0) as (He & _ & _).
      cbv zeta in He. cbn [encode_msgs]. unfold cxs, ssess. rewrite He. cbn [bind cd_dec cd_pending codec_new].
      fold cxs ssess. change (auth_step (auth_step a0)) with a2.
      set (item2 := dropN 65535 item).
      set (out1 := fst (encode_payload P a2 A2022_PAYLOAD_LIMIT item2)).
      set (a3 := snd (encode_payload P a2 A2022_PAYLOAD_LIMIT item2)).
      destruct (encode_msgs_established cxs now ssess rest {| cd_enc := Some a3; cd_dec := None; cd_pending := [] |} a3 eq_refl)
        as (cdf & ms & ae' & H1 & H2 & H5).
      rewrite H1. cbn [bind]. exists cdf, ((head ++ out1) :: ms). split; [reflexivity|]. split.
      - cbn [hd]. rewrite lenN_app, r_len_head. lia.
      - intros segs Hc Hfr.
        assert (Hbody : crun P (a2, DLen) (out1 ++ concat ms) = Stop (ae', DLen) [] (item2 ++ concat rest)).
        { rewrite crun_app. unfold out1.
          rewrite (crun_encode_payload P HL a2 A2022_PAYLOAD_LIMIT item2 (or_intror eq_refl)).
          cbn [app]. fold a3. rewrite H5. reflexivity. }
        cbn [concat] in Hc. rewrite <- app_assoc in Hc.
        assert (Hhead : 0 < lenN head) by (rewrite r_len_head; unfold hl; lia).
        assert (Harr : Forall (fun m => m < lenN head -> okc m) (arrivals 0 segs)).
        { eapply Forall_impl; [|exact Hfr]. intros m Hm _. exact Hm. }
        destruct (head_then_chunks P HL fstate D pre stC okc head item1 (a2, DLen) Hhead I r_wait r_cross r_callC
                    (out1 ++ concat ms) (ae', DLen) [] (item2 ++ concat rest) Hbody segs (cache, cs creq, codec_new)
                    (ex_intro _ creq eq_refl) Hc Harr) as (items & HR & Hci).
        exists items, (stC (ae', DLen)). split; [exact HR|]. rewrite Hci. cbn [concat]. rewrite app_assoc.
        unfold item1, item2. rewrite take_drop. reflexivity.
    Qed.
  End Resp2022.

  Theorem ss2022_response_stream : forall k key ssalt csalt now now' cache ik ikc cu cuc su sad cad creq cuser ts,
    is_2022 k = true -> lenN ssalt = kind_n k -> lenN csalt = kind_n k -> now < 2^64 -> abs_diff now' now <= 30 ->
    mem_salt cache ssalt = false ->
    let cxs := {| c_kind := k; c_key := key; c_ikeys := ik; c_users := cu |} in
    let ssess := {| s_mode := Server; s_salt := ssalt; s_req_salt := Some csalt; s_user := su; s_addr := sad |} in
    let cxc := {| c_kind := k; c_key := match su with Some u => u_key u | None => key end; c_ikeys := ikc; c_users := cuc |} in
    let csess := {| s_mode := Client; s_salt := csalt; s_req_salt := creq; s_user := cuser; s_addr := cad |} in
    exists cdf msgs,
      encode_msgs (fun cd w => ss_encode P cxs now [] ssess cd w) codec_new ts = Ok (cdf, msgs) /\
      (ts <> [] -> kind_n k + (1 + 8 + kind_n k + 2 + 16) <= lenN (hd [] msgs)) /\
      forall segs, concat segs = concat msgs -> first_read_ok (kind_n k) (1 + 8 + kind_n k + 2 + 16) segs ->
        exists items stf,
          Framed.run _ _ (ss_cdec P cxc now') (cache, csess, codec_new) [] segs [] = (stf, [], items, Waiting) /\
          concat items = concat ts.
  Proof.
    intros k key ssalt csalt now now' cache ik ikc cu cuc su sad cad creq cuser ts Hk Hss Hcs Hnow Hclock Hfresh
           cxs ssess cxc csess.
    destruct ts as [|item rest].
    - exists codec_new, []. split; [reflexivity|]. split; [congruence|]. intros segs Hc _.
      exists [], (cache, csess, codec_new). split; [|reflexivity].
      apply run_all_empty; [apply fdec_nil|exact Hc].
    - destruct (new_auth_2022_ok P Hb3 Hhk k (match su with Some u => u_key u | None => key end) ssalt) as [a0 Ha0].
      destruct (r_stream_cons k key ssalt csalt now now' cache ik ikc cu cuc su sad cad creq cuser a0 item
                  Hk Hss Hcs Hnow Hclock Hfresh Ha0 rest) as (cdf & msgs & He & Hl & Hs).
      exists cdf, msgs. split; [exact He|]. split; [intros _; exact Hl|]. exact Hs.
  Qed.

  (* ------------------------------------------------------------------------------------------ *)
  (* legacy                                                                                       *)
  (* ------------------------------------------------------------------------------------------ *)
  (* the legacy server's first write: its salt, then the chunk stream of the item (nothing for an empty item) *)
  Lemma ss_encode_legacy_server_first k key ik cu now pad ssalt sreq su sad cd item a0 :
    is_2022 k = false -> cd_enc cd = None -> new_auth_legacy P k key ssalt = Ok a0 ->
    ss_encode P {| c_kind := k; c_key := key; c_ikeys := ik; c_users := cu |} now pad
              {| s_mode := Server; s_salt := ssalt; s_req_salt := sreq; s_user := su; s_addr := sad |} cd item =
    Ok ({| cd_enc := Some (snd (encode_payload P a0 LEGACY_PAYLOAD_LIMIT item)); cd_dec := cd_dec cd;
           cd_pending := cd_pending cd |},
        ssalt ++ fst (encode_payload P a0 LEGACY_PAYLOAD_LIMIT item)).
  Proof.
    intros Hk He Ha. unfold ss_encode. rewrite He.
    cbn [c_kind c_key c_ikeys s_mode s_salt s_addr s_user s_req_salt].
    rewrite Hk, Ha. cbn [bind app].
    destruct (encode_payload P a0 LEGACY_PAYLOAD_LIMIT item) as [out a2].
    cbn [fst snd]. rewrite app_nil_r. reflexivity.
  Qed.

  Section RespLegacy.
    Variables (k : kind) (key ssalt : bytes) (now now' : N) (cache : list bytes)
              (ik ikc : list bytes) (cu cuc : option (list user)) (sreq : option bytes) (su : option user)
              (sad : option addr) (csess : session) (a0 : auth) (item : bytes).
    Hypothesis Hk : is_2022 k = false.
    Hypothesis Hss : lenN ssalt = kind_n k.
    Hypothesis Hm : s_mode csess = Client.
    Hypothesis Ha0 : new_auth_legacy P k key ssalt = Ok a0.

    Let cxs := {| c_kind := k; c_key := key; c_ikeys := ik; c_users := cu |}.
    Let ssess := {| s_mode := Server; s_salt := ssalt; s_req_salt := sreq; s_user := su; s_addr := sad |}.
    Let cxc := {| c_kind := k; c_key := key; c_ikeys := ikc; c_users := cuc |}.
    Let D := fdec P cxc now'.
    Let pre (st : fstate) : Prop := st = (cache, csess, codec_new).
    Let stC (sd : state) : fstate := (cache, csess, {| cd_enc := None; cd_dec := Some sd; cd_pending := [] |}).
    Let okc (m : N) : Prop := True.

    Lemma l_wait st src post : pre st -> ssalt = src ++ post -> lenN src < lenN ssalt -> okc (lenN src) ->
      exists st', D st src = Ok (st', src, None) /\ pre st'.
    Proof.
      intros -> _ Hlt _. exists (cache, csess, codec_new). split; [|reflexivity].
      apply fdec_ok. apply (ss_decode_short P Hb3 Hhk); [reflexivity|]. cbn [c_kind cxc]. rewrite <- Hss. exact Hlt.
    Qed.

    Lemma l_callC sd src s2 r2 o2 : wf sd -> crun P sd src = Stop s2 r2 o2 -> D (stC sd) src = Ok (stC s2, r2, item_of o2).
    Proof. intros Hwf E. apply (client_call_C cxc now' cache csess None [] sd src s2 r2 o2 Hm Hwf E). Qed.

    Lemma l_cross st buf seg tl s2 r2 o2 : pre st -> buf ++ seg = ssalt ++ tl ->
      crun P (a0, DLen) tl = Stop s2 r2 o2 -> wf s2 ->
      exists items, Framed.feed _ _ D st buf seg = (stC s2, r2, items, Waiting) /\ concat items = [] ++ o2.
    Proof.
      intros -> Eb E Hwf2.
      assert (H1 : D (cache, csess, codec_new) (buf ++ seg) = Ok (stC s2, r2, item_of o2)).
      { rewrite Eb. apply fdec_ok.
        rewrite (ss_decode_legacy_salt P Hb3 Hhk cxc now' cache csess codec_new ssalt a0 tl Hk Hss eq_refl Ha0). cbv zeta.
        destruct tl as [|x xs].
        - rewrite crun_nil in E. injection E as <- <- <-. reflexivity.
        - pose proof (decode_payload_of_crun P HL a0 DLen (x :: xs) s2 r2 o2 I E) as Hd.
          rewrite (decode_body_client P csess _ _ _ _ _ _ _ _ Hm Hd). destruct s2 as [a2 st2]. reflexivity. }
      exists (items_of o2). split; [|apply concat_items_of].
      destruct o2 as [|y ys].
      - apply feed_none. exact H1.
      - eapply feed_some_none; [exact H1|].
        exact (l_callC s2 r2 s2 r2 [] Hwf2 (crun_stable P _ _ _ _ _ E)).
    Qed.

    Lemma l_stream_cons rest :
      exists cdf msgs,
        encode_msgs (fun cd w => ss_encode P cxs now [] ssess cd w) codec_new (item :: rest) = Ok (cdf, msgs) /\
        forall segs, concat segs = concat msgs ->
          exists items stf,
            Framed.run _ _ (ss_cdec P cxc now') (cache, csess, codec_new) [] segs [] = (stf, [], items, Waiting) /\
            concat items = concat (item :: rest).
    Proof.
      cbn [encode_msgs]. unfold cxs, ssess.
      rewrite (ss_encode_legacy_server_first k key ik cu now [] ssalt sreq su sad codec_new item a0 Hk eq_refl Ha0).
      cbn [bind cd_dec cd_pending codec_new]. fold cxs ssess.
      set (out1 := fst (encode_payload P a0 LEGACY_PAYLOAD_LIMIT item)).
      set (a3 := snd (encode_payload P a0 LEGACY_PAYLOAD_LIMIT item)).
      destruct (encode_msgs_established cxs now ssess rest {| cd_enc := Some a3; cd_dec := None; cd_pending := [] |} a3 eq_refl)
        as (cdf & ms & ae' & H1 & H2 & H5).
      rewrite H1. cbn [bind]. exists cdf, ((ssalt ++ out1) :: ms). split; [reflexivity|].
      intros segs Hc.
      assert (Hbody : crun P (a0, DLen) (out1 ++ concat ms) = Stop (ae', DLen) [] (item ++ concat rest)).
      { rewrite crun_app. unfold out1.
        rewrite (crun_encode_payload P HL a0 LEGACY_PAYLOAD_LIMIT item (or_introl eq_refl)).
        cbn [app]. fold a3. rewrite H5. reflexivity. }
      cbn [concat] in Hc. rewrite <- app_assoc in Hc.
      assert (Hhead : 0 < lenN ssalt) by (rewrite Hss; destruct (kind_n_cases k); lia).
      assert (Harr : Forall (fun m => m < lenN ssalt -> okc m) (arrivals 0 segs)).
      { apply Forall_forall. intros m _ _. exact I. }
      destruct (head_then_chunks P HL fstate D pre stC okc ssalt [] (a0, DLen) Hhead I l_wait l_cross l_callC
                  (out1 ++ concat ms) (ae', DLen) [] (item ++ concat rest) Hbody segs (cache, csess, codec_new)
                  eq_refl Hc Harr) as (items & HR & Hci).
      exists items, (stC (ae', DLen)). split; [exact HR|]. rewrite Hci. reflexivity.
    Qed.
  End RespLegacy.

  Theorem sslegacy_response_stream : forall k key ssalt now now' cache ik ikc cu cuc sreq su sad csess ts,
    is_2022 k = false -> lenN ssalt = kind_n k -> s_mode csess = Client ->
    let cxs := {| c_kind := k; c_key := key; c_ikeys := ik; c_users := cu |} in
    let ssess := {| s_mode := Server; s_salt := ssalt; s_req_salt := sreq; s_user := su; s_addr := sad |} in
    let cxc := {| c_kind := k; c_key := key; c_ikeys := ikc; c_users := cuc |} in
    exists cdf msgs,
      encode_msgs (fun cd w => ss_encode P cxs now [] ssess cd w) codec_new ts = Ok (cdf, msgs) /\
      forall segs, concat segs = concat msgs ->
        exists items stf,
          Framed.run _ _ (ss_cdec P cxc now') (cache, csess, codec_new) [] segs [] = (stf, [], items, Waiting) /\
          concat items = concat ts.
  Proof.
    intros k key ssalt now now' cache ik ikc cu cuc sreq su sad csess ts Hk Hss Hm cxs ssess cxc.
    destruct ts as [|item rest].
    - exists codec_new, []. split; [reflexivity|]. intros segs Hc.
      exists [], (cache, csess, codec_new). split; [|reflexivity].
      apply run_all_empty; [apply fdec_nil|exact Hc].
    - destruct (new_auth_legacy_ok P Hb3 Hhk k key ssalt Hss) as [a0 Ha0].
      exact (l_stream_cons k key ssalt now now' cache ik ikc cu cuc sreq su sad csess a0 item Hk Hss Hm Ha0 rest).
  Qed.
End SsTcpStreamResp.

Print Assumptions ss_encode_reads_enc_only.
Print Assumptions ss_decode_keeps_enc.
Print Assumptions head_then_chunks.
Print Assumptions ss2022_response_stream.
Print Assumptions sslegacy_response_stream.

(* ---------------------------------------------------------------------------------------------- *)
(* Non-vacuity: the toy primitives of SsTcpRoundtrip.ToyPrims satisfy every premise; concrete      *)
(* answer streams (an EMPTY first read, then data) cut at awkward places, evaluated by vm_compute.  *)
(* ---------------------------------------------------------------------------------------------- *)
Module ToyResp.
  Import ToyPrims.
  Definition toy_ss2022_response_stream := ss2022_response_stream toyP toy_laws toy_b3_len toy_hkdf_len.
  Definition toy_sslegacy_response_stream := sslegacy_response_stream toyP toy_laws toy_b3_len toy_hkdf_len.

  Definition srv_s : session :=
    {| s_mode := Server; s_salt := salt16'; s_req_salt := Some salt16; s_user := None; s_addr := Some target |}.

  (* 2022: n = 16, fixed header 43 bytes; polls after 10, 59 (salt + fixed header exactly), 64 (inside the
     variable header part), 64, 84 and all bytes *)
  Example toy_2022_answer_segmented :
    match encode_msgs (fun cd w => ss_encode toyP (server_cx K22_A128) 1000 [] srv_s cd w) codec_new [[]; hello; []; world] with
    | Ok (_, msgs) =>
      let w := concat msgs in
      let segs := [firstn 10 w; firstn 49 (skipn 10 w); firstn 5 (skipn 59 w); []; firstn 20 (skipn 64 w); skipn 84 w] in
      concat segs = w /\ first_read_okb 16 43 segs = true /\
      match Framed.run _ _ (ss_cdec toyP (client_cx K22_A128) 1010) ([], client_s, codec_new) [] segs [] with
      | (_, buf, items, Waiting) => buf = [] /\ concat items = hello ++ world /\ hd_error items = Some []
      | _ => False
      end /\
      (* a poll that sees the salt but not the whole fixed header is refused: first_read_ok is a genuine premise *)
      first_read_okb 16 43 [firstn 30 w; skipn 30 w] = false /\
      (let '(_, _, _, st) := Framed.run _ _ (ss_cdec toyP (client_cx K22_A128) 1010) ([], client_s, codec_new) []
                               [firstn 30 w; skipn 30 w] [] in st = Failed EShort)
    | _ => False
    end.
  Proof. vm_compute. repeat split. Qed.

  (* legacy: the wire of an empty first read is the salt alone; cut inside the salt and inside chunks *)
  Example toy_legacy_answer_segmented :
    match encode_msgs (fun cd w => ss_encode toyP (server_cx K_A128) 0 [] srv_s cd w) codec_new [[]; hello; []; world] with
    | Ok (_, msgs) =>
      let w := concat msgs in
      let segs := [firstn 7 w; firstn 9 (skipn 7 w); []; firstn 3 (skipn 16 w); firstn 30 (skipn 19 w); skipn 49 w] in
      hd_error msgs = Some salt16' /\ concat segs = w /\
      match Framed.run _ _ (ss_cdec toyP (client_cx K_A128) 0) ([], client_s, codec_new) [] segs [] with
      | (_, buf, items, Waiting) => buf = [] /\ concat items = hello ++ world
      | _ => False
      end
    | _ => False
    end.
  Proof. vm_compute. repeat split. Qed.
End ToyResp.
