(* Facts about Model/SaltCache.v:
     no_replay_sequential      2 * maxdiff <= ttl, cache never full: in a time-ordered history a
                               presentation (salt, timestamp) is accepted at most once
     ttl_too_short_witness     with ttl = 30 = maxdiff (the code before the repair) a replay is accepted
     eviction_witness          a full cache evicts a live salt: why `never_full` is needed
     no_replay_concurrent      k concurrent copies, any interleaving of the lock-protected calls:
                               at most one is accepted, and exactly one when all have finished
     check_then_insert_witness, try_lock_witness   the two defects of the code before the repair *)
From Coq Require Import NArith List Bool Lia.
From Octo Require Import Model.SaltCache.
Import ListNotations.
Open Scope N_scope.

(* ---------------- the cache ---------------- *)
Lemma In_remove_expired ttl now k t c :
  In (k, t) c -> now <= t + ttl -> In (k, t) (remove_expired ttl now c).
Proof.
  induction c as [|[k0 t0] r IH]; simpl; intros H Hl; auto.
  destruct (t0 + ttl <? now) eqn:E; [|exact H].
  apply N.ltb_lt in E. destruct H as [H|H]; [inversion H; subst; lia|auto].
Qed.

Lemma remove_expired_length ttl now c : (length (remove_expired ttl now c) <= length c)%nat.
Proof.
  induction c as [|[k0 t0] r IH]; simpl; auto. destruct (t0 + ttl <? now); simpl; lia.
Qed.

Lemma remove_expired_incl ttl now c e : In e (remove_expired ttl now c) -> In e c.
Proof.
  induction c as [|[k0 t0] r IH]; simpl; auto. destruct (t0 + ttl <? now); simpl; auto.
Qed.

Lemma mem_In k t c : In (k, t) c -> mem k c = true.
Proof.
  intros H. apply existsb_exists. exists (k, t). split; auto. simpl. apply N.eqb_refl.
Qed.

Lemma mem_true_In k c : mem k c = true -> exists t, In (k, t) c.
Proof.
  intros H. apply existsb_exists in H as [[k0 t] [Hi He]]. simpl in He. apply N.eqb_eq in He. subst. eauto.
Qed.

Lemma mem_remove_expired_false ttl now k c : mem k c = false -> mem k (remove_expired ttl now c) = false.
Proof.
  intros H. destruct (mem k (remove_expired ttl now c)) eqn:E; auto.
  apply mem_true_In in E as [t Ht]. apply remove_expired_incl in Ht. apply mem_In in Ht. congruence.
Qed.

Lemma In_touch_same k now c : In (k, now) (touch k now c).
Proof. unfold touch. apply in_or_app; right; left; reflexivity. Qed.

Lemma In_touch_other k t k' now c : In (k, t) c -> k <> k' -> In (k, t) (touch k' now c).
Proof.
  intros H Hne. unfold touch, drop. apply in_or_app; left. apply filter_In. split; auto.
  simpl. apply negb_true_iff, N.eqb_neq. exact Hne.
Qed.

Lemma remove_lru_room cap c : N.of_nat (length c) < cap -> remove_lru cap c = c.
Proof. intros H. unfold remove_lru. destruct (cap <=? N.of_nat (length c)) eqn:E; auto. apply N.leb_le in E. lia. Qed.

(* salt s is in the cache with a time not before t0 *)
Definition holds (s : salt) (t0 : N) (c : cache) : Prop := exists t, In (s, t) c /\ t0 <= t.

Lemma get_holds P now k s t0 c :
  holds s t0 c -> now <= t0 + ttl P -> t0 <= now -> holds s t0 (snd (get P now k c)).
Proof.
  intros (t & Hi & Ht) Hl Hn. unfold get.
  assert (H1 : In (s, t) (remove_expired (ttl P) now c)) by (apply In_remove_expired; auto; lia).
  destruct (mem k (remove_expired (ttl P) now c)); simpl; [|exists t; auto].
  destruct (N.eq_dec s k) as [->|Hne].
  - exists now. split; auto. apply In_touch_same.
  - exists t. split; auto. apply In_touch_other; auto.
Qed.

Lemma insert_holds P now k s t0 c :
  holds s t0 c -> now <= t0 + ttl P -> t0 <= now ->
  N.of_nat (length (remove_expired (ttl P) now c)) < cap P ->
  holds s t0 (snd (insert P now k c)).
Proof.
  intros (t & Hi & Ht) Hl Hn Hroom. unfold insert.
  assert (H1 : In (s, t) (remove_expired (ttl P) now c)) by (apply In_remove_expired; auto; lia).
  destruct (mem k (remove_expired (ttl P) now c)); simpl.
  - destruct (N.eq_dec s k) as [->|Hne].
    + exists now. split; auto. apply In_touch_same.
    + exists t. split; auto. apply In_touch_other; auto.
  - rewrite remove_lru_room by exact Hroom. exists t. split; auto. apply in_or_app; left; exact H1.
Qed.

Lemma get_hits P now s t0 c : holds s t0 c -> now <= t0 + ttl P -> fst (get P now s c) = true.
Proof.
  intros (t & Hi & Ht) Hl. unfold get.
  assert (H1 : In (s, t) (remove_expired (ttl P) now c)) by (apply In_remove_expired; auto; lia).
  rewrite (mem_In _ _ _ H1). reflexivity.
Qed.

(* ---------------- one acceptance step ---------------- *)
Lemma accept_true P now s ts c :
  fst (accept P now (s, ts) c) = true ->
  abs_diff now ts <= maxdiff P /\ holds s now (snd (accept P now (s, ts) c)).
Proof.
  unfold accept. destruct (get P now s c) as [hit c1]. destruct hit; simpl; [discriminate|].
  destruct (maxdiff P <? abs_diff now ts) eqn:E; simpl; [discriminate|].
  apply N.ltb_ge in E. unfold insert.
  destruct (mem s (remove_expired (ttl P) now c1)); simpl; [discriminate|]. intros _. split; auto.
  exists now. split; [|lia]. apply in_or_app; right; left; reflexivity.
Qed.

Lemma accept_holds P now p s t0 c :
  holds s t0 c -> now <= t0 + ttl P -> t0 <= now ->
  N.of_nat (length (remove_expired (ttl P) now c)) < cap P ->
  holds s t0 (snd (accept P now p c)).
Proof.
  intros H Hl Hn Hroom. destruct p as [s' ts']. unfold accept.
  pose proof (get_holds P now s' s t0 c H Hl Hn) as Hg.
  assert (Hlen : fst (get P now s' c) = false -> snd (get P now s' c) = remove_expired (ttl P) now c).
  { unfold get. destruct (mem s' (remove_expired (ttl P) now c)); simpl; [discriminate|reflexivity]. }
  destruct (get P now s' c) as [hit c1]; simpl in *. destruct hit; simpl; auto.
  destruct (maxdiff P <? abs_diff now ts'); simpl; auto.
  pose proof (insert_holds P now s' s t0 c1 Hg Hl Hn) as Hi.
  destruct (insert P now s' c1) as [present c2]; simpl in *. apply Hi.
  rewrite (Hlen eq_refl). pose proof (remove_expired_length (ttl P) now (remove_expired (ttl P) now c)). lia.
Qed.

Lemma accept_rejects_held P now s ts t0 c :
  holds s t0 c -> now <= t0 + ttl P -> fst (accept P now (s, ts) c) = false.
Proof.
  intros H Hl. unfold accept. pose proof (get_hits P now s t0 c H Hl) as Hg.
  destruct (get P now s c) as [hit c1]; simpl in *. subst hit. reflexivity.
Qed.

(* ---------------- histories ---------------- *)
Lemma run_cons P c now p r :
  run P c ((now, p) :: r) =
    (fst (run P (snd (accept P now p c)) r), fst (accept P now p c) :: snd (run P (snd (accept P now p c)) r)).
Proof.
  simpl. destruct (accept P now p c) as [b c1]; simpl. destruct (run P c1 r); reflexivity.
Qed.

Lemma ordered_weaken a b h : ordered a h -> b <= a -> ordered b h.
Proof. destruct h as [|[now p] r]; simpl; auto. intros [H1 H2] Hb. split; auto; lia. Qed.

Lemma ordered_nth h : forall last j now p, ordered last h -> nth_error h j = Some (now, p) -> last <= now.
Proof.
  induction h as [|[n0 p0] r IH]; intros last j now p Ho Hn; [destruct j; discriminate|].
  simpl in Ho. destruct Ho as [H1 H2]. destruct j; simpl in Hn.
  - inversion Hn; subst; auto.
  - specialize (IH n0 j now p H2 Hn). lia.
Qed.

(* an accepted presentation had an acceptable timestamp *)
Lemma accepted_ts P h : forall c j now s ts,
  nth_error h j = Some (now, (s, ts)) -> nth_error (snd (run P c h)) j = Some true ->
  abs_diff now ts <= maxdiff P.
Proof.
  induction h as [|[n0 p0] r IH]; intros c j now s ts Hn Hd; [destruct j; discriminate|].
  rewrite run_cons in Hd. simpl in Hd. destruct j; simpl in Hn, Hd.
  - inversion Hn; subst n0 p0. assert (Hd' : fst (accept P now (s, ts) c) = true) by congruence. apply (accept_true P now s ts c Hd').
  - eapply IH; eauto.
Qed.

Lemma abs_diff_window D t0 now2 ts : abs_diff t0 ts <= D -> abs_diff now2 ts <= D -> now2 <= t0 + 2 * D.
Proof.
  unfold abs_diff. destruct (t0 <? ts) eqn:E1; destruct (now2 <? ts) eqn:E2;
    rewrite ?N.ltb_lt, ?N.ltb_ge in *; lia.
Qed.

(* once s is held since t0 (accepted at t0), every later presentation of (s, ts) is refused *)
Lemma held_refused P s ts t0 : 2 * maxdiff P <= ttl P -> abs_diff t0 ts <= maxdiff P ->
  forall h c j now2,
    holds s t0 c -> ordered t0 h -> never_full P c h ->
    nth_error h j = Some (now2, (s, ts)) -> nth_error (snd (run P c h)) j = Some true -> False.
Proof.
  intros Httl Hts. induction h as [|[n0 p0] r IH]; intros c j now2 Hh Ho Hf Hn Hd; [destruct j; discriminate|].
  pose proof (accepted_ts P _ c j now2 s ts Hn Hd) as Hts2.
  pose proof (abs_diff_window _ _ _ _ Hts Hts2) as Hw.
  pose proof (ordered_nth _ _ _ _ _ Ho Hn) as Hge.
  rewrite run_cons in Hd. simpl in Ho, Hf. destruct Ho as [Ho1 Ho2]. destruct Hf as [Hf1 Hf2].
  destruct j; simpl in Hn, Hd.
  - inversion Hn; subst n0 p0. assert (Hd' : fst (accept P now2 (s, ts) c) = true) by congruence.
    rewrite (accept_rejects_held P now2 s ts t0 c Hh) in Hd' by lia. discriminate.
  - assert (Hn0 : n0 <= now2) by (eapply ordered_nth; eauto).
    apply (IH (snd (accept P n0 p0 c)) j now2); auto.
    + apply accept_holds; auto; lia.
    + eapply ordered_weaken; eauto.
Qed.

(* P1: sequential presentations.  The timestamp is sealed together with the salt, so a replay
   presents the same pair (s, ts).  If the cache keeps a salt for the whole acceptance window
   (2 * maxdiff <= ttl) and is never full, no pair is accepted twice -- at whatever times the
   copies arrive, from whatever cache contents the history starts. *)
Theorem no_replay_sequential :
  forall P h c0 i j now1 now2 s ts,
    2 * maxdiff P <= ttl P ->
    (exists t0, ordered t0 h) -> never_full P c0 h ->
    (i < j)%nat ->
    nth_error h i = Some (now1, (s, ts)) -> nth_error h j = Some (now2, (s, ts)) ->
    nth_error (snd (run P c0 h)) i = Some true ->
    nth_error (snd (run P c0 h)) j = Some true -> False.
Proof.
  intros P h. induction h as [|[n0 p0] r IH]; intros c0 i j now1 now2 s ts Httl [t0 Ho] Hf Hij Hi Hj Di Dj;
    [destruct i; discriminate|].
  rewrite run_cons in Di, Dj. simpl in Ho, Hf. destruct Ho as [Ho1 Ho2]. destruct Hf as [Hf1 Hf2].
  destruct j as [|j]; [lia|]. simpl in Hj, Dj.
  destruct i as [|i]; simpl in Hi, Di.
  - inversion Hi; subst n0 p0. assert (Di' : fst (accept P now1 (s, ts) c0) = true) by congruence.
    destruct (accept_true P now1 s ts c0 Di') as [Hts Hh].
    eapply (held_refused P s ts now1 Httl Hts r); eauto.
  - eapply (IH (snd (accept P n0 p0 c0)) i j); eauto. lia.
Qed.

(* the instance for the parameters of the repaired code *)
Corollary no_replay_sequential_current :
  forall h c0 i j now1 now2 s ts,
    (exists t0, ordered t0 h) -> never_full current c0 h -> (i < j)%nat ->
    nth_error h i = Some (now1, (s, ts)) -> nth_error h j = Some (now2, (s, ts)) ->
    nth_error (snd (run current c0 h)) i = Some true ->
    nth_error (snd (run current c0 h)) j = Some true -> False.
Proof. intros. eapply (no_replay_sequential current); eauto. simpl; lia. Qed.

(* P2: the hypothesis 2 * maxdiff <= ttl is needed.  Before the repair ttl = maxdiff = 30: a request
   stamped 30 s ahead of the server clock is accepted at 1000, forgotten after 1030, and its replay
   at 1031 is still inside the timestamp window: accepted again. *)
Theorem ttl_too_short_witness :
  let h := [(1000, (7, 1030)); (1031, (7, 1030))] in
  snd (run before_repair [] h) = [true; true] /\
  ordered 0 h /\ never_full before_repair [] h /\
  snd (run current [] h) = [true; false].
Proof. vm_compute. repeat split; auto; discriminate. Qed.

(* ... and so is `never_full`: a full cache forgets its least recently used salt, live or not *)
Theorem eviction_witness :
  let P := {| ttl := 60; cap := 2; maxdiff := 30 |} in
  let h := [(1000, (7, 1000)); (1001, (8, 1001)); (1002, (9, 1002)); (1003, (7, 1000))] in
  snd (run P [] h) = [true; true; true; true] /\ ordered 0 h /\ ~ never_full P [] h.
Proof.
  split; [vm_compute; reflexivity|]. split; [vm_compute; repeat split; discriminate|].
  simpl. intros (_ & _ & H & _). vm_compute in H. discriminate.
Qed.

(* ---------------- concurrent copies ---------------- *)
Lemma upd_length {A} (x : A) l : forall i, length (upd i x l) = length l.
Proof. induction l as [|h t IH]; intros [|i]; simpl; auto. Qed.

Lemma accepted_upd l : forall i old new, nth_error l i = Some old ->
  (accepted (upd i new l) + (if is_acc old then 1 else 0) = accepted l + (if is_acc new then 1 else 0))%nat.
Proof.
  unfold accepted. induction l as [|h t IH]; intros [|i] old new H; simpl in *; try discriminate.
  - inversion H; subst. destruct (is_acc old), (is_acc new); simpl; lia.
  - specialize (IH i old new H). destruct (is_acc h); simpl; lia.
Qed.

Lemma accepted_nth l : forall i st, nth_error l i = Some st -> is_acc st = true -> (1 <= accepted l)%nat.
Proof.
  unfold accepted. induction l as [|h t IH]; intros [|i] st H Ha; simpl in *; try discriminate.
  - inversion H; subst. rewrite Ha. simpl; lia.
  - specialize (IH i st H Ha). destruct (is_acc h); simpl; lia.
Qed.

Lemma forallb_upd {A} (f : A -> bool) x l : forall i, forallb f l = true -> f x = true -> forallb f (upd i x l) = true.
Proof.
  induction l as [|h t IH]; intros [|i] H Hx; simpl in *; auto; apply andb_true_iff in H as [H1 H2];
    apply andb_true_iff; split; auto.
Qed.

Lemma forallb_nth {A} (f : A -> bool) l : forall i x, forallb f l = true -> nth_error l i = Some x -> f x = true.
Proof.
  induction l as [|h t IH]; intros [|i] x H Hn; simpl in *; try discriminate; apply andb_true_iff in H as [H1 H2].
  - inversion Hn; subst; auto.
  - eauto.
Qed.

Lemma accepted_none l : forallb (fun st => negb (is_done st)) l = true -> accepted l = 0%nat.
Proof.
  unfold accepted. induction l as [|h t IH]; simpl; auto. intros H. apply andb_true_iff in H as [H1 H2].
  destruct h as [| |[|]]; simpl in *; auto; discriminate.
Qed.

Definition not_done (st : pc) : bool := negb (is_done st).

(* at most one: either nobody has been accepted, or exactly one has and the salt is in the cache
   with the current time (so that it cannot expire before the others look) *)
Definition inv1 (now : N) (s : salt) (sys : list pc * cache) : Prop :=
  accepted (fst sys) = 0%nat \/ (accepted (fst sys) = 1%nat /\ In (s, now) (snd sys)).

Lemma now_live P now s c : In (s, now) c -> In (s, now) (remove_expired (ttl P) now c).
Proof. intros H. apply In_remove_expired; auto. lia. Qed.

Lemma micro_held P now s ts st c :
  In (s, now) c ->
  In (s, now) (snd (micro P now (s, ts) st c)) /\ is_acc (fst (micro P now (s, ts) st c)) = is_acc st.
Proof.
  intros H. pose proof (now_live P now s c H) as H1. pose proof (mem_In _ _ _ H1) as Hm.
  destruct st as [| |b]; simpl.
  - unfold get. rewrite Hm. simpl. split; auto. apply In_touch_same.
  - unfold insert. rewrite Hm. simpl. split; auto. apply In_touch_same.
  - split; auto.
Qed.

Lemma micro_acc_inserts P now s ts st c :
  is_acc st = false -> is_acc (fst (micro P now (s, ts) st c)) = true ->
  In (s, now) (snd (micro P now (s, ts) st c)).
Proof.
  destruct st as [| |b]; simpl.
  - intros _. destruct (get P now s c) as [hit c1]. destruct hit; simpl; [discriminate|].
    destruct (maxdiff P <? abs_diff now ts); simpl; discriminate.
  - intros _. unfold insert. destruct (mem s (remove_expired (ttl P) now c)); simpl; [discriminate|].
    intros _. apply in_or_app; right; left; reflexivity.
  - intros -> H; discriminate.
Qed.

Lemma sched_step_inv1 P now s ts sys i : inv1 now s sys -> inv1 now s (sched_step P now (s, ts) sys i).
Proof.
  destruct sys as [ths c]. unfold sched_step. destruct (nth_error ths i) as [st|] eqn:Hn; auto.
  pose proof (accepted_upd ths i st (fst (micro P now (s, ts) st c)) Hn) as Hc.
  intros [H0|[H1 Hin]]; cbn [fst snd] in *.
  - (* nobody accepted yet *)
    assert (Hst : is_acc st = false).
    { destruct (is_acc st) eqn:E; auto. pose proof (accepted_nth ths i st Hn E). lia. }
    pose proof (micro_acc_inserts P now s ts st c Hst) as Hi.
    destruct (micro P now (s, ts) st c) as [st' c']; cbn [fst snd] in *. rewrite Hst, H0 in Hc.
    destruct (is_acc st') eqn:E; [right|left]; cbn [fst snd]; [split; auto|]; lia.
  - pose proof (micro_held P now s ts st c Hin) as [Hi Ha].
    destruct (micro P now (s, ts) st c) as [st' c']; cbn [fst snd] in *. rewrite Ha in Hc.
    right; cbn [fst snd]; split; auto. destruct (is_acc st); lia.
Qed.

Lemma run_sched_inv1 P now s ts sched : forall sys, inv1 now s sys ->
  inv1 now s (fold_left (sched_step P now (s, ts)) sched sys).
Proof. induction sched as [|i r IH]; simpl; intros sys H; auto. apply IH, sched_step_inv1, H. Qed.

Lemma accepted_repeat k : accepted (repeat PCheck k) = 0%nat.
Proof. unfold accepted. induction k; simpl; auto. Qed.

(* P3a: any number of copies, any interleaving of their lock-protected calls, any cache: at most one
   copy is accepted *)
Theorem no_replay_concurrent_at_most_one :
  forall P now s ts k c0 sched, (accepted (fst (run_sched P now (s, ts) k c0 sched)) <= 1)%nat.
Proof.
  intros P now s ts k c0 sched.
  pose proof (run_sched_inv1 P now s ts sched (repeat PCheck k, c0)) as H.
  unfold run_sched. destruct H as [H|[H _]]; [left; apply accepted_repeat| |]; lia.
Qed.

(* exactly one: as long as the salt is not in the cache nobody has finished *)
Definition inv2 (P : params) (now : N) (s : salt) (sys : list pc * cache) : Prop :=
  (mem s (remove_expired (ttl P) now (snd sys)) = false /\ forallb not_done (fst sys) = true) \/
  (accepted (fst sys) = 1%nat /\ In (s, now) (snd sys)).

Lemma sched_step_inv2 P now s ts sys i : abs_diff now ts <= maxdiff P ->
  inv2 P now s sys -> inv2 P now s (sched_step P now (s, ts) sys i).
Proof.
  intros Hts. destruct sys as [ths c]. unfold sched_step. destruct (nth_error ths i) as [st|] eqn:Hn; auto.
  pose proof (accepted_upd ths i st (fst (micro P now (s, ts) st c)) Hn) as Hc.
  intros [[Hm Hnd]|[H1 Hin]]; cbn [fst snd] in *.
  - pose proof (forallb_nth _ _ _ _ Hnd Hn) as Hst.
    pose proof (accepted_none ths Hnd) as H0.
    assert (E : maxdiff P <? abs_diff now ts = false) by (apply N.ltb_ge; exact Hts).
    destruct st as [| |b]; simpl in *; [| |discriminate].
    + unfold get. rewrite Hm, E. simpl. left. split.
      * apply mem_remove_expired_false; exact Hm.
      * apply forallb_upd; auto.
    + unfold insert in *. rewrite Hm in *. simpl in *. right. cbn [fst snd]. split; [lia|].
      apply in_or_app; right; left; reflexivity.
  - pose proof (micro_held P now s ts st c Hin) as [Hi Ha].
    destruct (micro P now (s, ts) st c) as [st' c']; cbn [fst snd] in *. rewrite Ha in Hc.
    right; cbn [fst snd]; split; auto. destruct (is_acc st); lia.
Qed.

Lemma run_sched_inv2 P now s ts sched : abs_diff now ts <= maxdiff P -> forall sys, inv2 P now s sys ->
  inv2 P now s (fold_left (sched_step P now (s, ts)) sched sys).
Proof. intros Hts. induction sched as [|i r IH]; simpl; intros sys H; auto. apply IH, sched_step_inv2; auto. Qed.

Lemma sched_step_length P now p sys i : length (fst (sched_step P now p sys i)) = length (fst sys).
Proof.
  destruct sys as [ths c]. unfold sched_step. destruct (nth_error ths i); auto.
  destruct (micro P now p p0 c); simpl. apply upd_length.
Qed.

Lemma run_sched_length P now p sched : forall sys, length (fst (fold_left (sched_step P now p) sched sys)) = length (fst sys).
Proof. induction sched as [|i r IH]; simpl; intros sys; auto. rewrite IH. apply sched_step_length. Qed.

Lemma forallb_repeat_not_done k : forallb not_done (repeat PCheck k) = true.
Proof. induction k; simpl; auto. Qed.

(* P3b: k >= 1 copies of a presentation with an acceptable timestamp whose salt is not live in the
   cache, processed concurrently (same server time): under ANY interleaving of the lock-protected
   calls, when all copies have finished EXACTLY ONE has been accepted.  Check-and-insert is atomic
   because `insert` under the mutex reports whether the salt was already there. *)
Theorem no_replay_concurrent :
  forall P now s ts k c0 sched,
    (1 <= k)%nat -> abs_diff now ts <= maxdiff P -> mem s (remove_expired (ttl P) now c0) = false ->
    let ths := fst (run_sched P now (s, ts) k c0 sched) in
    forallb is_done ths = true -> accepted ths = 1%nat.
Proof.
  intros P now s ts k c0 sched Hk Hts Hfresh ths Hdone.
  assert (I0 : inv2 P now s (repeat PCheck k, c0)) by (left; split; [exact Hfresh|apply forallb_repeat_not_done]).
  pose proof (run_sched_inv2 P now s ts sched Hts _ I0) as H.
  pose proof (run_sched_length P now (s, ts) sched (repeat PCheck k, c0)) as Hl.
  simpl in Hl. rewrite repeat_length in Hl.
  unfold run_sched in ths. fold ths in Hl. destruct H as [[_ Hnd]|[H _]]; [|exact H].
  exfalso. fold ths in Hnd. destruct ths as [|t0 r]; simpl in *; [lia|].
  apply andb_true_iff in Hnd as [Hn _]. apply andb_true_iff in Hdone as [Hd _].
  unfold not_done in Hn. rewrite Hd in Hn. discriminate.
Qed.

(* the sequential acceptance step is the two lock-protected calls of one task run back to back *)
Theorem accept_is_two_micro :
  forall P now p c,
    let '(st1, c1) := micro P now p PCheck c in
    let '(st2, c2) := micro P now p st1 c1 in
    st2 = PDone (fst (accept P now p c)) /\ c2 = snd (accept P now p c).
Proof.
  intros P now [s ts] c. unfold accept; simpl.
  destruct (get P now s c) as [hit c1]. destruct hit; simpl; auto.
  destruct (maxdiff P <? abs_diff now ts); simpl; auto.
  destruct (insert P now s c1) as [present c2]; simpl; auto.
Qed.

(* non-vacuity: three copies, a fully interleaved schedule *)
Example concurrent_three :
  run_sched current 1000 (7, 1010) 3 [] [0; 1; 2; 2; 0; 1]%nat
  = ([PDone false; PDone false; PDone true], [(7, 1000)]).
Proof. vm_compute. reflexivity. Qed.

(* ---------------- the code before the repair ---------------- *)
(* (a) check and insert were two separate critical sections and the insertion did not report
       presence: two copies that both check before either inserts are both accepted -- no failing
       try_lock needed *)
Theorem check_then_insert_witness :
  accepted (fst (run_sched_old current 1000 (7, 1010) 2 [] [(0, true); (1, true); (0, true); (1, true)]%nat)) = 2%nat.
Proof. vm_compute. reflexivity. Qed.

(* (b) a failed try_lock was read as "not seen": copy 0 is accepted and remembered; copy 1 arrives
       later, but both of its calls find the mutex busy (any other connection holds it): accepted too *)
Theorem try_lock_witness :
  let sys := run_sched_old current 1000 (7, 1010) 2 [] [(0, true); (0, true); (1, false); (1, false)]%nat in
  accepted (fst sys) = 2%nat /\ mem 7 (snd sys) = true.
Proof. vm_compute. split; reflexivity. Qed.

(* with the current calls the same two schedules accept one copy *)
Example repaired_schedules :
  accepted (fst (run_sched current 1000 (7, 1010) 2 [] [0; 1; 0; 1]%nat)) = 1%nat /\
  accepted (fst (run_sched current 1000 (7, 1010) 2 [] [0; 0; 1; 1]%nat)) = 1%nat.
Proof. vm_compute. split; reflexivity. Qed.

Print Assumptions no_replay_sequential.
Print Assumptions ttl_too_short_witness.
Print Assumptions eviction_witness.
Print Assumptions no_replay_concurrent_at_most_one.
Print Assumptions no_replay_concurrent.
Print Assumptions check_then_insert_witness.
Print Assumptions try_lock_witness.
