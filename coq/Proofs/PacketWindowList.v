(* The executable list-ring model of Model/PacketWindow.v simulates the function-ring model of
   PacketWindowFn.v; lift of the one-step refinement to every finite history of ids. *)
From Coq Require Import NArith ZArith Lia Bool List ZifyBool ZifyN ZifyNat.
From Octo Require Import Model.PacketWindow Proofs.PacketWindowFn.
Import ListNotations.
Open Scope N_scope.

Lemma consts : PacketWindow.BLOCK_BIT_LOG = 6 /\ PacketWindow.BLOCK_BITS = 64 /\ PacketWindow.RING_BLOCKS = 128 /\ PacketWindow.WINDOW_SIZE = 8128 /\ PacketWindow.BLOCK_MASK = 127 /\ PacketWindow.BIT_MASK = 63.
Proof. repeat split; reflexivity. Qed.

Definition abs (s : pw) : st := {| last := pw_last s; ring := fun i => lget (pw_ring s) i |}.

Lemma lset_length l i v : length (lset l i v) = length l.
Proof. revert i; induction l as [|h t IH]; intros [|j]; cbn [lset length]; auto. Qed.

Lemma nth_lset l i v j : (i < length l)%nat -> nth j (lset l i v) 0 = if Nat.eqb j i then v else nth j l 0.
Proof.
  revert i j; induction l as [|h t IH]; intros i j Hl; cbn [length] in Hl; [lia|].
  destruct i as [|i]; destruct j as [|j]; cbn [lset nth Nat.eqb]; try reflexivity.
  apply IH. lia.
Qed.

Lemma lget_lset l i v j : (N.to_nat i < length l)%nat ->
  lget (lset l (N.to_nat i) v) j = if j =? i then v else lget l j.
Proof.
  intros Hl. unfold lget. rewrite nth_lset by assumption.
  destruct (Nat.eqb_spec (N.to_nat j) (N.to_nat i)) as [E|NE], (N.eqb_spec j i) as [E'|NE']; try reflexivity; lia.
Qed.

Lemma lclear_length l cur d : length (lclear l cur d) = length l.
Proof. induction d as [|k IH]; cbn [lclear]; [reflexivity|]. rewrite lset_length. exact IH. Qed.

Lemma lclear_spec l cur d j : length l = 128%nat ->
  lget (lclear l cur d) j = clear (fun i => lget l i) cur d j.
Proof.
  intros Hl. induction d as [|k IH]; cbn [lclear clear]; [reflexivity|].
  unfold PacketWindow.BLOCK_MASK, PacketWindow.RING_BLOCKS, PacketWindowFn.BLOCK_MASK. change (N.shiftl 1 7 - 1) with 127.
  rewrite lget_lset.
  - unfold upd. destruct (j =? N.land (cur + N.of_nat (S k)) 127); [reflexivity|exact IH].
  - rewrite lclear_length, Hl. rewrite land127. lia.
Qed.

(* the executable model with its constants evaluated *)
Definition pw_validate_lit (s : pw) (id limit : N) : pw * bool :=
  if limit <=? id then (s, false) else
  let moved :=
    if pw_last s <? id then
      let diff := N.shiftr id 6 - N.shiftr (pw_last s) 6 in
      let diff := if 128 <? diff then 128 else diff in
      Some {| pw_last := id; pw_ring := lclear (pw_ring s) (N.shiftr (pw_last s) 6) (N.to_nat diff) |}
    else if 8128 <? pw_last s - id then None
    else Some s in
  match moved with
  | None => (s, false)
  | Some s1 =>
    let ib := N.land (N.shiftr id 6) 127 in
    let old := lget (pw_ring s1) ib in
    let new := N.lor old (N.shiftl 1 (N.land id 63)) in
    ({| pw_last := pw_last s1; pw_ring := lset (pw_ring s1) (N.to_nat ib) new |}, negb (old =? new))
  end.
Lemma pw_validate_lit_eq s id limit : pw_validate s id limit = pw_validate_lit s id limit.
Proof. reflexivity. Qed.

(* one step: same verdict, abstraction commutes pointwise *)
Lemma pw_validate_sim s id limit s' b :
  length (pw_ring s) = 128%nat -> pw_validate s id limit = (s', b) ->
  exists f', validate (abs s) id limit = (f', b) /\ last f' = pw_last s' /\
             (forall i, ring f' i = lget (pw_ring s') i) /\ length (pw_ring s') = 128%nat.
Proof.
  intros Hl. rewrite pw_validate_lit_eq. unfold pw_validate_lit, validate.
  unfold PacketWindowFn.BLOCK_BIT_LOG, PacketWindowFn.RING_BLOCKS, PacketWindowFn.WINDOW,
         PacketWindowFn.BLOCK_MASK, PacketWindowFn.BIT_MASK.
  cbn [last ring abs].
  destruct (limit <=? id).
  { intros H; apply pair_equal_spec in H; destruct H as [<- <-]. eexists; repeat split; auto. }
  destruct (pw_last s <? id).
  - intros H; apply pair_equal_spec in H; destruct H as [<- <-]. cbn [pw_last pw_ring].
    set (d := N.to_nat (if 128 <? N.shiftr id 6 - N.shiftr (pw_last s) 6 then 128 else N.shiftr id 6 - N.shiftr (pw_last s) 6)).
    rewrite !lclear_spec by assumption.
    eexists; split; [reflexivity|]. cbn [last ring]. split; [reflexivity|split].
    + intro i. rewrite lget_lset.
      * unfold upd. destruct (i =? N.land (N.shiftr id 6) 127).
        -- reflexivity.
        -- symmetry; apply lclear_spec; assumption.
      * rewrite lclear_length, Hl, land127. lia.
    + rewrite lset_length, lclear_length. assumption.
  - destruct (8128 <? pw_last s - id).
    { intros H; apply pair_equal_spec in H; destruct H as [<- <-]. eexists; repeat split; auto. }
    intros H; apply pair_equal_spec in H; destruct H as [<- <-]. cbn [pw_last pw_ring last ring].
    eexists; split; [reflexivity|]. cbn [last ring]. split; [reflexivity|split].
    + intro i. rewrite lget_lset; [reflexivity|]. rewrite Hl, land127. lia.
    + rewrite lset_length. assumption.
Qed.

(* invariants only look at slots < 128 and at [last] *)
Lemma Inv2_ext f g acc : last f = last g -> (forall i, ring f i = ring g i) -> Inv2 f acc -> Inv2 g acc.
Proof.
  intros Hl Hr [H1 H2]. split.
  - intros j Hj. rewrite <- Hl. auto.
  - intros i t Hi Ht. rewrite <- Hr, <- Hl. auto.
Qed.
Lemma Hi_ext f g acc : last f = last g -> Hi f acc -> Hi g acc.
Proof. unfold Hi. intros ->. auto. Qed.

Definition accf (acc : list N) : N -> bool := fun j => existsb (N.eqb j) acc.

Lemma accf_cons acc id j : accf (id :: acc) j = add (accf acc) id j.
Proof. reflexivity. Qed.

Lemma spec_accept_iff acc id limit :
  PacketWindow.spec_accept acc id limit = true <-> PacketWindowFn.spec_accept (accf acc) id limit.
Proof.
  unfold PacketWindow.spec_accept, PacketWindowFn.spec_accept. change PacketWindow.WINDOW_SIZE with 8128.
  rewrite !andb_true_iff, negb_true_iff, N.ltb_lt, forallb_forall. unfold accf.
  split.
  - intros [[H1 H2] H3]. split; [assumption|split; [assumption|]].
    intros j Hj. apply existsb_exists in Hj as [x [Hx E]]. apply N.eqb_eq in E. subst x.
    specialize (H3 _ Hx). lia.
  - intros [H1 [H2 H3]]. split; [split; assumption|].
    intros x Hx. apply N.leb_le. apply H3. apply existsb_exists. exists x. split; [assumption|apply N.eqb_refl].
Qed.

Definition R (s : pw) (acc : list N) : Prop :=
  length (pw_ring s) = 128%nat /\ Inv2 (abs s) (accf acc) /\ Hi (abs s) (accf acc).

Lemma R_init : R pw_new [].
Proof.
  split; [reflexivity|]. destruct init_inv as [HI HH]. split.
  - eapply Inv2_ext; [| |exact HI]; [reflexivity|]. intro i. cbn [ring init abs pw_new pw_ring].
    unfold lget. change (N.to_nat PacketWindow.RING_BLOCKS) with 128%nat.
    symmetry. destruct (Nat.lt_ge_cases (N.to_nat i) 128) as [Hlt|Hge].
    + apply nth_repeat.
    + apply nth_overflow. rewrite repeat_length. assumption.
  - eapply Hi_ext; [|exact HH]. reflexivity.
Qed.

Lemma lists_eq_of_lget (l1 l2 : list N) : length l1 = 128%nat -> length l2 = 128%nat ->
  (forall i, lget l1 i = lget l2 i) -> l1 = l2.
Proof.
  intros H1 H2 H. apply (nth_ext l1 l2 0 0); [congruence|].
  intros n Hn. specialize (H (N.of_nat n)). unfold lget in H. rewrite Nat2N.id in H. exact H.
Qed.

(* the one-step theorem on the executable model *)
Theorem pw_validate_refines s acc id limit s' b :
  R s acc -> pw_validate s id limit = (s', b) ->
  b = PacketWindow.spec_accept acc id limit /\ R s' (if b then id :: acc else acc) /\ (b = false -> s' = s).
Proof.
  intros (Hl & HI & HH) Hv.
  destruct (pw_validate_sim s id limit s' b Hl Hv) as (f' & Hf & Hlast & Hring & Hl').
  destruct (validate_refines (abs s) (accf acc) id limit f' b HI HH Hf) as (Hiff & Hacc & Hrej).
  split; [|split].
  - destruct b.
    + symmetry. apply spec_accept_iff. apply Hiff. reflexivity.
    + destruct (PacketWindow.spec_accept acc id limit) eqn:E; [|reflexivity].
      apply spec_accept_iff in E. apply Hiff in E. discriminate.
  - destruct b.
    + destruct (Hacc eq_refl) as [HI' HH']. split; [assumption|]. split.
      * eapply Inv2_ext; [| |exact HI']; [exact Hlast|exact Hring].
      * eapply Hi_ext; [|exact HH']. exact Hlast.
    + destruct (Hrej eq_refl) as [HL HR]. cbn [last ring abs] in HL, HR. split; [assumption|]. split.
      * eapply Inv2_ext; [| |exact HI]; cbn [last ring abs]; [congruence|]. intro i. rewrite <- Hring, HR. reflexivity.
      * eapply Hi_ext; [|exact HH]. cbn [last abs]. congruence.
  - intros ->. destruct (Hrej eq_refl) as [HL HR]. destruct s as [l0 r0], s' as [l1 r1]. cbn [pw_last pw_ring last ring abs] in *.
    f_equal; [congruence|]. apply lists_eq_of_lget; [assumption|assumption|].
    intro i. rewrite <- Hring, HR. reflexivity.
Qed.

(* every finite history, any arrival order *)
Theorem pw_run_refines : forall ids s acc limit,
  R s acc -> snd (pw_run s ids limit) = snd (spec_run acc ids limit).
Proof.
  induction ids as [|id t IH]; intros s acc limit HR; cbn [pw_run spec_run]; [reflexivity|].
  destruct (pw_validate s id limit) as [s1 b] eqn:Hv.
  destruct (pw_validate_refines s acc id limit s1 b HR Hv) as (Hb & HR' & _).
  rewrite <- Hb. specialize (IH s1 (if b then id :: acc else acc) limit HR').
  destruct (pw_run s1 t limit) as [s2 bs]. destruct (spec_run (if b then id :: acc else acc) t limit) as [a2 bs'].
  cbn [snd] in *. congruence.
Qed.

Corollary pw_history_correct ids limit :
  snd (pw_run pw_new ids limit) = snd (spec_run [] ids limit).
Proof. apply pw_run_refines. apply R_init. Qed.

(* ids at or above the limit are always refused and leave the state untouched *)
Lemma pw_limit_respected s id limit : limit <= id -> pw_validate s id limit = (s, false).
Proof. intros H. unfold pw_validate. destruct (N.leb_spec limit id); [reflexivity|lia]. Qed.

(* reachability: R is preserved along any history *)
Lemma pw_run_R : forall ids s acc limit, R s acc ->
  exists acc', R (fst (pw_run s ids limit)) acc'.
Proof.
  induction ids as [|id t IH]; intros s acc limit HR; cbn [pw_run]; [exists acc; exact HR|].
  destruct (pw_validate s id limit) as [s1 b] eqn:Hv.
  destruct (pw_validate_refines s acc id limit s1 b HR Hv) as (_ & HR' & _).
  destruct (IH s1 _ limit HR') as [acc' H]. destruct (pw_run s1 t limit) as [s2 bs]. exists acc'. exact H.
Qed.

(* a refused id is invisible: the rest of the history is judged as if it had not arrived *)
Theorem pw_refused_invisible ids1 id ids2 limit :
  let s := fst (pw_run pw_new ids1 limit) in
  snd (pw_validate s id limit) = false ->
  snd (pw_run (fst (pw_validate s id limit)) ids2 limit) = snd (pw_run s ids2 limit).
Proof.
  intros s Hb. destruct (pw_run_R ids1 pw_new [] limit R_init) as [acc HR]. fold s in HR.
  destruct (pw_validate s id limit) as [s1 b] eqn:Hv. cbn [fst snd] in *. subst b.
  destruct (pw_validate_refines s acc id limit s1 false HR Hv) as (_ & _ & Hs). rewrite (Hs eq_refl). reflexivity.
Qed.
