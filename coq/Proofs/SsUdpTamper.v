(* Shadowsocks UDP datagrams under tampering, wrong keys and reflection (properties C05 and C06, datagram side).
   Facts about Model/SsUdp.v exactly as it is (codec/shadowsocks/udp.rs, aead_2022/udp.rs): nothing is redefined.

   THE HYPOTHESIS `forge_free cx sealed`.  `sealed` is the table of the units (key, nonce, plaintext, ciphertext)
   that were sealed honestly.  `derived cx k` is the set of AEAD keys the decoder `cx` can possibly derive from its
   CONFIGURED SECRETS, whatever the attacker writes into the unauthenticated part of a datagram:
       legacy kinds        k = au_key of new_auth_legacy kind (uc_key cx) salt      for ANY salt
       2022 AES kinds      k = udp_cipher_key kind (uc_key cx) sid                  for ANY sid  (no identity header)
                           k = udp_cipher_key kind (u_key u) sid, u REGISTERED      for ANY sid  (multi-user server)
       2022 XChaCha kinds  k = uc_key cx [..32]
   and
       forge_free cx sealed :=
         forall k n ct m, derived cx k -> p_open P (cipher of the kind) k n [] ct = Some m -> In (k, n, m, ct) sealed
   (the associated data is always [] in this codec).  This is the symbolic reading of "the attacker does not hold
   the secret": a ciphertext opens under a key derived from the configured secrets only if it was sealed, under
   that key and that nonce, by somebody who holds the secret.  It is a hypothesis on the function `p_open`
   RESTRICTED TO THE KEYS DERIVED FROM THE CONFIGURED SECRETS (AEAD unforgeability + the KDF outputs being
   unknown to the attacker).  It is a premise of the theorems: not an axiom, not a law of the primitives in
   general (an attacker may well open what he sealed under his own keys), not an assumption about the code.
   `wrong_key_*` uses the special case `forge_free cx []`: nothing on the wire was sealed under a derived key.

   What is proved (P is an arbitrary record of primitives; nothing is `_partial`; every proof ends with Qed):
   B. accepted_legacy_is_sealed / accepted_aes_is_sealed / accepted_xc_is_sealed / accepted_is_sealed
        ssu_decode = Ok (payload, addr, session) => `sealed` contains a unit (k, n, m, ct) where ct is EXACTLY the
        AEAD part of the datagram, (k, n) are EXACTLY the key and nonce named by its unauthenticated part, and m
        is the plaintext that s5_decode / udp_parse then accepted.
      accepted_multiuser_attributed    multi-user AES server: us_user s = Some u, u is registered, u is the user
        selected by the identity header, and the unit was sealed under udp_cipher_key (u_key u) sid: traffic
        authenticated as u is opened under u's key and attributed to u, never to another user.
   C. tampered_*_rejected (general: no unit of `sealed` has the named (key, nonce) and this ciphertext),
      tampered_*_rejected_neq (the datagram keeps the unauthenticated part of an honest datagram w but its AEAD
      part differs from w's in any way - flipped, truncated, extended - and no nonce was used twice under a key),
      refused_datagram_keeps_session_client / refused_datagram_invisible_client / unaccepted_datagram_dropped_client
      (a refused datagram is an Err item: the client session is untouched, the rest of the run is as if it had not
      arrived), session_decode_some_iff / refused_datagram_no_item_server (only an accepted datagram yields an item,
      hence an EvClient event of the association task).
   D. wrong_key_datagram_refused, wrong_key_session_decode_never_some (C06), unregistered_identity_refused
      (Err EBadUser), user_separation (the unit of a datagram attributed to u was sealed under u's key).
   E. reflection: accepted_aes_unit_typed / accepted_xc_unit_typed (symbolic: the accepted unit's plaintext carries
      the type byte of the OPPOSITE side), own_type_unit_rejected_aes/_xc and reflected_unit_rejected_aes/_xc (a unit
      whose plaintext starts with the decoder's own type byte is refused even when it opens, i.e. even when it is
      an honest unit under the very same key and nonce), reflection_refused_aes_client /
      _aes_server / _xc_client / _xc_server (concrete, prim_laws + udp_lens, no forge-freeness: what ssu_encode of a
      side produces is refused by a same-key decoder of the same side, all payloads / paddings / addresses).
      legacy_reflection_accepted: the LEGACY kinds have NO direction separation (a legacy datagram is accepted by
      a same-key decoder of either mode).  C05 claims reflection protection for Shadowsocks 2022 only: this is
      documentation of the protocol, not a defect of the implementation.
   F. Module UdpTamperExamples: a toy `prims` whose opener opens exactly the units of a concrete table
      (forge_free holds, together with acceptance of the honest datagrams: the hypotheses are jointly
      satisfiable), every forge_free theorem instantiated with all premises discharged, and computed attacks
      with a tag-checking toy AEAD.

   No theorem assumes BOTH forge_free (finite table) AND prim_laws (open (seal m) = m for every m): the two are
   jointly unsatisfiable.  B, C, D, E(i) use forge_free only (the session-level corollary adds the length facts
   udp_lens, which a table-lookup opener satisfies: ideal_udp_lens); E(ii), E(iii) and reflected_unit_rejected_*
   use prim_laws / udp_lens and no forge-freeness. *)
From Coq Require Import List NArith ZArith Lia Bool Arith ZifyBool ZifyN ZifyNat.
From Octo Require Import Base.Bytes Crypto.Prims Model.NonceGen Model.SsChunk Model.Address Model.SsTcp
  Model.PacketWindow Model.SsUdp Proofs.AddressFacts Proofs.CodecLemmas Proofs.SsChunkCanon Proofs.PacketWindowList
  Proofs.SsUdpFacts.
From Octo Require Proofs.SsTcpRoundtrip.     (* only for the toy primitives of the non-vacuity section *)
Import ListNotations.
Open Scope N_scope.

(* ---------------------------------------------------------------------------------------------- *)
(* P-independent helpers                                                                            *)
(* ---------------------------------------------------------------------------------------------- *)
Lemma Ok_inj {A} (a b : A) : Ok a = Ok b -> a = b.
Proof. intros H. injection H as H. exact H. Qed.

Lemma not_ok_is_err {A} (r : res A) : (forall a, r <> Ok a) -> r <> Panic -> exists e, r = Err e.
Proof. destruct r as [a|e|]; intros H1 H2; [exfalso; apply (H1 a); reflexivity|eauto|contradiction]. Qed.

Lemma takeN_takeN_le n m (l : bytes) : n <= m -> takeN n (takeN m l) = takeN n l.
Proof. intros H. unfold takeN. rewrite firstn_firstn. f_equal. lia. Qed.
Lemma takeN_dropN_take n m (l : bytes) : takeN n (dropN m l) = dropN m (takeN (m + n) l).
Proof. unfold takeN, dropN. rewrite firstn_skipn_comm. f_equal. f_equal. lia. Qed.

(* the parts of an AES-kind header block (the 16 bytes sid ‖ pid after AES decryption) *)
Definition hdr_sid (dec : bytes) : N := be (takeN 8 dec).
Definition hdr_pid (dec : bytes) : N := be (takeN 8 (dropN 8 dec)).
Definition hdr_nonce (dec : bytes) : bytes := takeN 12 (dropN 4 dec).         (* &sid_pid[4..16] *)

(* a sealed unit: key, nonce, plaintext, ciphertext *)
Definition unit4 := (bytes * bytes * bytes * bytes)%type.
(* no nonce is used twice under a key: at most one unit per (key, nonce) *)
Definition one_unit_per_nonce (sealed : list unit4) : Prop :=
  forall k n m ct m' ct', In (k, n, m, ct) sealed -> In (k, n, m', ct') sealed -> ct = ct'.

(* session fields fixed by udp_parse *)
Lemma udp_parse_session m now sid pid u pt p a s : udp_parse m now sid pid u pt = Ok (p, a, s) ->
  us_pid s = pid /\
  match m with
  | Client => us_ssid s = sid /\ us_user s = None
  | Server => us_csid s = sid /\ us_ssid s = 0 /\ us_user s = u
  end.
Proof.
  unfold udp_parse.
  destruct (get_u8 pt) as [[ty p1]|e|]; cbn [bind]; try discriminate.
  destruct (negb (ty =? mode_expect_u8 m)); [discriminate|].
  destruct (get_u64 p1) as [[ts p2]|e|]; cbn [bind]; try discriminate.
  destruct (negb (validate_timestamp now ts)); [discriminate|].
  destruct (match m with Client => get_u64 p2 | Server => Ok (sid, p2) end) as [[csid p3]|e|]; cbn [bind]; try discriminate.
  destruct (get_u16 p3) as [[padlen p4]|e|]; cbn [bind]; try discriminate.
  destruct (lenN p4 <? padlen); [discriminate|].
  destruct (advance padlen p4) as [p5|e|]; cbn [bind]; try discriminate.
  destruct (s5_decode p5) as [[a' p6]|e|]; cbn [bind]; try discriminate.
  intros H. apply Ok_inj in H. apply pair_equal_spec in H. destruct H as [_ <-].
  destruct m; cbn [us_pid us_ssid us_csid us_user]; auto.
Qed.

Section SsUdpTamper.
  Variable P : prims.

  (* ============================================================================================ *)
  (* A. the keys derived from the configured secrets; forge-freeness                               *)
  (* ============================================================================================ *)
  (* the AEAD the codec selects: CipherMethod::new for the legacy kinds, new_cipher for the 2022 kinds *)
  Definition ssu_cipher (k : kind) : N := if is_2022 k then udp_cipher_id k else kind_cipher k.

  (* legacy session key: HKDF-SHA1(key, salt, "ss-subkey")[..KeySize] *)
  Definition leg_key (k : kind) (key salt : bytes) : bytes :=
    takeN (cipher_key_size (kind_cipher k)) (p_hkdf_sha1 P key salt SUBKEY_INFO (lenN salt)).

  Lemma new_auth_legacy_inv k key salt au : new_auth_legacy P k key salt = Ok au ->
    au_cipher au = kind_cipher k /\ au_key au = leg_key k key salt /\ au_nonce au = inc_init.
  Proof.
    unfold new_auth_legacy, auth_new, leg_key.
    destruct (lenN (p_hkdf_sha1 P key salt SUBKEY_INFO (lenN salt)) <? cipher_key_size (kind_cipher k)); [discriminate|].
    intros H. apply Ok_inj in H. subst au. cbn [au_cipher au_key au_nonce]. auto.
  Qed.

  Definition cx_users (cx : uctx) : list user := match uc_users cx with Some us => us | None => [] end.

  Inductive derived (cx : uctx) : bytes -> Prop :=
  | Dv_legacy salt au :
      is_2022 (uc_kind cx) = false ->
      new_auth_legacy P (uc_kind cx) (uc_key cx) salt = Ok au -> derived cx (au_key au)
  | Dv_aes_psk sid k :
      support_eih (uc_kind cx) = true -> udp_require_eih cx = false ->
      udp_cipher_key P (uc_kind cx) (uc_key cx) sid = Ok k -> derived cx k
  | Dv_aes_user u sid k :
      support_eih (uc_kind cx) = true -> udp_require_eih cx = true -> In u (cx_users cx) ->
      udp_cipher_key P (uc_kind cx) (u_key u) sid = Ok k -> derived cx k
  | Dv_xc k :
      is_2022 (uc_kind cx) = true -> support_eih (uc_kind cx) = false ->
      udp_cipher_key P (uc_kind cx) (uc_key cx) 0 = Ok k -> derived cx k.

  Definition forge_free (cx : uctx) (sealed : list unit4) : Prop :=
    forall k n ct m, derived cx k -> p_open P (ssu_cipher (uc_kind cx)) k n [] ct = Some m -> In (k, n, m, ct) sealed.

  (* nothing at all opens under a derived key: every datagram on the wire was sealed under other secrets *)
  Definition opens_nothing (cx : uctx) : Prop :=
    forall k n ct m, derived cx k -> p_open P (ssu_cipher (uc_kind cx)) k n [] ct = Some m -> False.

  Lemma opens_nothing_forge_free cx : opens_nothing cx <-> forge_free cx [].
  Proof.
    split.
    - intros H k n ct m Hd Ho. exfalso. exact (H k n ct m Hd Ho).
    - intros H k n ct m Hd Ho. exact (H k n ct m Hd Ho).
  Qed.

  Lemma ssu_cipher_aes k : support_eih k = true -> ssu_cipher k = udp_cipher_id k.
  Proof. intros H. unfold ssu_cipher. destruct k; cbn in *; congruence. Qed.
  Lemma ssu_cipher_2022 k : is_2022 k = true -> ssu_cipher k = udp_cipher_id k.
  Proof. intros H. unfold ssu_cipher. rewrite H. reflexivity. Qed.
  Lemma ssu_cipher_legacy k : is_2022 k = false -> ssu_cipher k = kind_cipher k.
  Proof. intros H. unfold ssu_cipher. rewrite H. reflexivity. Qed.
  Lemma aes_2022 k : support_eih k = true -> is_2022 k = true.
  Proof. destruct k; cbn; congruence. Qed.

  (* ============================================================================================ *)
  (* B. accept implies honest unit                                                                 *)
  (* ============================================================================================ *)

  (* ---------------- legacy kinds: salt ‖ AEAD(address ‖ payload) ---------------- *)
  Lemma ssu_decode_legacy_inv cx src payload a s :
    ssu_decode_legacy P cx src = Ok (payload, a, s) ->
    let n := lenN (uc_key cx) in
    exists au m,
      n <= lenN src /\
      new_auth_legacy P (uc_kind cx) (uc_key cx) (takeN n src) = Ok au /\
      p_open P (kind_cipher (uc_kind cx)) (leg_key (uc_kind cx) (uc_key cx) (takeN n src)) (inc inc_init) [] (dropN n src) = Some m /\
      s5_decode m = Ok (a, payload) /\ s = usess_default.
  Proof.
    cbn zeta. unfold ssu_decode_legacy.
    destruct (N.ltb_spec (lenN src) (lenN (uc_key cx))) as [|Hlen]; [discriminate|].
    rewrite split_to_ok by exact Hlen. cbn [bind].
    destruct (HKDF_SHA1_MAX <? lenN (uc_key cx)); [discriminate|].
    destruct (new_auth_legacy P (uc_kind cx) (uc_key cx) (takeN (lenN (uc_key cx)) src)) as [au|e|] eqn:Eau; cbn [bind]; try discriminate.
    destruct (new_auth_legacy_inv _ _ _ _ Eau) as (Hc & Hk & Hn).
    unfold decode_packet, auth_open. cbn [fst auth_step au_nonce]. rewrite Hc, Hk, Hn.
    destruct (p_open P (kind_cipher (uc_kind cx)) (leg_key (uc_kind cx) (uc_key cx) (takeN (lenN (uc_key cx)) src))
                (inc inc_init) [] (dropN (lenN (uc_key cx)) src)) as [m|] eqn:Eo; cbn [bind]; [|discriminate].
    destruct (s5_decode m) as [[a' p]|e|] eqn:Es; cbn [bind]; try discriminate.
    intros H. apply Ok_inj in H. apply pair_equal_spec in H. destruct H as [H <-].
    apply pair_equal_spec in H. destruct H as [<- <-].
    exists au, m. auto.
  Qed.

  Theorem accepted_legacy_is_sealed cx sealed now src payload a s :
    is_2022 (uc_kind cx) = false -> forge_free cx sealed ->
    ssu_decode P cx now src = Ok (payload, a, s) ->
    let n := lenN (uc_key cx) in
    exists m,
      n <= lenN src /\
      In (leg_key (uc_kind cx) (uc_key cx) (takeN n src), inc inc_init, m, dropN n src) sealed /\
      s5_decode m = Ok (a, payload) /\ s = usess_default.
  Proof.
    intros E22 HF H. cbn zeta. unfold ssu_decode in H. rewrite E22 in H.
    destruct (ssu_decode_legacy_inv _ _ _ _ _ H) as (au & m & Hlen & Hau & Ho & Hs & Hd).
    exists m. split; [exact Hlen|]. split; [|auto].
    apply HF.
    - destruct (new_auth_legacy_inv _ _ _ _ Hau) as (_ & <- & _). eapply Dv_legacy; eassumption.
    - rewrite ssu_cipher_legacy by exact E22. exact Ho.
  Qed.

  (* ---------------- 2022 AES kinds: AES(sid ‖ pid) [‖ AES(identity)] ‖ AEAD(body) ---------------- *)
  Definition aes_text_off (cx : uctx) : N := if udp_require_eih cx then 32 else 16.

  (* the user selected by the identity header (None: no identity header is expected) *)
  Definition aes_user (cx : uctx) (dec src : bytes) : res (option user) :=
    if udp_require_eih cx then
      let* e := aes_block_dec P (uc_kind cx) (uc_key cx) (takeN 16 (dropN 16 src)) in
      match find_user (cx_users cx) (xor_into e dec) with
      | Some u => Ok (Some u)
      | None => Err EBadUser
      end
    else Ok None.

  Lemma aes_user_registered cx dec src u : aes_user cx dec src = Ok (Some u) ->
    udp_require_eih cx = true /\ In u (cx_users cx) /\
    exists e, aes_block_dec P (uc_kind cx) (uc_key cx) (takeN 16 (dropN 16 src)) = Ok e /\
              u_hash u = xor_into e dec.
  Proof.
    unfold aes_user. destruct (udp_require_eih cx); [|discriminate].
    destruct (aes_block_dec P (uc_kind cx) (uc_key cx) (takeN 16 (dropN 16 src))) as [e|e|]; cbn [bind]; try discriminate.
    destruct (find_user (cx_users cx) (xor_into e dec)) as [u'|] eqn:Ef; [|discriminate].
    intros H. apply Ok_inj in H. injection H as ->.
    unfold find_user in Ef. apply find_some in Ef. destruct Ef as [Hin Hh].
    split; [reflexivity|]. split; [exact Hin|]. exists e. split; [reflexivity|].
    unfold bytes_eqb in Hh. destruct (list_eq_dec N.eq_dec (u_hash u) (xor_into e dec)); [assumption|discriminate].
  Qed.
  Lemma aes_user_none cx dec src : aes_user cx dec src = Ok None -> udp_require_eih cx = false.
  Proof.
    unfold aes_user. destruct (udp_require_eih cx); [|reflexivity].
    destruct (aes_block_dec P (uc_kind cx) (uc_key cx) (takeN 16 (dropN 16 src))) as [e|e|]; cbn [bind]; try discriminate.
    destruct (find_user (cx_users cx) (xor_into e dec)); discriminate.
  Qed.

  Definition user_key (cx : uctx) (u : option user) : bytes := match u with Some u => u_key u | None => uc_key cx end.

  Lemma udp_open_aes_inv cx src sid pid u pt :
    udp_open_aes P cx (udp_require_eih cx) src = Ok (sid, pid, u, pt) ->
    exists dec k,
      16 <= lenN src /\
      aes_block_dec P (uc_kind cx) (uc_key cx) (takeN 16 src) = Ok dec /\ 16 <= lenN dec /\
      sid = hdr_sid dec /\ pid = hdr_pid dec /\
      aes_user cx dec src = Ok u /\
      udp_cipher_key P (uc_kind cx) (user_key cx u) sid = Ok k /\
      p_open P (udp_cipher_id (uc_kind cx)) k (hdr_nonce dec) [] (dropN (aes_text_off cx) src) = Some pt.
  Proof.
    unfold udp_open_aes, split_to.
    destruct (N.leb_spec 16 (lenN src)) as [Hl|]; cbn [bind]; [|discriminate].
    destruct (aes_block_dec P (uc_kind cx) (uc_key cx) (takeN 16 src)) as [dec|e|] eqn:Edec; cbn [bind]; try discriminate.
    destruct (N.ltb_spec (lenN dec) 16) as [|Hd]; cbn [bind]; [discriminate|].
    rewrite get_u64_ok by lia. cbn [bind]. rewrite get_u64_ok by (rewrite lenN_dropN; lia). cbn [bind].
    unfold aes_user, aes_text_off, cx_users.
    destruct (udp_require_eih cx) eqn:Ereq.
    - destruct (N.leb_spec 16 (lenN (dropN 16 src))) as [Hl2|]; cbn [bind]; [|discriminate].
      destruct (aes_block_dec P (uc_kind cx) (uc_key cx) (takeN 16 (dropN 16 src))) as [e|e|] eqn:Ee; cbn [bind]; try discriminate.
      destruct (find_user (match uc_users cx with Some us => us | None => [] end) (xor_into e dec)) as [u'|] eqn:Ef;
        cbn [bind]; [|discriminate].
      destruct (udp_cipher_key P (uc_kind cx) (u_key u') (be (takeN 8 dec))) as [ck|e'|] eqn:Eck; cbn [bind]; try discriminate.
      rewrite dropN_dropN. change (16 + 16) with 32.
      destruct (p_open P (udp_cipher_id (uc_kind cx)) ck (takeN 12 (dropN 4 dec)) [] (dropN 32 src)) as [pt'|] eqn:Eo; [|discriminate].
      intros H. apply Ok_inj in H. apply pair_equal_spec in H. destruct H as [H <-].
      apply pair_equal_spec in H. destruct H as [H <-]. apply pair_equal_spec in H. destruct H as [<- <-].
      exists dec, ck. unfold hdr_sid, hdr_pid, hdr_nonce, user_key.
      split; [exact Hl|]. split; [reflexivity|]. split; [exact Hd|]. split; [reflexivity|]. split; [reflexivity|].
      split; [cbn [bind]; rewrite Ef; reflexivity|]. split; assumption.
    - cbn [bind].
      destruct (udp_cipher_key P (uc_kind cx) (uc_key cx) (be (takeN 8 dec))) as [ck|e'|] eqn:Eck; cbn [bind]; try discriminate.
      destruct (p_open P (udp_cipher_id (uc_kind cx)) ck (takeN 12 (dropN 4 dec)) [] (dropN 16 src)) as [pt'|] eqn:Eo; [|discriminate].
      intros H. apply Ok_inj in H. apply pair_equal_spec in H. destruct H as [H <-].
      apply pair_equal_spec in H. destruct H as [H <-]. apply pair_equal_spec in H. destruct H as [<- <-].
      exists dec, ck. unfold hdr_sid, hdr_pid, hdr_nonce, user_key.
      split; [exact Hl|]. split; [reflexivity|]. split; [exact Hd|]. split; [reflexivity|]. split; [reflexivity|].
      split; [reflexivity|]. split; assumption.
  Qed.

  Lemma ssu_decode_aes_inv cx now src r :
    support_eih (uc_kind cx) = true -> ssu_decode P cx now src = Ok r ->
    exists sid pid u pt, udp_header_length cx <= lenN src /\
      udp_open_aes P cx (udp_require_eih cx) src = Ok (sid, pid, u, pt) /\
      udp_parse (uc_mode cx) now sid pid u pt = Ok r.
  Proof.
    intros Hk H. unfold ssu_decode in H. rewrite (aes_2022 _ Hk) in H. unfold ssu_decode_2022 in H.
    destruct (N.ltb_spec (lenN src) (udp_header_length cx)) as [|Hl]; [discriminate|].
    rewrite Hk in H.
    destruct (udp_open_aes P cx (udp_require_eih cx) src) as [[[[sid pid] u] pt]|e|]; cbn [bind] in H; try discriminate.
    exists sid, pid, u, pt. auto.
  Qed.

  Theorem accepted_aes_is_sealed cx sealed now src payload a s :
    support_eih (uc_kind cx) = true -> forge_free cx sealed ->
    ssu_decode P cx now src = Ok (payload, a, s) ->
    exists dec u k m,
      (* the unauthenticated part: header block [+ identity header] *)
      aes_block_dec P (uc_kind cx) (uc_key cx) (takeN 16 src) = Ok dec /\
      aes_user cx dec src = Ok u /\
      udp_cipher_key P (uc_kind cx) (user_key cx u) (hdr_sid dec) = Ok k /\
      (* the AEAD part is an honest unit under exactly that key and nonce *)
      In (k, hdr_nonce dec, m, dropN (aes_text_off cx) src) sealed /\
      (* and its plaintext is what was parsed *)
      udp_parse (uc_mode cx) now (hdr_sid dec) (hdr_pid dec) u m = Ok (payload, a, s).
  Proof.
    intros Hk HF H.
    destruct (ssu_decode_aes_inv _ _ _ _ Hk H) as (sid & pid & u & pt & _ & Ho & Hp).
    destruct (udp_open_aes_inv _ _ _ _ _ _ Ho) as (dec & k & _ & Hdec & _ & -> & -> & Hu & Hck & Hopen).
    exists dec, u, k, pt. repeat split; try assumption.
    apply HF; [|rewrite ssu_cipher_aes by exact Hk; exact Hopen].
    destruct u as [u|].
    - destruct (aes_user_registered _ _ _ _ Hu) as (Hreq & Hin & _).
      eapply Dv_aes_user; eassumption.
    - eapply Dv_aes_psk; [exact Hk|exact (aes_user_none _ _ _ Hu)|exact Hck].
  Qed.

  (* C06, multi-user server: the datagram is attributed to the user whose key sealed it *)
  Theorem accepted_multiuser_attributed cx sealed now src payload a s :
    support_eih (uc_kind cx) = true -> udp_require_eih cx = true -> forge_free cx sealed ->
    ssu_decode P cx now src = Ok (payload, a, s) ->
    exists dec e u k m,
      us_user s = Some u /\ In u (cx_users cx) /\
      aes_block_dec P (uc_kind cx) (uc_key cx) (takeN 16 src) = Ok dec /\
      aes_block_dec P (uc_kind cx) (uc_key cx) (takeN 16 (dropN 16 src)) = Ok e /\
      u_hash u = xor_into e dec /\
      udp_cipher_key P (uc_kind cx) (u_key u) (hdr_sid dec) = Ok k /\
      In (k, hdr_nonce dec, m, dropN 32 src) sealed /\
      us_csid s = hdr_sid dec /\ us_pid s = hdr_pid dec.
  Proof.
    intros Hk Hreq HF H.
    destruct (accepted_aes_is_sealed _ _ _ _ _ _ _ Hk HF H) as (dec & u & k & m & Hdec & Hu & Hck & Hin & Hp).
    assert (Hmode : uc_mode cx = Server).
    { unfold udp_require_eih in Hreq. destruct (uc_mode cx); [discriminate|reflexivity]. }
    rewrite Hmode in Hp. apply udp_parse_session in Hp. destruct Hp as (Hpid & Hsid & _ & Huser).
    destruct u as [u|].
    - destruct (aes_user_registered _ _ _ _ Hu) as (_ & Hreg & e & He & Hh).
      unfold aes_text_off in Hin. rewrite Hreq in Hin.
      exists dec, e, u, k, m. repeat split; assumption.
    - apply aes_user_none in Hu. congruence.
  Qed.

  (* ---------------- 2022 XChaCha kinds: nonce ‖ AEAD(sid ‖ pid ‖ body) ---------------- *)
  Lemma udp_open_xc_inv cx src sid pid u pt :
    udp_open_xc P cx src = Ok (sid, pid, u, pt) ->
    exists k m,
      24 <= lenN src /\ udp_cipher_key P (uc_kind cx) (uc_key cx) 0 = Ok k /\
      p_open P (udp_cipher_id (uc_kind cx)) k (takeN 24 src) [] (dropN 24 src) = Some m /\
      16 <= lenN m /\ sid = hdr_sid m /\ pid = hdr_pid m /\ u = None /\ pt = dropN 16 m.
  Proof.
    unfold udp_open_xc, split_to.
    destruct (N.leb_spec 24 (lenN src)) as [Hl|]; cbn [bind]; [|discriminate].
    destruct (lenN (dropN 24 src) <? 8); [discriminate|].
    destruct (udp_cipher_key P (uc_kind cx) (uc_key cx) 0) as [ck|e|]; cbn [bind]; try discriminate.
    destruct (p_open P (udp_cipher_id (uc_kind cx)) ck (takeN 24 src) [] (dropN 24 src)) as [m|] eqn:Eo; [|discriminate].
    destruct (get_u64 m) as [[sid' p1]|e|] eqn:E1; cbn [bind]; try discriminate.
    destruct (get_be_inv _ _ _ _ E1) as (H1 & -> & ->).
    destruct (get_u64 (dropN 8 m)) as [[pid' p2]|e|] eqn:E2; cbn [bind]; try discriminate.
    destruct (get_be_inv _ _ _ _ E2) as (H2 & -> & ->).
    rewrite lenN_dropN in H2. rewrite dropN_dropN. change (8 + 8) with 16.
    intros H. apply Ok_inj in H. apply pair_equal_spec in H. destruct H as [H <-].
    apply pair_equal_spec in H. destruct H as [H <-]. apply pair_equal_spec in H. destruct H as [<- <-].
    exists ck, m. unfold hdr_sid, hdr_pid. repeat split; try assumption; try reflexivity. lia.
  Qed.

  Lemma ssu_decode_xc_inv cx now src r :
    is_2022 (uc_kind cx) = true -> support_eih (uc_kind cx) = false -> ssu_decode P cx now src = Ok r ->
    exists sid pid u pt, udp_header_length cx <= lenN src /\
      udp_open_xc P cx src = Ok (sid, pid, u, pt) /\
      udp_parse (uc_mode cx) now sid pid u pt = Ok r.
  Proof.
    intros E22 Hk H. unfold ssu_decode in H. rewrite E22 in H. unfold ssu_decode_2022 in H.
    destruct (N.ltb_spec (lenN src) (udp_header_length cx)) as [|Hl]; [discriminate|].
    rewrite Hk in H.
    destruct (udp_open_xc P cx src) as [[[[sid pid] u] pt]|e|]; cbn [bind] in H; try discriminate.
    exists sid, pid, u, pt. auto.
  Qed.

  Lemma udp_cipher_key_xc_inv k key sid ck : support_eih k = false -> udp_cipher_key P k key sid = Ok ck ->
    32 <= lenN key /\ ck = takeN 32 key.
  Proof.
    intros Hk. unfold udp_cipher_key. rewrite Hk. destruct (N.ltb_spec (lenN key) 32) as [|Hl]; [discriminate|].
    intros E. apply Ok_inj in E. auto.
  Qed.

  Theorem accepted_xc_is_sealed cx sealed now src payload a s :
    is_2022 (uc_kind cx) = true -> support_eih (uc_kind cx) = false -> forge_free cx sealed ->
    ssu_decode P cx now src = Ok (payload, a, s) ->
    exists m,
      32 <= lenN (uc_key cx) /\ 24 <= lenN src /\ 16 <= lenN m /\
      In (takeN 32 (uc_key cx), takeN 24 src, m, dropN 24 src) sealed /\
      udp_parse (uc_mode cx) now (hdr_sid m) (hdr_pid m) None (dropN 16 m) = Ok (payload, a, s).
  Proof.
    intros E22 Hk HF H.
    destruct (ssu_decode_xc_inv _ _ _ _ E22 Hk H) as (sid & pid & u & pt & _ & Ho & Hp).
    destruct (udp_open_xc_inv _ _ _ _ _ _ Ho) as (k & m & Hl & Hck & Hopen & Hm & -> & -> & -> & ->).
    destruct (udp_cipher_key_xc_inv _ _ _ _ Hk Hck) as (Hkl & Hkeq).
    exists m. repeat split; try assumption.
    rewrite <- Hkeq. apply HF; [|rewrite ssu_cipher_2022 by exact E22; exact Hopen].
    apply Dv_xc; assumption.
  Qed.

  (* ---------------- all kinds ---------------- *)
  Lemma kind_family k :
    is_2022 k = false \/ support_eih k = true \/ (is_2022 k = true /\ support_eih k = false).
  Proof. destruct k; cbn; auto. Qed.

  (* whatever is accepted was opened from a unit of `sealed` whose key is derived from the configured
     secrets and whose ciphertext is a suffix of the datagram *)
  Theorem accepted_is_sealed cx sealed now src r :
    forge_free cx sealed -> ssu_decode P cx now src = Ok r ->
    exists k n m off, derived cx k /\ In (k, n, m, dropN off src) sealed.
  Proof.
    intros HF H. destruct r as [[payload a] s].
    destruct (kind_family (uc_kind cx)) as [E|[E|[E1 E2]]].
    - pose proof H as H0. unfold ssu_decode in H0. rewrite E in H0.
      destruct (ssu_decode_legacy_inv _ _ _ _ _ H0) as (au & _ & _ & Hau & _).
      destruct (accepted_legacy_is_sealed _ _ _ _ _ _ _ E HF H) as (m & _ & Hin & _).
      exists (leg_key (uc_kind cx) (uc_key cx) (takeN (lenN (uc_key cx)) src)), (inc inc_init), m, (lenN (uc_key cx)).
      split; [|exact Hin].
      destruct (new_auth_legacy_inv _ _ _ _ Hau) as (_ & <- & _). eapply Dv_legacy; eassumption.
    - destruct (accepted_aes_is_sealed _ _ _ _ _ _ _ E HF H) as (dec & u & k & m & _ & Hu & Hck & Hin & _).
      exists k, (hdr_nonce dec), m, (aes_text_off cx). split; [|exact Hin].
      destruct u as [u|].
      + destruct (aes_user_registered _ _ _ _ Hu) as (Hreq & Hreg & _). eapply Dv_aes_user; eassumption.
      + eapply Dv_aes_psk; [exact E|exact (aes_user_none _ _ _ Hu)|exact Hck].
    - pose proof H as H0.
      destruct (ssu_decode_xc_inv _ _ _ _ E1 E2 H0) as (sid & pid & u & pt & _ & Ho & _).
      destruct (udp_open_xc_inv _ _ _ _ _ _ Ho) as (k & _ & _ & Hck & _).
      destruct (udp_cipher_key_xc_inv _ _ _ _ E2 Hck) as (_ & ->).
      destruct (accepted_xc_is_sealed _ _ _ _ _ _ _ E1 E2 HF H) as (m & _ & _ & _ & Hin & _).
      exists (takeN 32 (uc_key cx)), (takeN 24 src), m, 24. split; [|exact Hin].
      apply Dv_xc; assumption.
  Qed.

  (* ============================================================================================ *)
  (* C. a tampered datagram is dropped entirely                                                    *)
  (* ============================================================================================ *)
  (* general form (contrapositive of B): the unauthenticated part of src names a key and a nonce; if `sealed`
     has no unit under that key and nonce with src's AEAD part as ciphertext, src is not accepted *)
  Theorem tampered_legacy_rejected cx sealed now src :
    is_2022 (uc_kind cx) = false -> forge_free cx sealed ->
    let n := lenN (uc_key cx) in
    (forall m, ~ In (leg_key (uc_kind cx) (uc_key cx) (takeN n src), inc inc_init, m, dropN n src) sealed) ->
    forall r, ssu_decode P cx now src <> Ok r.
  Proof.
    intros E22 HF n Hnot [[payload a] s] H.
    destruct (accepted_legacy_is_sealed _ _ _ _ _ _ _ E22 HF H) as (m & _ & Hin & _).
    exact (Hnot m Hin).
  Qed.

  (* src keeps the salt of an honest datagram w, its AEAD part is not w's *)
  Corollary tampered_legacy_rejected_neq cx sealed now src w mw :
    is_2022 (uc_kind cx) = false -> forge_free cx sealed -> one_unit_per_nonce sealed ->
    let n := lenN (uc_key cx) in
    In (leg_key (uc_kind cx) (uc_key cx) (takeN n w), inc inc_init, mw, dropN n w) sealed ->
    takeN n src = takeN n w -> dropN n src <> dropN n w ->
    forall r, ssu_decode P cx now src <> Ok r.
  Proof.
    intros E22 HF H1 n Hw Hsalt Hne. apply (tampered_legacy_rejected cx sealed now src E22 HF).
    fold n. rewrite Hsalt. intros m Hin. apply Hne. exact (H1 _ _ _ _ _ _ Hin Hw).
  Qed.

  Theorem tampered_aes_rejected cx sealed now src :
    support_eih (uc_kind cx) = true -> forge_free cx sealed ->
    (forall dec u k m,
       aes_block_dec P (uc_kind cx) (uc_key cx) (takeN 16 src) = Ok dec ->
       aes_user cx dec src = Ok u ->
       udp_cipher_key P (uc_kind cx) (user_key cx u) (hdr_sid dec) = Ok k ->
       ~ In (k, hdr_nonce dec, m, dropN (aes_text_off cx) src) sealed) ->
    forall r, ssu_decode P cx now src <> Ok r.
  Proof.
    intros Hk HF Hnot [[payload a] s] H.
    destruct (accepted_aes_is_sealed _ _ _ _ _ _ _ Hk HF H) as (dec & u & k & m & Hdec & Hu & Hck & Hin & _).
    exact (Hnot dec u k m Hdec Hu Hck Hin).
  Qed.

  Lemma aes_text_off_ge cx : 16 <= aes_text_off cx.
  Proof. unfold aes_text_off. destruct (udp_require_eih cx); lia. Qed.

  (* the identity header lies inside the first aes_text_off bytes *)
  Lemma aes_user_prefix cx dec src w :
    takeN (aes_text_off cx) src = takeN (aes_text_off cx) w -> aes_user cx dec src = aes_user cx dec w.
  Proof.
    unfold aes_user, aes_text_off. destruct (udp_require_eih cx); [|reflexivity].
    intros H. rewrite !takeN_dropN_take. change (16 + 16) with 32. rewrite H. reflexivity.
  Qed.

  (* src keeps the header block [and identity header] of an honest datagram w, its AEAD part is not w's *)
  Corollary tampered_aes_rejected_neq cx sealed now src w dec u k mw :
    support_eih (uc_kind cx) = true -> forge_free cx sealed -> one_unit_per_nonce sealed ->
    let off := aes_text_off cx in
    aes_block_dec P (uc_kind cx) (uc_key cx) (takeN 16 w) = Ok dec ->
    aes_user cx dec w = Ok u ->
    udp_cipher_key P (uc_kind cx) (user_key cx u) (hdr_sid dec) = Ok k ->
    In (k, hdr_nonce dec, mw, dropN off w) sealed ->
    takeN off src = takeN off w -> dropN off src <> dropN off w ->
    forall r, ssu_decode P cx now src <> Ok r.
  Proof.
    intros Hk HF H1 off Hdec Hu Hck Hw Hhdr Hne. apply (tampered_aes_rejected cx sealed now src Hk HF).
    intros dec' u' k' m Hdec' Hu' Hck' Hin.
    assert (H16 : takeN 16 src = takeN 16 w).
    { rewrite <- (takeN_takeN_le 16 off src), <- (takeN_takeN_le 16 off w) by apply aes_text_off_ge.
      rewrite Hhdr. reflexivity. }
    rewrite H16, Hdec in Hdec'. apply Ok_inj in Hdec'. subst dec'.
    rewrite (aes_user_prefix cx dec src w Hhdr), Hu in Hu'. apply Ok_inj in Hu'. subst u'.
    rewrite Hck in Hck'. apply Ok_inj in Hck'. subst k'.
    apply Hne. exact (H1 _ _ _ _ _ _ Hin Hw).
  Qed.

  Theorem tampered_xc_rejected cx sealed now src :
    is_2022 (uc_kind cx) = true -> support_eih (uc_kind cx) = false -> forge_free cx sealed ->
    (forall m, ~ In (takeN 32 (uc_key cx), takeN 24 src, m, dropN 24 src) sealed) ->
    forall r, ssu_decode P cx now src <> Ok r.
  Proof.
    intros E22 Hk HF Hnot [[payload a] s] H.
    destruct (accepted_xc_is_sealed _ _ _ _ _ _ _ E22 Hk HF H) as (m & _ & _ & _ & Hin & _).
    exact (Hnot m Hin).
  Qed.

  (* src keeps the nonce of an honest datagram w, its AEAD part is not w's *)
  Corollary tampered_xc_rejected_neq cx sealed now src w mw :
    is_2022 (uc_kind cx) = true -> support_eih (uc_kind cx) = false -> forge_free cx sealed ->
    one_unit_per_nonce sealed ->
    In (takeN 32 (uc_key cx), takeN 24 w, mw, dropN 24 w) sealed ->
    takeN 24 src = takeN 24 w -> dropN 24 src <> dropN 24 w ->
    forall r, ssu_decode P cx now src <> Ok r.
  Proof.
    intros E22 Hk HF H1 Hw Hn Hne. apply (tampered_xc_rejected cx sealed now src E22 Hk HF).
    rewrite Hn. intros m Hin. apply Hne. exact (H1 _ _ _ _ _ _ Hin Hw).
  Qed.

  (* ---------------- the session level: a refused datagram changes nothing ---------------- *)
  Lemma session_decode_some_iff cx now src r :
    ssu_session_decode P cx now src = Ok (Some r) <-> src <> [] /\ ssu_decode P cx now src = Ok r.
  Proof.
    unfold ssu_session_decode. destruct src as [|x t].
    - split; [discriminate|]. intros [H _]. congruence.
    - destruct (ssu_decode P cx now (x :: t)) as [r'|e|]; cbn [bind]; split.
      + intros H. apply Ok_inj in H. injection H as ->. split; [discriminate|reflexivity].
      + intros [_ H]. apply Ok_inj in H. subst r'. reflexivity.
      + discriminate.
      + intros [_ H]. discriminate H.
      + discriminate.
      + intros [_ H]. discriminate H.
  Qed.
  Lemma session_decode_err cx now src e :
    src <> [] -> ssu_decode P cx now src = Err e -> ssu_session_decode P cx now src = Err e.
  Proof.
    intros Hne H. unfold ssu_session_decode. destruct src as [|x t]; [congruence|]. rewrite H. reflexivity.
  Qed.

  (* Server side.  The only caller of SessionCodec::decode on the server hands `Ok (Some (content, peer, s))`
     to the association task as an `EvClient content peer s _` event (Model/SsUdp.v, server_assoc_step); an Err
     is logged and the datagram is dropped before any association is looked up or created.  So a datagram that
     ssu_decode does not accept yields no item, hence no EvClient event, no ASendPeer action, no filter update. *)
  Theorem refused_datagram_no_item_server cx now src :
    (forall r, ssu_decode P cx now src <> Ok r) -> forall r, ssu_session_decode P cx now src <> Ok (Some r).
  Proof. intros H r Hs. apply session_decode_some_iff in Hs. exact (H r (proj2 Hs)). Qed.

  (* Client side: DatagramPacketCodec::decode returns the error, the state is not touched (UdpFramed keeps the
     codec and goes on with the next datagram) *)
  Theorem refused_datagram_keeps_session_client cx rp now st src e :
    src <> [] -> ssu_decode P cx now src = Err e -> client_dgram_decode P cx rp now st src = Err e.
  Proof.
    intros Hne H. rewrite client_dgram_decode_of_session, (session_decode_err _ _ _ _ Hne H). reflexivity.
  Qed.
  Theorem refused_datagram_invisible_client cx rp now st src e rest :
    src <> [] -> ssu_decode P cx now src = Err e ->
    client_dgram_run P cx rp now st (src :: rest)
    = (fst (client_dgram_run P cx rp now st rest), Err e :: snd (client_dgram_run P cx rp now st rest)).
  Proof.
    intros Hne H. cbn [client_dgram_run]. rewrite (refused_datagram_keeps_session_client cx rp now st src e Hne H).
    destruct (client_dgram_run P cx rp now st rest). reflexivity.
  Qed.
  (* with the no-panic theorem: "not accepted" IS "refused with an error", for every C / D / E theorem below *)
  Theorem unaccepted_datagram_dropped_client (UL : udp_lens P) cx rp now st src rest :
    (support_eih (uc_kind cx) = false -> kind_n (uc_kind cx) <= lenN (uc_key cx)) ->
    src <> [] -> (forall r, ssu_decode P cx now src <> Ok r) ->
    exists e, ssu_decode P cx now src = Err e /\
              client_dgram_decode P cx rp now st src = Err e /\
              client_dgram_run P cx rp now st (src :: rest)
              = (fst (client_dgram_run P cx rp now st rest), Err e :: snd (client_dgram_run P cx rp now st rest)).
  Proof.
    intros Hkey Hne Hno.
    destruct (not_ok_is_err _ Hno (ssu_decode_no_panic P UL cx now src Hkey)) as [e He].
    exists e. split; [exact He|]. split.
    - apply refused_datagram_keeps_session_client; assumption.
    - apply refused_datagram_invisible_client; assumption.
  Qed.

  (* ============================================================================================ *)
  (* D. C06: no datagram is accepted from a peer who does not hold the configured secret           *)
  (* ============================================================================================ *)
  Theorem wrong_key_datagram_refused cx :
    opens_nothing cx -> forall now src r, ssu_decode P cx now src <> Ok r.
  Proof.
    intros H now src r Hd. pose proof (proj1 (opens_nothing_forge_free cx) H) as HF.
    destruct (accepted_is_sealed _ _ _ _ _ HF Hd) as (k & n & m & off & _ & []).
  Qed.
  Corollary wrong_key_session_decode_never_some cx :
    opens_nothing cx -> forall now src r, ssu_session_decode P cx now src <> Ok (Some r).
  Proof. intros H now src. apply refused_datagram_no_item_server. intros r. apply wrong_key_datagram_refused. exact H. Qed.

  (* a datagram attributed to user u was opened from a unit sealed under u's key, u is registered, and this only
     happens on a multi-user 2022 AES server *)
  Theorem user_separation cx sealed now src payload a s u :
    forge_free cx sealed -> ssu_decode P cx now src = Ok (payload, a, s) -> us_user s = Some u ->
    support_eih (uc_kind cx) = true /\ udp_require_eih cx = true /\ In u (cx_users cx) /\
    exists dec k m,
      aes_block_dec P (uc_kind cx) (uc_key cx) (takeN 16 src) = Ok dec /\
      udp_cipher_key P (uc_kind cx) (u_key u) (hdr_sid dec) = Ok k /\
      In (k, hdr_nonce dec, m, dropN 32 src) sealed.
  Proof.
    intros HF H Hu.
    destruct (kind_family (uc_kind cx)) as [E|[E|[E1 E2]]].
    - destruct (accepted_legacy_is_sealed _ _ _ _ _ _ _ E HF H) as (m & _ & _ & _ & ->). discriminate Hu.
    - assert (Hreq : udp_require_eih cx = true).
      { destruct (accepted_aes_is_sealed _ _ _ _ _ _ _ E HF H) as (dec & u0 & k & m & _ & Hu0 & _ & _ & Hp).
        apply udp_parse_session in Hp. destruct Hp as [_ Hp]. destruct (uc_mode cx).
        - destruct Hp as [_ Hp]. congruence.
        - destruct Hp as (_ & _ & Hp). rewrite Hu in Hp. subst u0.
          exact (proj1 (aes_user_registered _ _ _ _ Hu0)). }
      destruct (accepted_multiuser_attributed _ _ _ _ _ _ _ E Hreq HF H)
        as (dec & e & u' & k & m & Hu' & Hreg & Hdec & _ & _ & Hck & Hin & _).
      rewrite Hu in Hu'. injection Hu' as <-.
      split; [exact E|]. split; [exact Hreq|]. split; [exact Hreg|]. exists dec, k, m. auto.
    - destruct (accepted_xc_is_sealed _ _ _ _ _ _ _ E1 E2 HF H) as (m & _ & _ & _ & _ & Hp).
      apply udp_parse_session in Hp. destruct Hp as [_ Hp]. destruct (uc_mode cx).
      + destruct Hp as [_ Hp]. congruence.
      + destruct Hp as (_ & _ & Hp). congruence.
  Qed.

  (* an identity header that selects no registered user: refused before any AEAD key is derived *)
  Theorem unregistered_identity_not_accepted cx now src dec e :
    support_eih (uc_kind cx) = true -> udp_require_eih cx = true ->
    aes_block_dec P (uc_kind cx) (uc_key cx) (takeN 16 src) = Ok dec ->
    aes_block_dec P (uc_kind cx) (uc_key cx) (takeN 16 (dropN 16 src)) = Ok e ->
    find_user (cx_users cx) (xor_into e dec) = None ->
    forall r, ssu_decode P cx now src <> Ok r.
  Proof.
    intros Hk Hreq Hdec He Hf r H.
    destruct (ssu_decode_aes_inv _ _ _ _ Hk H) as (sid & pid & u & pt & _ & Ho & _).
    destruct (udp_open_aes_inv _ _ _ _ _ _ Ho) as (dec' & k & _ & Hdec' & _ & _ & _ & Hu & _).
    rewrite Hdec in Hdec'. apply Ok_inj in Hdec'. subst dec'.
    unfold aes_user in Hu. rewrite Hreq, He in Hu. cbn [bind] in Hu. rewrite Hf in Hu. discriminate Hu.
  Qed.
  Theorem unregistered_identity_refused (UL : udp_lens P) cx now src dec e :
    support_eih (uc_kind cx) = true -> udp_require_eih cx = true -> udp_header_length cx <= lenN src ->
    aes_block_dec P (uc_kind cx) (uc_key cx) (takeN 16 src) = Ok dec ->
    aes_block_dec P (uc_kind cx) (uc_key cx) (takeN 16 (dropN 16 src)) = Ok e ->
    find_user (cx_users cx) (xor_into e dec) = None ->
    ssu_decode P cx now src = Err EBadUser.
  Proof.
    intros Hk Hreq Hlen Hdec He Hf.
    assert (H59 : 48 <= lenN src).
    { rewrite <- udp_header_length_ge in Hlen. unfold udp_nonce_len in Hlen. rewrite Hk, Hreq in Hlen. lia. }
    unfold ssu_decode. rewrite (aes_2022 _ Hk). unfold ssu_decode_2022.
    rewrite header_check_passes by exact Hlen. rewrite Hk, Hreq.
    unfold udp_open_aes. rewrite split_to_ok by lia. cbn [bind]. rewrite Hdec. cbn [bind].
    assert (Hd : lenN dec = 16).
    { apply (aes_block_dec_16 P UL _ _ _ _ (lenN_takeN 16 src ltac:(lia)) Hdec). }
    rewrite Hd. cbn [N.ltb N.compare Pos.compare Pos.compare_cont bind].
    rewrite get_u64_ok by lia. cbn [bind]. rewrite get_u64_ok by (rewrite lenN_dropN; lia). cbn [bind].
    rewrite split_to_ok by (rewrite lenN_dropN; lia). cbn [bind]. rewrite He. cbn [bind].
    unfold cx_users in Hf. rewrite Hf. reflexivity.
  Qed.

  (* ============================================================================================ *)
  (* E. reflection / traffic of the opposite direction (Shadowsocks 2022)                          *)
  (* ============================================================================================ *)
  Lemma own_type_differs m : mode_to_u8 m <> mode_expect_u8 m.
  Proof. destruct m; cbn; discriminate. Qed.

  (* (i) symbolic: the unit that was accepted carries the type byte of the OPPOSITE side *)
  Theorem accepted_aes_unit_typed cx sealed now src payload a s :
    support_eih (uc_kind cx) = true -> forge_free cx sealed ->
    ssu_decode P cx now src = Ok (payload, a, s) ->
    exists dec u k tl,
      aes_block_dec P (uc_kind cx) (uc_key cx) (takeN 16 src) = Ok dec /\
      aes_user cx dec src = Ok u /\
      udp_cipher_key P (uc_kind cx) (user_key cx u) (hdr_sid dec) = Ok k /\
      In (k, hdr_nonce dec, mode_expect_u8 (uc_mode cx) :: tl, dropN (aes_text_off cx) src) sealed /\
      8 <= lenN tl /\ abs_diff now (be (takeN 8 tl)) <= 30.
  Proof.
    intros Hk HF H.
    destruct (accepted_aes_is_sealed _ _ _ _ _ _ _ Hk HF H) as (dec & u & k & m & Hdec & Hu & Hck & Hin & Hp).
    destruct (udp_parse_accept _ _ _ _ _ _ _ Hp) as (tl & -> & H8 & Ht).
    exists dec, u, k, tl. auto 10.
  Qed.
  Theorem accepted_xc_unit_typed cx sealed now src payload a s :
    is_2022 (uc_kind cx) = true -> support_eih (uc_kind cx) = false -> forge_free cx sealed ->
    ssu_decode P cx now src = Ok (payload, a, s) ->
    exists m tl,
      In (takeN 32 (uc_key cx), takeN 24 src, m, dropN 24 src) sealed /\
      dropN 16 m = mode_expect_u8 (uc_mode cx) :: tl /\
      8 <= lenN tl /\ abs_diff now (be (takeN 8 tl)) <= 30.
  Proof.
    intros E22 Hk HF H.
    destruct (accepted_xc_is_sealed _ _ _ _ _ _ _ E22 Hk HF H) as (m & _ & _ & _ & Hin & Hp).
    destruct (udp_parse_accept _ _ _ _ _ _ _ Hp) as (tl & Hm & H8 & Ht).
    exists m, tl. auto.
  Qed.

  (* hence a unit whose plaintext starts with any other type byte - in particular the decoder's OWN type byte:
     its own traffic reflected, or traffic of its own direction spliced in - is never accepted, even when the
     unit opens, i.e. even when it is an honest unit under the very same key and nonce.  No forge-freeness. *)
  Theorem own_type_unit_rejected_aes cx now src dec u k ty tl :
    support_eih (uc_kind cx) = true ->
    aes_block_dec P (uc_kind cx) (uc_key cx) (takeN 16 src) = Ok dec ->
    aes_user cx dec src = Ok u ->
    udp_cipher_key P (uc_kind cx) (user_key cx u) (hdr_sid dec) = Ok k ->
    p_open P (udp_cipher_id (uc_kind cx)) k (hdr_nonce dec) [] (dropN (aes_text_off cx) src) = Some (ty :: tl) ->
    ty <> mode_expect_u8 (uc_mode cx) ->
    forall r, ssu_decode P cx now src <> Ok r.
  Proof.
    intros Hk Hdec Hu Hck Hopen Hty r H.
    destruct (ssu_decode_aes_inv _ _ _ _ Hk H) as (sid & pid & u' & pt & _ & Ho & Hp).
    destruct (udp_open_aes_inv _ _ _ _ _ _ Ho) as (dec' & k' & _ & Hdec' & _ & -> & -> & Hu' & Hck' & Hopen').
    rewrite Hdec in Hdec'. apply Ok_inj in Hdec'. subst dec'.
    rewrite Hu in Hu'. apply Ok_inj in Hu'. subst u'.
    rewrite Hck in Hck'. apply Ok_inj in Hck'. subst k'.
    rewrite Hopen in Hopen'. injection Hopen' as <-.
    rewrite (udp_parse_wrong_type _ _ _ _ _ _ _ Hty) in Hp. discriminate Hp.
  Qed.
  Corollary reflected_unit_rejected_aes (PL : prim_laws P) cx now src dec u k tl :
    support_eih (uc_kind cx) = true ->
    aes_block_dec P (uc_kind cx) (uc_key cx) (takeN 16 src) = Ok dec ->
    aes_user cx dec src = Ok u ->
    udp_cipher_key P (uc_kind cx) (user_key cx u) (hdr_sid dec) = Ok k ->
    dropN (aes_text_off cx) src = p_seal P (udp_cipher_id (uc_kind cx)) k (hdr_nonce dec) [] (mode_to_u8 (uc_mode cx) :: tl) ->
    forall r, ssu_decode P cx now src <> Ok r.
  Proof.
    intros Hk Hdec Hu Hck Hct. apply (own_type_unit_rejected_aes cx now src dec u k (mode_to_u8 (uc_mode cx)) tl); try assumption.
    - rewrite Hct. apply (open_seal P PL).
    - apply own_type_differs.
  Qed.

  Theorem own_type_unit_rejected_xc cx now src m ty tl :
    is_2022 (uc_kind cx) = true -> support_eih (uc_kind cx) = false ->
    p_open P (udp_cipher_id (uc_kind cx)) (takeN 32 (uc_key cx)) (takeN 24 src) [] (dropN 24 src) = Some m ->
    dropN 16 m = ty :: tl -> ty <> mode_expect_u8 (uc_mode cx) ->
    forall r, ssu_decode P cx now src <> Ok r.
  Proof.
    intros E22 Hk Hopen Hm Hty r H.
    destruct (ssu_decode_xc_inv _ _ _ _ E22 Hk H) as (sid & pid & u & pt & _ & Ho & Hp).
    destruct (udp_open_xc_inv _ _ _ _ _ _ Ho) as (k & m' & _ & Hck & Hopen' & _ & -> & -> & -> & ->).
    destruct (udp_cipher_key_xc_inv _ _ _ _ Hk Hck) as (_ & ->).
    rewrite Hopen in Hopen'. injection Hopen' as <-.
    rewrite Hm, (udp_parse_wrong_type _ _ _ _ _ _ _ Hty) in Hp. discriminate Hp.
  Qed.
  Corollary reflected_unit_rejected_xc (PL : prim_laws P) cx now src sidpid tl :
    is_2022 (uc_kind cx) = true -> support_eih (uc_kind cx) = false -> lenN sidpid = 16 ->
    dropN 24 src = p_seal P (udp_cipher_id (uc_kind cx)) (takeN 32 (uc_key cx)) (takeN 24 src) []
                     (sidpid ++ mode_to_u8 (uc_mode cx) :: tl) ->
    forall r, ssu_decode P cx now src <> Ok r.
  Proof.
    intros E22 Hk Hl Hct.
    apply (own_type_unit_rejected_xc cx now src (sidpid ++ mode_to_u8 (uc_mode cx) :: tl) (mode_to_u8 (uc_mode cx)) tl E22 Hk).
    - rewrite Hct. apply (open_seal P PL).
    - rewrite <- Hl. apply dropN_app_exact.
    - apply own_type_differs.
  Qed.

  (* (ii) concrete: what ssu_encode of one side produces is refused by a same-key decoder of the SAME side.
     Premises: the laws of the primitives (open (seal m) = m, lengths); no forge-freeness; every payload,
     padding, address, clock.  The exact shape of the wire first. *)
  Lemma encode_aes_client_shape cx now rnd pad s a item ck :
    support_eih (uc_kind cx) = true -> uc_mode cx = Client -> uc_ikeys cx = [] ->
    lenN (uc_key cx) = aes_keylen (uc_kind cx) ->
    udp_cipher_key P (uc_kind cx) (uc_key cx) (us_csid s) = Ok ck ->
    ssu_encode P cx now rnd pad s a item =
    Ok (p_aes_enc P (uc_key cx) (put_u64 (us_csid s) ++ put_u64 (us_pid s)) ++
        p_seal P (udp_cipher_id (uc_kind cx)) ck (udp_aes_nonce (us_csid s) (us_pid s)) [] (client_body now pad a item)).
  Proof.
    intros Hk Hm Hik Hkl Hck.
    unfold ssu_encode. rewrite (aes_2022 _ Hk), Hm. unfold ssu_encode_client. rewrite Hk, Hik. cbn [andb bind].
    rewrite aes_block_enc_ok by (assumption || apply lenN_sidpid). cbn [bind]. rewrite Hck. cbn [bind].
    change (takeN 0 []) with (@nil N). change (dropN 0 [] ++ ?x) with x. change (@nil N ++ ?x) with x.
    reflexivity.
  Qed.

  Lemma encode_aes_server_shape cx now rnd pad s a item ck :
    support_eih (uc_kind cx) = true -> uc_mode cx = Server ->
    lenN (user_key cx (us_user s)) = aes_keylen (uc_kind cx) ->
    udp_cipher_key P (uc_kind cx) (user_key cx (us_user s)) (us_ssid s) = Ok ck ->
    ssu_encode P cx now rnd pad s a item =
    Ok (p_aes_enc P (user_key cx (us_user s)) (put_u64 (us_ssid s) ++ put_u64 (us_pid s)) ++
        p_seal P (udp_cipher_id (uc_kind cx)) ck (udp_aes_nonce (us_ssid s) (us_pid s)) []
          (server_body now (us_csid s) pad a item)).
  Proof.
    unfold user_key. intros Hk Hm Hkl Hck.
    unfold ssu_encode. rewrite (aes_2022 _ Hk), Hm. unfold ssu_encode_server. rewrite Hk.
    rewrite aes_block_enc_ok by (assumption || apply lenN_sidpid). cbn [bind]. rewrite Hck. cbn [bind].
    reflexivity.
  Qed.

  Lemma encode_xc_client_shape cx now rnd pad s a item :
    is_2022 (uc_kind cx) = true -> support_eih (uc_kind cx) = false -> uc_mode cx = Client -> 32 <= lenN (uc_key cx) ->
    ssu_encode P cx now rnd pad s a item =
    Ok (rnd ++ p_seal P (udp_cipher_id (uc_kind cx)) (takeN 32 (uc_key cx)) rnd []
                 ((put_u64 (us_csid s) ++ put_u64 (us_pid s)) ++ client_body now pad a item)).
  Proof.
    intros E22 Hk Hm Hkl.
    unfold ssu_encode. rewrite E22, Hm. unfold ssu_encode_client. rewrite Hk. cbn [andb bind].
    rewrite udp_cipher_key_xc_ok by assumption. cbn [bind]. reflexivity.
  Qed.
  Lemma encode_xc_server_shape cx now rnd pad s a item :
    is_2022 (uc_kind cx) = true -> support_eih (uc_kind cx) = false -> uc_mode cx = Server -> 32 <= lenN (uc_key cx) ->
    ssu_encode P cx now rnd pad s a item =
    Ok (rnd ++ p_seal P (udp_cipher_id (uc_kind cx)) (takeN 32 (uc_key cx)) rnd []
                 ((put_u64 (us_ssid s) ++ put_u64 (us_pid s)) ++ server_body now (us_csid s) pad a item)).
  Proof.
    intros E22 Hk Hm Hkl.
    unfold ssu_encode. rewrite E22, Hm. unfold ssu_encode_server. rewrite Hk.
    rewrite udp_cipher_key_xc_ok by assumption. cbn [bind]. reflexivity.
  Qed.

  (* what a decoder of EITHER mode makes of such a wire *)
  Lemma decode_aes_plain_wire (PL : prim_laws P) (UL : udp_lens P) dcx now sid pid ck body w :
    support_eih (uc_kind dcx) = true -> udp_require_eih dcx = false ->
    lenN (uc_key dcx) = aes_keylen (uc_kind dcx) -> sid < 2 ^ 64 -> pid < 2 ^ 64 ->
    udp_cipher_key P (uc_kind dcx) (uc_key dcx) sid = Ok ck ->
    w = p_aes_enc P (uc_key dcx) (put_u64 sid ++ put_u64 pid) ++
        p_seal P (udp_cipher_id (uc_kind dcx)) ck (udp_aes_nonce sid pid) [] body ->
    ssu_decode P dcx now w =
    if lenN w <? udp_header_length dcx then Err EShort else udp_parse (uc_mode dcx) now sid pid None body.
  Proof.
    intros Hk Hreq Hkl Hs Hp Hck ->. unfold ssu_decode. rewrite (aes_2022 _ Hk). unfold ssu_decode_2022.
    match goal with |- (if ?c then _ else _) = _ => destruct c end; [reflexivity|].
    rewrite Hk, Hreq. rewrite (udp_open_aes_plain P PL UL) by assumption. reflexivity.
  Qed.
  Lemma decode_xc_wire (PL : prim_laws P) dcx now rnd sid pid body w :
    is_2022 (uc_kind dcx) = true -> support_eih (uc_kind dcx) = false -> 32 <= lenN (uc_key dcx) ->
    lenN rnd = 24 -> sid < 2 ^ 64 -> pid < 2 ^ 64 ->
    w = rnd ++ p_seal P (udp_cipher_id (uc_kind dcx)) (takeN 32 (uc_key dcx)) rnd [] ((put_u64 sid ++ put_u64 pid) ++ body) ->
    ssu_decode P dcx now w =
    if lenN w <? udp_header_length dcx then Err EShort else udp_parse (uc_mode dcx) now sid pid None body.
  Proof.
    intros E22 Hk Hkl Hr Hs Hp ->. unfold ssu_decode. rewrite E22. unfold ssu_decode_2022.
    match goal with |- (if ?c then _ else _) = _ => destruct c end; [reflexivity|].
    rewrite Hk. rewrite (udp_open_xc_sealed P PL) by assumption. reflexivity.
  Qed.

  (* a client's datagram comes back to a client (the same context included: dcx := cx) *)
  Theorem reflection_refused_aes_client (PL : prim_laws P) (UL : udp_lens P) cx dcx now now' rnd pad s a item :
    support_eih (uc_kind cx) = true -> uc_mode cx = Client -> uc_ikeys cx = [] ->
    uc_kind dcx = uc_kind cx -> uc_mode dcx = Client -> uc_key dcx = uc_key cx ->
    lenN (uc_key cx) = aes_keylen (uc_kind cx) -> us_csid s < 2 ^ 64 -> us_pid s < 2 ^ 64 ->
    exists w, ssu_encode P cx now rnd pad s a item = Ok w /\
              (ssu_decode P dcx now' w = Err EShort \/ ssu_decode P dcx now' w = Err EBadType).
  Proof.
    intros Hk Hm Hik Hdk Hdm Hdkey Hkl Hc Hp.
    destruct (udp_cipher_key_aes_ok P UL (uc_kind cx) (uc_key cx) (us_csid s) Hk) as [ck Hck].
    eexists. split; [apply (encode_aes_client_shape cx now rnd pad s a item ck); assumption|].
    rewrite (decode_aes_plain_wire PL UL dcx now' (us_csid s) (us_pid s) ck (client_body now pad a item)).
    - match goal with |- (if ?c then _ else _) = _ \/ _ => destruct c end; [left; reflexivity|right].
      rewrite Hdm. apply udp_parse_reflected_client.
    - rewrite Hdk. exact Hk.
    - unfold udp_require_eih. rewrite Hdm. reflexivity.
    - rewrite Hdk, Hdkey. exact Hkl.
    - exact Hc.
    - exact Hp.
    - rewrite Hdk, Hdkey. exact Hck.
    - rewrite Hdk, Hdkey. reflexivity.
  Qed.

  (* a server's datagram comes back to a server holding the key it was made with (the server's key, or the
     key of the session's user), no identity header expected *)
  Theorem reflection_refused_aes_server (PL : prim_laws P) (UL : udp_lens P) cx dcx now now' rnd pad s a item :
    support_eih (uc_kind cx) = true -> uc_mode cx = Server ->
    uc_kind dcx = uc_kind cx -> uc_mode dcx = Server -> uc_key dcx = user_key cx (us_user s) ->
    udp_require_eih dcx = false ->
    lenN (uc_key dcx) = aes_keylen (uc_kind cx) -> us_ssid s < 2 ^ 64 -> us_pid s < 2 ^ 64 ->
    exists w, ssu_encode P cx now rnd pad s a item = Ok w /\ ssu_decode P dcx now' w = Err EBadType.
  Proof.
    intros Hk Hm Hdk Hdm Hdkey Hreq Hkl Hc Hp.
    destruct (udp_cipher_key_aes_ok P UL (uc_kind cx) (uc_key dcx) (us_ssid s) Hk) as [ck Hck].
    eexists. split.
    { apply (encode_aes_server_shape cx now rnd pad s a item ck); [exact Hk|exact Hm| |]; rewrite <- Hdkey; assumption. }
    rewrite (decode_aes_plain_wire PL UL dcx now' (us_ssid s) (us_pid s) ck (server_body now (us_csid s) pad a item)).
    - rewrite header_check_passes.
      + rewrite Hdm. apply udp_parse_reflected_server.
      + unfold udp_header_length, udp_nonce_len. rewrite Hreq, Hdm, Hdk, Hk.
        rewrite lenN_app, (ul_aes_enc P UL) by apply lenN_sidpid.
        rewrite (seal_len P PL), lenN_server_body. unfold TAG. lia.
    - rewrite Hdk. exact Hk.
    - exact Hreq.
    - rewrite Hdk. exact Hkl.
    - exact Hc.
    - exact Hp.
    - rewrite Hdk. exact Hck.
    - rewrite Hdk, Hdkey. reflexivity.
  Qed.

  Theorem reflection_refused_xc_client (PL : prim_laws P) cx dcx now now' rnd pad s a item :
    is_2022 (uc_kind cx) = true -> support_eih (uc_kind cx) = false -> uc_mode cx = Client ->
    uc_kind dcx = uc_kind cx -> uc_mode dcx = Client -> uc_key dcx = uc_key cx ->
    32 <= lenN (uc_key cx) -> lenN rnd = 24 -> us_csid s < 2 ^ 64 -> us_pid s < 2 ^ 64 ->
    exists w, ssu_encode P cx now rnd pad s a item = Ok w /\
              (ssu_decode P dcx now' w = Err EShort \/ ssu_decode P dcx now' w = Err EBadType).
  Proof.
    intros E22 Hk Hm Hdk Hdm Hdkey Hkl Hr Hc Hp.
    eexists. split; [apply (encode_xc_client_shape cx now rnd pad s a item); assumption|].
    rewrite (decode_xc_wire PL dcx now' rnd (us_csid s) (us_pid s) (client_body now pad a item)).
    - match goal with |- (if ?c then _ else _) = _ \/ _ => destruct c end; [left; reflexivity|right].
      rewrite Hdm. apply udp_parse_reflected_client.
    - rewrite Hdk. exact E22.
    - rewrite Hdk. exact Hk.
    - rewrite Hdkey. exact Hkl.
    - exact Hr.
    - exact Hc.
    - exact Hp.
    - rewrite Hdk, Hdkey. reflexivity.
  Qed.

  Theorem reflection_refused_xc_server (PL : prim_laws P) cx dcx now now' rnd pad s a item :
    is_2022 (uc_kind cx) = true -> support_eih (uc_kind cx) = false -> uc_mode cx = Server ->
    uc_kind dcx = uc_kind cx -> uc_mode dcx = Server -> uc_key dcx = uc_key cx ->
    32 <= lenN (uc_key cx) -> lenN rnd = 24 -> us_ssid s < 2 ^ 64 -> us_pid s < 2 ^ 64 ->
    exists w, ssu_encode P cx now rnd pad s a item = Ok w /\ ssu_decode P dcx now' w = Err EBadType.
  Proof.
    intros E22 Hk Hm Hdk Hdm Hdkey Hkl Hr Hc Hp.
    eexists. split; [apply (encode_xc_server_shape cx now rnd pad s a item); assumption|].
    rewrite (decode_xc_wire PL dcx now' rnd (us_ssid s) (us_pid s) (server_body now (us_csid s) pad a item)).
    - rewrite header_check_passes.
      + rewrite Hdm. apply udp_parse_reflected_server.
      + assert (Hreq : udp_require_eih dcx = false).
        { unfold udp_require_eih. rewrite Hdk, Hk. destruct (uc_mode dcx); reflexivity. }
        unfold udp_header_length, udp_nonce_len. rewrite Hreq, Hdm, Hdk, Hk.
        rewrite lenN_app, Hr, (seal_len P PL), lenN_app, lenN_sidpid, lenN_server_body. unfold TAG. lia.
    - rewrite Hdk. exact E22.
    - rewrite Hdk. exact Hk.
    - rewrite Hdkey. exact Hkl.
    - exact Hr.
    - exact Hc.
    - exact Hp.
    - rewrite Hdk, Hdkey. reflexivity.
  Qed.

  (* (iii) the LEGACY kinds have no direction separation: the datagram one side makes is accepted by every
     same-key decoder, whatever its mode - the peer, but also the sender itself (dcx := cx).  This is how the
     legacy protocol is specified (no type byte, one key for both directions); property C05 promises reflection
     protection for Shadowsocks 2022 only.  Recorded as a witness, not as a defect. *)
  Theorem legacy_reflection_accepted (PL : prim_laws P) (UL : udp_lens P) cx now now' rnd pad s a item :
    is_2022 (uc_kind cx) = false ->
    lenN rnd = lenN (uc_key cx) -> kind_n (uc_kind cx) <= lenN rnd -> lenN rnd <= 5100 ->
    addr_wf a -> representable a ->
    exists w, ssu_encode P cx now rnd pad s a item = Ok w /\
              ssu_decode P cx now' w = Ok (item, a, usess_default) /\
              forall dcx, uc_kind dcx = uc_kind cx -> uc_key dcx = uc_key cx ->
                          ssu_decode P dcx now' w = Ok (item, a, usess_default).
  Proof.
    intros E22 Hr Hn Hmax Hw Hrep.
    destruct (roundtrip_legacy P PL UL cx cx now now' rnd pad s a item E22 eq_refl eq_refl Hr Hn Hmax Hw Hrep)
      as (w & He & Hd).
    exists w. split; [exact He|]. split; [exact Hd|].
    intros dcx Hdk Hdkey.
    destruct (roundtrip_legacy P PL UL cx dcx now now' rnd pad s a item E22 Hdk Hdkey Hr Hn Hmax Hw Hrep)
      as (w' & He' & Hd').
    rewrite He in He'. apply Ok_inj in He'. subst w'. exact Hd'.
  Qed.
End SsUdpTamper.

Print Assumptions accepted_legacy_is_sealed.
Print Assumptions accepted_aes_is_sealed.
Print Assumptions accepted_xc_is_sealed.
Print Assumptions accepted_is_sealed.
Print Assumptions accepted_multiuser_attributed.
Print Assumptions tampered_legacy_rejected.
Print Assumptions tampered_legacy_rejected_neq.
Print Assumptions tampered_aes_rejected.
Print Assumptions tampered_aes_rejected_neq.
Print Assumptions tampered_xc_rejected.
Print Assumptions tampered_xc_rejected_neq.
Print Assumptions refused_datagram_no_item_server.
Print Assumptions refused_datagram_keeps_session_client.
Print Assumptions refused_datagram_invisible_client.
Print Assumptions unaccepted_datagram_dropped_client.
Print Assumptions wrong_key_datagram_refused.
Print Assumptions wrong_key_session_decode_never_some.
Print Assumptions user_separation.
Print Assumptions unregistered_identity_not_accepted.
Print Assumptions unregistered_identity_refused.
Print Assumptions accepted_aes_unit_typed.
Print Assumptions accepted_xc_unit_typed.
Print Assumptions own_type_unit_rejected_aes.
Print Assumptions reflected_unit_rejected_aes.
Print Assumptions own_type_unit_rejected_xc.
Print Assumptions reflected_unit_rejected_xc.
Print Assumptions reflection_refused_aes_client.
Print Assumptions reflection_refused_aes_server.
Print Assumptions reflection_refused_xc_client.
Print Assumptions reflection_refused_xc_server.
Print Assumptions legacy_reflection_accepted.

(* ---------------------------------------------------------------------------------------------- *)
(* F. non-vacuity: toy primitives, an "ideal" opener for a concrete table, computed attacks          *)
(* ---------------------------------------------------------------------------------------------- *)
Module UdpTamperExamples.
  (* toy primitives.  KDFs / hash: a multiplicative fold, little-endian, so that every input byte influences the
     leading output bytes (the ones the codec keeps).  AES block: xor with the key (an involution).
     AEAD: plaintext ‖ 16-byte tag over key, nonce and plaintext. *)
  Definition mix (seed : N) (l : bytes) : N := fold_left (fun acc x => N.land (acc * 1000003 + x + 1) (N.ones 256)) l seed.
  Definition h32 (seed : N) (l : bytes) : bytes := rev (put_be 32 (mix seed l)).
  Definition toy_tag (k n m : bytes) : bytes := takeN 16 (h32 5 (k ++ 300 :: n ++ 300 :: m)).
  Definition toy_seal (c : N) (k n a m : bytes) : bytes := m ++ toy_tag k n m.
  Definition toy_open (c : N) (k n a ct : bytes) : option bytes :=
    if lenN ct <? 16 then None
    else let m := takeN (lenN ct - 16) ct in
         if bytes_eqb (dropN (lenN ct - 16) ct) (toy_tag k n m) then Some m else None.
  Definition mk (op : N -> bytes -> bytes -> bytes -> bytes -> option bytes) : prims :=
    {| p_seal := toy_seal; p_open := op;
       p_hkdf_sha1 := fun ikm salt info n => takeN n (h32 7 (ikm ++ 300 :: salt ++ 300 :: info) ++ repeat 0 (N.to_nat n));
       p_b3derive := fun c m => h32 11 (c ++ 300 :: m);
       p_b3hash := fun m => h32 13 m;
       p_aes_enc := fun k b => xor_into b k; p_aes_dec := fun k b => xor_into b k;
       p_md5 := fun m => m; p_sha224 := fun m => m; p_sha256 := fun m => m;
       p_shake128 := fun _ n => repeat 0 (N.to_nat n); p_crc32 := fun _ => 0 |}.
  (* the tag-checking toy: its open really recomputes and compares the tag *)
  Definition Ptag : prims := mk toy_open.

  (* ---- the concrete exchange: one client -> server datagram per family ---- *)
  Definition key16 : bytes := repeat 9 16.           (* the pre-shared key *)
  Definition key16' : bytes := repeat 8 16.          (* another pre-shared key *)
  Definition key32 : bytes := repeat 9 32.
  Definition key32' : bytes := repeat 8 32.
  Definition ukey : bytes := repeat 6 16.            (* a registered user's key *)
  Definition ukey' : bytes := repeat 4 16.           (* the key of somebody who is not registered *)
  Definition ikey : bytes := repeat 5 16.            (* the multi-user server's key = the clients' identity key *)
  Definition usr : user := {| u_hash := takeN 16 (p_b3hash Ptag ukey); u_key := ukey |}.
  Definition other : user := {| u_hash := takeN 16 (p_b3hash Ptag (repeat 3 16)); u_key := repeat 3 16 |}.
  Definition tgt : addr := ADom [101; 120] 443.
  Definition salt16 : bytes := [1; 2; 3; 4; 5; 6; 7; 8; 9; 10; 11; 12; 13; 14; 15; 16].
  Definition nonce24 : bytes := salt16 ++ [17; 18; 19; 20; 21; 22; 23; 24].
  Definition sess : usess := {| us_csid := 77; us_ssid := 900; us_pid := 5; us_user := None |}.
  Definition hello : bytes := [104; 101; 108; 108; 111; 32; 119; 111; 114; 108; 100].

  Definition lcx (k : bytes) (m : mode) : uctx := {| uc_kind := K_A128; uc_mode := m; uc_key := k; uc_ikeys := []; uc_users := None |}.
  Definition acx (k : bytes) (m : mode) : uctx := {| uc_kind := K22_A128; uc_mode := m; uc_key := k; uc_ikeys := []; uc_users := None |}.
  Definition xcx (k : bytes) (m : mode) : uctx := {| uc_kind := K22_CC20; uc_mode := m; uc_key := k; uc_ikeys := []; uc_users := None |}.
  Definition ecx (uk : bytes) : uctx := {| uc_kind := K22_A128; uc_mode := Client; uc_key := uk; uc_ikeys := [ikey]; uc_users := None |}.
  Definition escx : uctx := {| uc_kind := K22_A128; uc_mode := Server; uc_key := ikey; uc_ikeys := []; uc_users := Some [other; usr] |}.

  Definition enc (cx : uctx) (rnd pad item : bytes) : bytes :=
    match ssu_encode Ptag cx 1000 rnd pad sess tgt item with Ok w => w | _ => [] end.
  Definition w_leg : bytes := enc (lcx key16 Client) salt16 [] hello.
  Definition w_aes : bytes := enc (acx key16 Client) [] [7; 7] hello.
  Definition w_eih : bytes := enc (ecx ukey) [] [7; 7] hello.
  Definition w_xc : bytes := enc (xcx key32 Client) nonce24 [] hello.
  Definition w_rep : bytes := enc (acx key16 Server) [] [] [11].         (* a server -> client reply *)

  (* the units that were sealed honestly *)
  Definition ck (key : bytes) (sid : N) : bytes := match udp_cipher_key Ptag K22_A128 key sid with Ok k => k | _ => [] end.
  Definition u_leg : unit4 := (leg_key Ptag K_A128 key16 salt16, inc inc_init, s5_encode tgt ++ hello, dropN 16 w_leg).
  Definition u_aes : unit4 := (ck key16 77, udp_aes_nonce 77 5, client_body 1000 [7; 7] tgt hello, dropN 16 w_aes).
  Definition u_eih : unit4 := (ck ukey 77, udp_aes_nonce 77 5, client_body 1000 [7; 7] tgt hello, dropN 32 w_eih).
  Definition u_xc : unit4 := (takeN 32 key32, nonce24, (put_u64 77 ++ put_u64 5) ++ client_body 1000 [] tgt hello, dropN 24 w_xc).
  Definition u_rep : unit4 := (ck key16 900, udp_aes_nonce 900 5, server_body 1000 77 [] tgt [11], dropN 16 w_rep).
  Definition table : list unit4 := [u_leg; u_aes; u_eih; u_xc; u_rep].

  (* an opener that opens exactly the units of the table (what forge_free idealises) *)
  Definition ideal_open (c : N) (k n a ct : bytes) : option bytes :=
    match find (fun u : unit4 => let '(k', n', _, ct') := u in bytes_eqb k k' && bytes_eqb n n' && bytes_eqb ct ct') table with
    | Some (_, _, m, _) => Some m
    | None => None
    end.
  Definition Pideal : prims := mk ideal_open.

  Lemma bytes_eqb_true a b : bytes_eqb a b = true -> a = b.
  Proof. unfold bytes_eqb. destruct (list_eq_dec N.eq_dec a b) as [E|E]; [auto|discriminate]. Qed.

  Lemma ideal_open_sound c k n a ct m : ideal_open c k n a ct = Some m -> In (k, n, m, ct) table.
  Proof.
    unfold ideal_open.
    destruct (find (fun u : unit4 => let '(k', n', _, ct') := u in bytes_eqb k k' && bytes_eqb n n' && bytes_eqb ct ct') table)
      as [[[[k' n'] m'] ct']|] eqn:Ef; [|discriminate].
    intros H. injection H as <-. apply find_some in Ef. destruct Ef as [Hin Hc].
    apply andb_prop in Hc. destruct Hc as [Hc H3]. apply andb_prop in Hc. destruct Hc as [H1 H2].
    apply bytes_eqb_true in H1. apply bytes_eqb_true in H2. apply bytes_eqb_true in H3. subst k' n' ct'. exact Hin.
  Qed.

  (* A. forge-freeness holds for every decoder context *)
  Example ideal_forge_free cx : forge_free Pideal cx table.
  Proof. intros k n ct m _ H. exact (ideal_open_sound _ _ _ _ _ _ H). Qed.

  Lemma nodup_keys_one_unit (l : list unit4) :
    NoDup (map (fun u : unit4 => (fst (fst (fst u)), snd (fst (fst u)))) l) -> one_unit_per_nonce l.
  Proof.
    induction l as [|u t IH]; intros Hnd k n m ct m' ct' H1 H2; [destruct H1|].
    cbn [map] in Hnd. inversion Hnd as [|x l' Hnot Hnd']; subst x l'.
    destruct H1 as [H1|H1], H2 as [H2|H2].
    - rewrite H1 in H2. injection H2 as _ E. exact E.
    - exfalso. apply Hnot. subst u. cbn [fst snd].
      change (k, n) with ((fun u : unit4 => (fst (fst (fst u)), snd (fst (fst u)))) (k, n, m', ct')). apply in_map. exact H2.
    - exfalso. apply Hnot. subst u. cbn [fst snd].
      change (k, n) with ((fun u : unit4 => (fst (fst (fst u)), snd (fst (fst u)))) (k, n, m, ct)). apply in_map. exact H1.
    - exact (IH Hnd' k n m ct m' ct' H1 H2).
  Qed.
  Example table_one_unit_per_nonce : one_unit_per_nonce table.
  Proof.
    apply nodup_keys_one_unit. vm_compute.
    repeat constructor; cbn [In]; intuition discriminate.
  Qed.

  (* acceptance happens under the ideal opener: forge_free and the premise of B are jointly satisfiable *)
  Example ideal_accepts_legacy : ssu_decode Pideal (lcx key16 Server) 1000 w_leg = Ok (hello, tgt, usess_default).
  Proof. vm_compute. reflexivity. Qed.
  Example ideal_accepts_aes :
    ssu_decode Pideal (acx key16 Server) 1010 w_aes = Ok (hello, tgt, {| us_csid := 77; us_ssid := 0; us_pid := 5; us_user := None |}).
  Proof. vm_compute. reflexivity. Qed.
  Example ideal_accepts_eih :
    ssu_decode Pideal escx 1010 w_eih = Ok (hello, tgt, {| us_csid := 77; us_ssid := 0; us_pid := 5; us_user := Some usr |}).
  Proof. vm_compute. reflexivity. Qed.
  Example ideal_accepts_xc :
    ssu_decode Pideal (xcx key32 Server) 1010 w_xc = Ok (hello, tgt, {| us_csid := 77; us_ssid := 0; us_pid := 5; us_user := None |}).
  Proof. vm_compute. reflexivity. Qed.
  Example ideal_accepts_reply :
    ssu_decode Pideal (acx key16 Client) 1010 w_rep = Ok ([11], tgt, {| us_csid := 77; us_ssid := 900; us_pid := 5; us_user := None |}).
  Proof. vm_compute. reflexivity. Qed.

  (* B instantiated on these acceptances *)
  Definition ideal_B_legacy :=
    accepted_legacy_is_sealed Pideal (lcx key16 Server) table 1000 w_leg _ _ _ eq_refl (ideal_forge_free _) ideal_accepts_legacy.
  Definition ideal_B_aes :=
    accepted_aes_is_sealed Pideal (acx key16 Server) table 1010 w_aes _ _ _ eq_refl (ideal_forge_free _) ideal_accepts_aes.
  Definition ideal_B_multiuser :=
    accepted_multiuser_attributed Pideal escx table 1010 w_eih _ _ _ eq_refl eq_refl (ideal_forge_free _) ideal_accepts_eih.
  Definition ideal_B_xc :=
    accepted_xc_is_sealed Pideal (xcx key32 Server) table 1010 w_xc _ _ _ eq_refl eq_refl (ideal_forge_free _) ideal_accepts_xc.
  Definition ideal_user_separation :=
    user_separation Pideal escx table 1010 w_eih _ _ _ usr (ideal_forge_free _) ideal_accepts_eih eq_refl.
  Definition ideal_B_any :=
    accepted_is_sealed Pideal escx table 1010 w_eih _ (ideal_forge_free _) ideal_accepts_eih.
  Definition ideal_unit_typed_aes :=
    accepted_aes_unit_typed Pideal (acx key16 Client) table 1010 w_rep _ _ _ eq_refl (ideal_forge_free _) ideal_accepts_reply.
  Definition ideal_unit_typed_xc :=
    accepted_xc_unit_typed Pideal (xcx key32 Server) table 1010 w_xc _ _ _ eq_refl eq_refl (ideal_forge_free _) ideal_accepts_xc.

  (* C instantiated: keep the unauthenticated part of the honest datagram, change its AEAD part in ANY way *)
  Example ideal_tampered_legacy now src :
    takeN 16 src = takeN 16 w_leg -> dropN 16 src <> dropN 16 w_leg ->
    forall r, ssu_decode Pideal (lcx key16 Server) now src <> Ok r.
  Proof.
    intros Hs Hne.
    apply (tampered_legacy_rejected_neq Pideal (lcx key16 Server) table now src w_leg (s5_encode tgt ++ hello)
             eq_refl (ideal_forge_free _) table_one_unit_per_nonce).
    - vm_compute. left. reflexivity.
    - exact Hs.
    - exact Hne.
  Qed.
  Example ideal_tampered_aes now src :
    takeN 16 src = takeN 16 w_aes -> dropN 16 src <> dropN 16 w_aes ->
    forall r, ssu_decode Pideal (acx key16 Server) now src <> Ok r.
  Proof.
    intros Hs Hne.
    apply (tampered_aes_rejected_neq Pideal (acx key16 Server) table now src w_aes (put_u64 77 ++ put_u64 5) None (ck key16 77)
             (client_body 1000 [7; 7] tgt hello) eq_refl (ideal_forge_free _) table_one_unit_per_nonce).
    - vm_compute. reflexivity.
    - reflexivity.
    - vm_compute. reflexivity.
    - vm_compute. right. left. reflexivity.
    - exact Hs.
    - exact Hne.
  Qed.
  Example ideal_tampered_multiuser now src :
    takeN 32 src = takeN 32 w_eih -> dropN 32 src <> dropN 32 w_eih ->
    forall r, ssu_decode Pideal escx now src <> Ok r.
  Proof.
    intros Hs Hne.
    apply (tampered_aes_rejected_neq Pideal escx table now src w_eih (put_u64 77 ++ put_u64 5) (Some usr) (ck ukey 77)
             (client_body 1000 [7; 7] tgt hello) eq_refl (ideal_forge_free _) table_one_unit_per_nonce).
    - vm_compute. reflexivity.
    - vm_compute. reflexivity.
    - vm_compute. reflexivity.
    - vm_compute. right. right. left. reflexivity.
    - exact Hs.
    - exact Hne.
  Qed.
  Example ideal_tampered_xc now src :
    takeN 24 src = takeN 24 w_xc -> dropN 24 src <> dropN 24 w_xc ->
    forall r, ssu_decode Pideal (xcx key32 Server) now src <> Ok r.
  Proof.
    intros Hs Hne.
    apply (tampered_xc_rejected_neq Pideal (xcx key32 Server) table now src w_xc
             ((put_u64 77 ++ put_u64 5) ++ client_body 1000 [] tgt hello)
             eq_refl eq_refl (ideal_forge_free _) table_one_unit_per_nonce).
    - vm_compute. do 3 right. left. reflexivity.
    - exact Hs.
    - exact Hne.
  Qed.

  (* D instantiated: a decoder configured with another pre-shared key accepts nothing at all *)
  Example ideal_wrong_key_xc now src r : ssu_decode Pideal (xcx key32' Server) now src <> Ok r.
  Proof.
    apply wrong_key_datagram_refused. intros k n ct m Hd Ho.
    pose proof (ideal_open_sound _ _ _ _ _ _ Ho) as Hin. clear Ho.
    destruct Hd as [salt au E _|sid k0 E _ _|u sid k0 E _ _ _|k0 _ E Hck]; try discriminate E.
    destruct (udp_cipher_key_xc_inv Pideal _ _ _ _ E Hck) as [_ ->].
    assert (Hno : existsb (fun u : unit4 => bytes_eqb (fst (fst (fst u))) (takeN 32 key32')) table = false)
      by (vm_compute; reflexivity).
    assert (Hyes : existsb (fun u : unit4 => bytes_eqb (fst (fst (fst u))) (takeN 32 key32')) table = true).
    { apply existsb_exists. eexists. split; [exact Hin|]. cbn [fst]. apply bytes_eqb_refl. }
    congruence.
  Qed.

  (* the length facts hold for every opener that respects |ct| = |m| + 16 *)
  Lemma lenN_rev (l : bytes) : lenN (rev l) = lenN l.
  Proof. rewrite !lenN_spec, rev_length. reflexivity. Qed.
  Lemma lenN_h32 seed l : lenN (h32 seed l) = 32.
  Proof. unfold h32. rewrite lenN_rev. apply lenN_put_be. Qed.
  Lemma mk_udp_lens op :
    (forall c k n a ct m, op c k n a ct = Some m -> lenN ct = lenN m + TAG) -> udp_lens (mk op).
  Proof.
    intros Hop. constructor; cbn [mk p_b3derive p_hkdf_sha1 p_open p_aes_dec p_aes_enc p_b3hash].
    - intros c m. apply lenN_h32.
    - intros i s info n. apply lenN_takeN. rewrite lenN_app, lenN_h32, lenN_spec, repeat_length. lia.
    - exact Hop.
    - intros k b H. rewrite lenN_xor_into. exact H.
    - intros k b H. rewrite lenN_xor_into. exact H.
    - intros m. apply lenN_h32.
  Qed.
  Lemma ideal_udp_lens : udp_lens Pideal.
  Proof.
    apply mk_udp_lens. intros c k n a ct m H. apply ideal_open_sound in H.
    assert (HT : Forall (fun u : unit4 => lenN (snd u) = lenN (snd (fst u)) + TAG) table).
    { vm_compute. repeat constructor. }
    rewrite Forall_forall in HT. exact (HT _ H).
  Qed.

  (* the session level, instantiated: a tampered copy of the server's reply is an Err item; the client's
     session and the rest of the run are as if it had not arrived *)
  Example ideal_tampered_reply_invisible st rest src :
    takeN 16 src = takeN 16 w_rep -> dropN 16 src <> dropN 16 w_rep ->
    exists e, ssu_decode Pideal (acx key16 Client) 1000 src = Err e /\
              client_dgram_decode Pideal (acx key16 Client) true 1000 st src = Err e /\
              client_dgram_run Pideal (acx key16 Client) true 1000 st (src :: rest)
              = (fst (client_dgram_run Pideal (acx key16 Client) true 1000 st rest),
                 Err e :: snd (client_dgram_run Pideal (acx key16 Client) true 1000 st rest)).
  Proof.
    intros Hs Hne. apply (unaccepted_datagram_dropped_client Pideal ideal_udp_lens).
    - discriminate.
    - intros ->. vm_compute in Hs. discriminate Hs.
    - apply (tampered_aes_rejected_neq Pideal (acx key16 Client) table 1000 src w_rep (put_u64 900 ++ put_u64 5) None (ck key16 900)
               (server_body 1000 77 [] tgt [11]) eq_refl (ideal_forge_free _) table_one_unit_per_nonce).
      + vm_compute. reflexivity.
      + reflexivity.
      + vm_compute. reflexivity.
      + vm_compute. do 4 right. left. reflexivity.
      + exact Hs.
      + exact Hne.
  Qed.

  (* E (ii) and (iii) instantiated with the law-abiding toy primitives of SsTcpRoundtrip / SsUdpFacts.ToyUdp *)
  Definition toy_reflection_refused_aes_client :=
    reflection_refused_aes_client SsTcpRoundtrip.ToyPrims.toyP SsTcpRoundtrip.ToyPrims.toy_laws ToyUdp.toy_udp_lens.
  Definition toy_reflection_refused_aes_server :=
    reflection_refused_aes_server SsTcpRoundtrip.ToyPrims.toyP SsTcpRoundtrip.ToyPrims.toy_laws ToyUdp.toy_udp_lens.
  Definition toy_reflection_refused_xc_client :=
    reflection_refused_xc_client SsTcpRoundtrip.ToyPrims.toyP SsTcpRoundtrip.ToyPrims.toy_laws.
  Definition toy_reflection_refused_xc_server :=
    reflection_refused_xc_server SsTcpRoundtrip.ToyPrims.toyP SsTcpRoundtrip.ToyPrims.toy_laws.
  Definition toy_legacy_reflection_accepted :=
    legacy_reflection_accepted SsTcpRoundtrip.ToyPrims.toyP SsTcpRoundtrip.ToyPrims.toy_laws ToyUdp.toy_udp_lens.

  (* ---- computed attacks with the tag-checking toy AEAD ---- *)
  Definition flip (i : nat) (l : bytes) : bytes :=
    firstn i l ++ match skipn i l with x :: t => ((x + 1) mod 256) :: t | [] => [] end.
  Definition dec (cx : uctx) (w : bytes) : res (bytes * addr * usess) := ssu_decode Ptag cx 1000 w.
  Definition is_ok {A} (r : res A) : bool := match r with Ok _ => true | _ => false end.

  (* wire layouts: legacy 16 + 33 = 49; AES 16 + 46 = 62; AES + identity header 16 + 16 + 46 = 78; XChaCha 24 + 60 = 84;
     AES reply 16 + 42 = 58 *)
  Example wire_lengths : (length w_leg, length w_aes, length w_eih, length w_xc, length w_rep) = (49, 62, 78, 84, 58)%nat.
  Proof. vm_compute. reflexivity. Qed.
  Example honest_all_accepted :
    (dec (lcx key16 Server) w_leg, dec (acx key16 Server) w_aes, dec escx w_eih, dec (xcx key32 Server) w_xc, dec (acx key16 Client) w_rep)
    = (Ok (hello, tgt, usess_default),
       Ok (hello, tgt, {| us_csid := 77; us_ssid := 0; us_pid := 5; us_user := None |}),
       Ok (hello, tgt, {| us_csid := 77; us_ssid := 0; us_pid := 5; us_user := Some usr |}),
       Ok (hello, tgt, {| us_csid := 77; us_ssid := 0; us_pid := 5; us_user := None |}),
       Ok ([11], tgt, {| us_csid := 77; us_ssid := 900; us_pid := 5; us_user := None |})).
  Proof. vm_compute. reflexivity. Qed.
  (* one flipped byte: in the salt, in the first byte of the AEAD part, in the last byte of the tag *)
  Example flipped_legacy :
    (dec (lcx key16 Server) (flip 0 w_leg), dec (lcx key16 Server) (flip 16 w_leg), dec (lcx key16 Server) (flip 48 w_leg))
    = (Err EAead, Err EAead, Err EAead).
  Proof. vm_compute. reflexivity. Qed.
  (* in the header block (session id: another key; packet id: another nonce), in the AEAD part *)
  Example flipped_aes :
    (dec (acx key16 Server) (flip 0 w_aes), dec (acx key16 Server) (flip 3 w_aes), dec (acx key16 Server) (flip 15 w_aes),
     dec (acx key16 Server) (flip 16 w_aes), dec (acx key16 Server) (flip 40 w_aes), dec (acx key16 Server) (flip 61 w_aes))
    = (Err EAead, Err EAead, Err EAead, Err EAead, Err EAead, Err EAead).
  Proof. vm_compute. reflexivity. Qed.
  (* multi-user: the header block and the identity header select no registered user any more; the AEAD part *)
  Example flipped_multiuser :
    (dec escx (flip 0 w_eih), dec escx (flip 16 w_eih), dec escx (flip 31 w_eih), dec escx (flip 32 w_eih), dec escx (flip 77 w_eih))
    = (Err EBadUser, Err EBadUser, Err EBadUser, Err EAead, Err EAead).
  Proof. vm_compute. reflexivity. Qed.
  (* XChaCha: in the nonce, in the still-encrypted session id, in the body *)
  Example flipped_xc :
    (dec (xcx key32 Server) (flip 0 w_xc), dec (xcx key32 Server) (flip 24 w_xc), dec (xcx key32 Server) (flip 45 w_xc))
    = (Err EAead, Err EAead, Err EAead).
  Proof. vm_compute. reflexivity. Qed.
  (* every single-byte flip of every honest datagram is refused *)
  Example every_flip_refused :
    forallb (fun i => negb (is_ok (dec (lcx key16 Server) (flip i w_leg)))) (seq 0 49) &&
    forallb (fun i => negb (is_ok (dec (acx key16 Server) (flip i w_aes)))) (seq 0 62) &&
    forallb (fun i => negb (is_ok (dec escx (flip i w_eih)))) (seq 0 78) &&
    forallb (fun i => negb (is_ok (dec (xcx key32 Server) (flip i w_xc)))) (seq 0 84) = true.
  Proof. vm_compute. reflexivity. Qed.
  (* truncated by one byte, extended by one byte, cut inside the header *)
  Example truncated_extended :
    (dec (acx key16 Server) (removelast w_aes), dec (acx key16 Server) (w_aes ++ [0]), dec (acx key16 Server) (firstn 30 w_aes),
     dec (lcx key16 Server) (removelast w_leg), dec (lcx key16 Server) (w_leg ++ [0]), dec (lcx key16 Server) (firstn 10 w_leg),
     dec (xcx key32 Server) (removelast w_xc), dec (xcx key32 Server) (w_xc ++ [0]))
    = (Err EAead, Err EAead, Err EShort, Err EAead, Err EAead, Err EShort, Err EAead, Err EAead).
  Proof. vm_compute. reflexivity. Qed.
  (* C06: sealed under another pre-shared key; by a client whose user key is not registered *)
  Example other_psk :
    (dec (lcx key16' Server) w_leg, dec (acx key16' Server) w_aes, dec (xcx key32' Server) w_xc)
    = (Err EAead, Err EAead, Err EAead).
  Proof. vm_compute. reflexivity. Qed.
  Example unregistered_user : dec escx (enc (ecx ukey') [] [7; 7] hello) = Err EBadUser.
  Proof. vm_compute. reflexivity. Qed.
  (* a registered user's datagram with the identity header of the OTHER registered user: opened under the other
     user's key, which did not seal it *)
  Example other_users_identity :
    dec escx (firstn 16 w_eih ++ xor_into (xor_into (firstn 16 (skipn 16 w_eih)) (u_hash usr)) (u_hash other) ++ skipn 32 w_eih)
    = Err EAead.
  Proof. vm_compute. reflexivity. Qed.
  (* reflection (2022): the client's own datagram, the server's own reply *)
  Example reflected_2022 :
    (dec (acx key16 Client) w_aes, dec (xcx key32 Client) w_xc, dec (acx key16 Server) w_rep) = (Err EBadType, Err EBadType, Err EBadType).
  Proof. vm_compute. reflexivity. Qed.
  (* a very small client datagram is below the minimum length of a server datagram: EShort instead of EBadType *)
  Example reflected_2022_short : dec (acx key16 Client) (enc (acx key16 Client) [] [] [1]) = Err EShort.
  Proof. vm_compute. reflexivity. Qed.
  (* legacy kinds: no direction separation (see legacy_reflection_accepted) *)
  Example reflected_legacy_accepted : dec (lcx key16 Client) w_leg = Ok (hello, tgt, usess_default).
  Proof. vm_compute. reflexivity. Qed.
  (* session level: a tampered copy of reply 2 is an Err item and does not burn packet id 2 - the honest reply 2
     that arrives later is still delivered; its replay is then dropped by the packet-id filter *)
  Definition reply (pid : N) (payload : bytes) : bytes :=
    match ssu_encode Ptag (acx key16 Server) 1000 [] [] {| us_csid := 77; us_ssid := 900; us_pid := pid; us_user := None |} tgt payload with
    | Ok w => w | _ => [] end.
  Example tampered_reply_invisible :
    snd (client_dgram_run Ptag (acx key16 Client) true 1000 (cstate_new 77)
           [reply 1 [11]; flip 20 (reply 2 [22]); reply 2 [22]; reply 2 [22]; flip 3 (reply 3 [33]); reply 3 [33]])
    = [Ok (Some ([11], tgt)); Err EAead; Ok (Some ([22], tgt)); Ok None; Err EAead; Ok (Some ([33], tgt))].
  Proof. vm_compute. reflexivity. Qed.
End UdpTamperExamples.

Print Assumptions UdpTamperExamples.ideal_forge_free.
Print Assumptions UdpTamperExamples.table_one_unit_per_nonce.
Print Assumptions UdpTamperExamples.ideal_B_legacy.
Print Assumptions UdpTamperExamples.ideal_B_aes.
Print Assumptions UdpTamperExamples.ideal_B_multiuser.
Print Assumptions UdpTamperExamples.ideal_B_xc.
Print Assumptions UdpTamperExamples.ideal_user_separation.
Print Assumptions UdpTamperExamples.ideal_B_any.
Print Assumptions UdpTamperExamples.ideal_unit_typed_aes.
Print Assumptions UdpTamperExamples.ideal_unit_typed_xc.
Print Assumptions UdpTamperExamples.ideal_tampered_legacy.
Print Assumptions UdpTamperExamples.ideal_tampered_aes.
Print Assumptions UdpTamperExamples.ideal_tampered_multiuser.
Print Assumptions UdpTamperExamples.ideal_tampered_xc.
Print Assumptions UdpTamperExamples.ideal_wrong_key_xc.
Print Assumptions UdpTamperExamples.ideal_tampered_reply_invisible.
Print Assumptions UdpTamperExamples.toy_reflection_refused_aes_client.
Print Assumptions UdpTamperExamples.toy_legacy_reflection_accepted.
Print Assumptions UdpTamperExamples.every_flip_refused.
Print Assumptions UdpTamperExamples.tampered_reply_invisible.
