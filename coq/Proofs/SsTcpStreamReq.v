(* The Shadowsocks request direction as a STREAM: the client's writes ws (first write possibly empty) through
   ss_encode, the concatenated wire cut into ARBITRARY segments, through the server's PayloadCodec::decode
   (Model/EndToEnd.v ss_sdec = Model/SsTcp.v server_decode as a FramedRead decoder) under Lib/Framed.run.

   Proved (every proof closed with Qed, no axioms; the primitives are a `prims` record with law hypotheses):
     ss2022_request_stream      2022 kinds without identity header: for every segmentation that respects the
                                first-read condition (no poll sees the salt complete and the 27-byte fixed header
                                incomplete) the server yields ConnectTcp first a :: map RelayTcp relays, Waiting,
                                empty buffer, first ++ concat relays = concat ws, session = request salt + address.
     sslegacy_request_stream    legacy kinds: the same for EVERY segmentation.
     ss2022_identity_request_stream   (see the end of the file) the 2022 statement with one identity header.
   Reusable pieces:
     ss_decode_server           what one ss_decode call does to a Server-mode session (mode kept, address set exactly
                                when the first item is released and never changed afterwards)
     lift_drain / lift_run      ANY Framed.run over fdec (ss_decode with the cache threaded) from a Server-mode state
                                is a Framed.run over ss_sdec with the same states, buffers and status; the items are
                                ConnectTcp first addr :: map RelayTcp rest
     encode_msgs_established    encode_msgs over an established encoder = a chunk stream for the unit machine crun
     run_C                      Framed.run over fdec in the established server phase from any buffer
     Section Req2022            wait_short / wait_var / feed_cross / run_W: the 2022 header phase over segments *)
From Coq Require Import List NArith ZArith Lia Bool Arith ZifyBool ZifyN ZifyNat.
From Octo Require Import Base.Bytes Crypto.Prims Model.NonceGen Model.SsChunk Model.Address Model.SsTcp Lib.Framed Lib.Canon Proofs.AddressFacts Proofs.SsChunkRoundtrip Proofs.SsChunkCanon Proofs.SsTcpSafety Proofs.SsTcpRoundtrip Model.EndToEnd.
Import ListNotations.  Open Scope N_scope.

Definition nonempty {A : Type} (l : list A) : bool := match l with [] => false | _ => true end.

(* the server's items: the first one carries the address *)
Definition lift (ib : bool) (a : option addr) (items : list bytes) : list inbound :=
  if ib then map RelayTcp items
  else match items with
       | [] => []
       | f :: r => (match a with Some ad => ConnectTcp f ad | None => RelayTcp f end) :: map RelayTcp r
       end.

Lemma lift_nil ib a : lift ib a [] = [].
Proof. destruct ib; reflexivity. Qed.
Lemma lift_app ib a n1 n2 : lift ib a (n1 ++ n2) = lift ib a n1 ++ lift (ib || nonempty n1) a n2.
Proof.
  destruct ib; cbn [lift orb].
  - apply map_app.
  - destruct n1 as [|f r]; cbn [app nonempty lift]; [reflexivity|]. rewrite map_app. reflexivity.
Qed.

Lemma takeN_len_le n (l : bytes) : lenN (takeN n l) <= n.
Proof. rewrite lenN_spec. unfold takeN. rewrite firstn_length. lia. Qed.

Section SsTcpStreamReq.
  Variable P : prims.
  Hypothesis HL : prim_laws P.
  Hypothesis Hb3 : forall c m, lenN (p_b3derive P c m) = 32.
  Hypothesis Hhk : forall i s info n, lenN (p_hkdf_sha1 P i s info n) = n.

  (* ------------------------------------------------------------------------------------------ *)
  (* 1. one ss_decode call and a Server-mode session                                              *)
  (* ------------------------------------------------------------------------------------------ *)
  Definition addr_step (s s' : session) (it : option bytes) : Prop :=
    s_mode s' = Server /\
    (forall ad, s_addr s = Some ad -> s_addr s' = Some ad) /\
    (s_addr s = None -> match it with None => s_addr s' = None | Some _ => s_addr s' <> None end).

  Lemma addr_step_refl s : s_mode s = Server -> addr_step s s None.
  Proof. intros H. split; [exact H|]. split; auto. Qed.

  Lemma decode_body_server s cd a st src s' cd' src' it : s_mode s = Server ->
    decode_body P s cd a st src = Ok (s', cd', src', it) -> addr_step s s' it.
  Proof.
    intros Hm. unfold decode_body.
    destruct (decode_payload P a st src) as [[[[a' st'] src1] dst]|e|]; cbn [bind]; try discriminate.
    rewrite Hm. destruct (s_addr s) as [ad|] eqn:Ea.
    - intros [= <- <- <- <-]. split; [exact Hm|]. split; [auto|]. rewrite Ea. discriminate.
    - destruct (s5_try_decode_at (cd_pending cd ++ dst) 0) as [[n|]|e|]; cbn [bind]; try discriminate.
      + destruct (n <=? lenN (cd_pending cd ++ dst)).
        * destruct (s5_decode (cd_pending cd ++ dst)) as [[ad rest]|e|]; cbn [bind]; try discriminate.
          intros [= <- <- <- <-]. split; [exact Hm|]. split; [rewrite Ea; discriminate|].
          intros _. cbn [set_addr s_addr]. discriminate.
        * intros [= <- <- <- <-]. split; [exact Hm|]. split; auto.
      + intros [= <- <- <- <-]. split; [exact Hm|]. split; auto.
  Qed.

  Theorem ss_decode_server cx now cache s cd src cache' s' cd' src' it : s_mode s = Server ->
    ss_decode P cx now cache s cd src = (cache', Ok (s', cd', src', it)) -> addr_step s s' it.
  Proof.
    intros Hm E. destruct (cd_dec cd) as [[a st]|] eqn:ED.
    - rewrite (SsTcpSafety.ss_decode_established P _ _ _ _ _ _ _ _ ED) in E. destruct src as [|x t].
      + injection E as _ <- _ _ <-. apply addr_step_refl. exact Hm.
      + injection E as _ E. eapply decode_body_server; eassumption.
    - destruct (is_2022 (c_kind cx)) eqn:E22.
      + rewrite (ss_decode_2022 P _ _ _ _ _ _ ED E22) in E.
        destruct (lenN src <? kind_n (c_kind cx)).
        { injection E as _ <- _ _ <-. apply addr_step_refl. exact Hm. }
        apply init_2022_ok_inv in E. destruct E as (a1 & s2 & len & after & EF & H).
        apply accept_implies_fresh_and_typed in EF.
        destruct EF as (_ & _ & _ & _ & _ & Hm2 & _ & Ha2 & _). rewrite Hm in Hm2.
        destruct H as [H|H].
        * destruct H as (_ & _ & -> & _ & _ & ->). split; [exact Hm2|]. rewrite Ha2. split; auto.
        * destruct H as (_ & _ & _ & H). apply open_var_inv in H.
          destruct H as (via & a2 & v & _ & _ & _ & -> & H). rewrite Hm2 in H.
          destruct (s_addr s2) as [ad2|] eqn:E2.
          -- destruct H as [_ ->]. split; [exact Hm2|]. rewrite E2, <- Ha2. split; [auto|]. intros H; discriminate.
          -- destruct H as (ad & r & _ & _ & _ & _ & ->). cbn [set_addr s_mode s_addr]. split; [exact Hm2|].
             rewrite <- Ha2. split; [intros ? H; discriminate|]. intros _. discriminate.
      + rewrite (ss_decode_legacy P _ _ _ _ _ _ ED E22) in E. injection E as _ E.
        destruct (lenN src <? kind_n (c_kind cx)).
        { injection E as <- _ _ <-. apply addr_step_refl. exact Hm. }
        unfold legacy_first in E. cbv zeta in E.
        destruct (new_auth_legacy P (c_kind cx) (c_key cx) (takeN (kind_n (c_kind cx)) src)) as [a|e|];
          cbn [bind] in E; try discriminate.
        destruct (dropN (kind_n (c_kind cx)) src) as [|b l].
        { injection E as <- _ _ <-. apply addr_step_refl. exact Hm. }
        eapply decode_body_server; eassumption.
  Qed.

  (* ------------------------------------------------------------------------------------------ *)
  (* 2. a FramedRead run over fdec is a FramedRead run over the server's PayloadCodec             *)
  (* ------------------------------------------------------------------------------------------ *)
  Definition sinv (s : session) (ib : bool) : Prop :=
    s_mode s = Server /\ (if ib then s_addr s <> None else s_addr s = None).

  Lemma fdec_call cx now cache s cd src :
    fdec P cx now (cache, s, cd) src =
    match ss_decode P cx now cache s cd src with
    | (cache', Ok (s', cd', src', it)) => Ok ((cache', s', cd'), src', it)
    | (_, Err e) => Err e
    | (_, Panic) => Panic
    end.
  Proof. reflexivity. Qed.

  Lemma sdec_call cx now cache s cd ib src :
    ss_sdec P cx now (cache, s, cd, ib) src =
    match ss_decode P cx now cache s cd src with
    | (cache', Ok (s', cd', src', it)) =>
        if ib then Ok ((cache', s', cd', true), src', option_map RelayTcp it)
        else match it, s_addr s' with
             | Some d, Some ad => Ok ((cache', s', cd', true), src', Some (ConnectTcp d ad))
             | _, _ => Ok ((cache', s', cd', false), src', None)
             end
    | (_, Err e) => Err e
    | (_, Panic) => Panic
    end.
  Proof.
    unfold ss_sdec, server_decode.
    destruct (ss_decode P cx now cache s cd src) as [c' [[[[s' cd'] src'] it]|e|]]; cbn [bind]; try reflexivity.
    destruct ib; [destruct it; reflexivity|]. destruct it; [destruct (s_addr s')|]; reflexivity.
  Qed.

  Lemma lift_drain cx now : forall fuel cache s cd ib buf acc accI, sinv s ib ->
    exists cache' s' cd' buf' st new ib',
      Framed.drain _ _ (fdec P cx now) fuel (cache, s, cd) buf acc = ((cache', s', cd'), buf', acc ++ new, st) /\
      Framed.drain _ _ (ss_sdec P cx now) fuel (cache, s, cd, ib) buf accI =
        ((cache', s', cd', ib'), buf', accI ++ lift ib (s_addr s') new, st) /\
      sinv s' ib' /\ ib' = (ib || nonempty new)%bool /\ (s_addr s <> None -> s_addr s' = s_addr s).
  Proof.
    induction fuel as [|f IH]; intros cache s cd ib buf acc accI Hinv.
    - exists cache, s, cd, buf, Livelock, [], ib. cbn [Framed.drain nonempty]. rewrite lift_nil, !app_nil_r, orb_false_r. auto.
    - cbn [Framed.drain]. rewrite fdec_call, sdec_call.
      destruct (ss_decode P cx now cache s cd buf) as [c1 r] eqn:E.
      destruct r as [[[[s1 cd1] src1] it]|e|].
      + destruct (ss_decode_server _ _ _ _ _ _ _ _ _ _ _ (proj1 Hinv) E) as (Hm1 & Hkeep & Hnew).
        destruct Hinv as [Hm Had]. destruct ib.
        * destruct (s_addr s) as [ad|] eqn:Ea; [|congruence]. specialize (Hkeep ad eq_refl).
          destruct it as [d|]; cbn [option_map].
          -- destruct (IH c1 s1 cd1 true src1 (acc ++ [d]) (accI ++ [RelayTcp d]))
               as (c2 & s2 & cd2 & b2 & st & new & ib' & H1 & H2 & Hi & Hib & Hst).
             { split; [exact Hm1|]. rewrite Hkeep. discriminate. }
             exists c2, s2, cd2, b2, st, (d :: new), ib'. rewrite H1, H2, <- !app_assoc. cbn [lift map app nonempty orb] in *.
             split; [reflexivity|]. split; [reflexivity|]. split; [exact Hi|]. split; [exact Hib|].
             intros _. rewrite Hst by (rewrite Hkeep; discriminate). exact Hkeep.
          -- exists c1, s1, cd1, src1, Waiting, [], true. cbn [lift map nonempty orb]. rewrite !app_nil_r.
             split; [reflexivity|]. split; [reflexivity|]. split; [split; [exact Hm1|rewrite Hkeep; discriminate]|].
             split; [reflexivity|]. intros _. exact Hkeep.
        * specialize (Hnew Had). destruct it as [d|].
          -- destruct (s_addr s1) as [ad|] eqn:E1; [|congruence].
             destruct (IH c1 s1 cd1 true src1 (acc ++ [d]) (accI ++ [ConnectTcp d ad]))
               as (c2 & s2 & cd2 & b2 & st & new & ib' & H1 & H2 & Hi & Hib & Hst).
             { split; [exact Hm1|]. rewrite E1. discriminate. }
             exists c2, s2, cd2, b2, st, (d :: new), ib'. rewrite H1, H2, <- !app_assoc.
             rewrite Hst, E1 by (rewrite E1; discriminate). cbn [lift map app nonempty orb] in *.
             split; [reflexivity|]. split; [reflexivity|]. split; [exact Hi|]. split; [exact Hib|].
             intros C. congruence.
          -- exists c1, s1, cd1, src1, Waiting, [], false. cbn [lift nonempty orb]. rewrite !app_nil_r.
             split; [reflexivity|]. split; [reflexivity|]. split; [split; assumption|].
             split; [reflexivity|]. intros C. congruence.
      + exists cache, s, cd, buf, (Failed e), [], ib. cbn [nonempty]. rewrite lift_nil, !app_nil_r, orb_false_r. auto.
      + exists cache, s, cd, buf, Panicked, [], ib. cbn [nonempty]. rewrite lift_nil, !app_nil_r, orb_false_r. auto.
  Qed.

  Theorem lift_run cx now : forall segs cache s cd ib buf acc accI, sinv s ib ->
    exists cache' s' cd' buf' st new ib',
      Framed.run _ _ (fdec P cx now) (cache, s, cd) buf segs acc = ((cache', s', cd'), buf', acc ++ new, st) /\
      Framed.run _ _ (ss_sdec P cx now) (cache, s, cd, ib) buf segs accI =
        ((cache', s', cd', ib'), buf', accI ++ lift ib (s_addr s') new, st) /\
      sinv s' ib' /\ ib' = (ib || nonempty new)%bool /\ (s_addr s <> None -> s_addr s' = s_addr s).
  Proof.
    induction segs as [|seg t IH]; intros cache s cd ib buf acc accI Hinv.
    - exists cache, s, cd, buf, Waiting, [], ib. cbn [Framed.run nonempty]. rewrite lift_nil, !app_nil_r, orb_false_r. auto.
    - cbn [Framed.run]. unfold Framed.feed. cbv zeta.
      destruct (lift_drain cx now (2 + length (buf ++ seg)) cache s cd ib (buf ++ seg) [] [] Hinv)
        as (c1 & s1 & cd1 & b1 & st1 & new1 & ib1 & H1 & H2 & Hi1 & Hib1 & Hst1).
      rewrite H1, H2. cbn [app].
      assert (Hother : st1 <> Waiting ->
        exists cache' s' cd' buf' st new ib',
          (c1, s1, cd1, b1, acc ++ new1, st1) = (cache', s', cd', buf', acc ++ new, st) /\
          (c1, s1, cd1, ib1, b1, accI ++ lift ib (s_addr s1) new1, st1) =
            (cache', s', cd', ib', buf', accI ++ lift ib (s_addr s') new, st) /\
          sinv s' ib' /\ ib' = (ib || nonempty new)%bool /\ (s_addr s <> None -> s_addr s' = s_addr s)).
      { intros _. exists c1, s1, cd1, b1, st1, new1, ib1. auto. }
      destruct st1 as [|e| |]; try (apply Hother; discriminate).
      clear Hother.
      destruct (IH c1 s1 cd1 ib1 b1 (acc ++ new1) (accI ++ lift ib (s_addr s1) new1) Hi1)
        as (c2 & s2 & cd2 & b2 & st & new2 & ib2 & H3 & H4 & Hi2 & Hib2 & Hst2).
      exists c2, s2, cd2, b2, st, (new1 ++ new2), ib2. rewrite H3, H4, <- !app_assoc.
      split; [reflexivity|]. split.
      + rewrite lift_app, <- Hib1. f_equal. f_equal. f_equal.
        destruct ib; [reflexivity|]. destruct new1 as [|f r]; [reflexivity|].
        cbn [orb nonempty] in Hib1. subst ib1. destruct Hi1 as [_ Hi1].
        rewrite (Hst2 Hi1). reflexivity.
      + split; [exact Hi2|]. split.
        * rewrite Hib2, Hib1. destruct ib; [reflexivity|]. destruct new1; reflexivity.
        * intros Hs. rewrite <- (Hst1 Hs). apply Hst2. rewrite (Hst1 Hs). exact Hs.
  Qed.

  (* the form used below: a run from the initial server state whose final session knows the address *)
  Corollary lift_run_connect cx now segs cache s cd stf buf items a :
    s_mode s = Server -> s_addr s = None ->
    Framed.run _ _ (fdec P cx now) (cache, s, cd) [] segs [] = (stf, buf, items, Waiting) ->
    s_addr (snd (fst stf)) = Some a ->
    exists first relays ib,
      items = first :: relays /\
      Framed.run _ _ (ss_sdec P cx now) (cache, s, cd, false) [] segs [] =
        ((stf, ib), buf, ConnectTcp first a :: map RelayTcp relays, Waiting).
  Proof.
    intros Hm Ha HR Hf.
    destruct (lift_run cx now segs cache s cd false [] [] [] (conj Hm Ha))
      as (c2 & s2 & cd2 & b2 & st & new & ib2 & H1 & H2 & Hi & Hib & _).
    rewrite HR in H1. cbn [app] in H1, H2. injection H1 as -> -> -> ->. cbn [fst snd] in Hf.
    cbn [orb] in Hib. destruct new as [|f r].
    - cbn [nonempty] in Hib. subst ib2. destruct Hi as [_ Hi]. congruence.
    - exists f, r, ib2. split; [reflexivity|]. rewrite H2, Hf. reflexivity.
  Qed.

  (* ------------------------------------------------------------------------------------------ *)
  (* 3. the encoder over a list of writes                                                         *)
  (* ------------------------------------------------------------------------------------------ *)
  Lemma encode_msgs_established cx now pad s : forall ws cd ae, cd_enc cd = Some ae ->
    exists cd' ms ae',
      encode_msgs (fun cd w => ss_encode P cx now pad s cd w) cd ws = Ok (cd', ms) /\ cd_enc cd' = Some ae' /\
      crun P (ae, DLen) (concat ms) = Stop (ae', DLen) [] (concat ws).
  Proof.
    induction ws as [|w t IH]; intros cd ae He.
    - exists cd, [], ae. split; [reflexivity|]. split; [exact He|]. apply crun_nil.
    - cbn [encode_msgs concat]. rewrite (ss_encode_established P cx now pad s cd ae w He). cbn [bind].
      set (out1 := fst (encode_payload P ae (plimit (c_kind cx)) w)).
      set (a1 := snd (encode_payload P ae (plimit (c_kind cx)) w)).
      destruct (IH {| cd_enc := Some a1; cd_dec := cd_dec cd; cd_pending := cd_pending cd |} a1 eq_refl)
        as (cd' & ms & ae' & H1 & H2 & H5).
      rewrite H1. cbn [bind]. exists cd', (out1 :: ms), ae'. split; [reflexivity|]. split; [exact H2|].
      cbn [concat]. rewrite crun_app. subst out1. rewrite (crun_encode_payload P HL ae _ w (plimit_ok _)).
      cbn [app]. fold a1. rewrite H5. reflexivity.
  Qed.

  (* ------------------------------------------------------------------------------------------ *)
  (* 4. legacy kinds                                                                              *)
  (* ------------------------------------------------------------------------------------------ *)
  Theorem sslegacy_request_stream : forall k key salt a pad now now' cache ssalt sreq suser cu ws,
    is_2022 k = false -> lenN salt = kind_n k -> addr_wf a -> representable a -> ws <> [] ->
    let cx := {| c_kind := k; c_key := key; c_ikeys := []; c_users := None |} in
    let cs := {| s_mode := Client; s_salt := salt; s_req_salt := None; s_user := None; s_addr := Some a |} in
    let cxs := {| c_kind := k; c_key := key; c_ikeys := []; c_users := cu |} in
    let ss := {| s_mode := Server; s_salt := ssalt; s_req_salt := sreq; s_user := suser; s_addr := None |} in
    exists cdf msgs,
      encode_msgs (fun cd w => ss_encode P cx now pad cs cd w) codec_new ws = Ok (cdf, msgs) /\
      forall segs, concat segs = concat msgs ->
        exists first relays stf,
          Framed.run _ _ (ss_sdec P cxs now') (cache, ss, codec_new, false) [] segs [] =
            (stf, [], ConnectTcp first a :: map RelayTcp relays, Waiting) /\
          first ++ concat relays = concat ws /\
          ss_state_session stf = set_addr ss (Some a).
  Proof.
    intros k key salt a pad now now' cache ssalt sreq suser cu ws Hk Hs Hw Hr Hws cx cs cxs ss.
    destruct ws as [|item more]; [congruence|]. clear Hws.
    destruct (SsTcpRoundtrip.new_auth_legacy_ok P Hb3 Hhk k key salt Hs) as [a0 Ha0].
    pose proof (ss_encode_legacy_first P k key [] None now pad salt None None a item a0 Hk Ha0) as He.
    fold cx cs in He.
    set (out1 := fst (encode_payload P a0 LEGACY_PAYLOAD_LIMIT (s5_encode a ++ item))) in *.
    set (a1 := snd (encode_payload P a0 LEGACY_PAYLOAD_LIMIT (s5_encode a ++ item))) in *.
    destruct (encode_msgs_established cx now pad cs more {| cd_enc := Some a1; cd_dec := None; cd_pending := [] |} a1 eq_refl)
      as (cdf & ms & ae' & H1 & H2 & H5).
    exists cdf, ((salt ++ out1) :: ms). split.
    { cbn [encode_msgs]. rewrite He. cbn [bind]. rewrite H1. reflexivity. }
    intros segs Hsegs. cbn [concat] in Hsegs. rewrite <- app_assoc in Hsegs.
    assert (Hbody : crun P (a0, DLen) (out1 ++ concat ms) = Stop (ae', DLen) [] (s5_encode a ++ item ++ concat more)).
    { rewrite crun_app. subst out1. rewrite (crun_encode_payload P HL a0 LEGACY_PAYLOAD_LIMIT _ (or_introl eq_refl)).
      cbn [app]. fold a1. rewrite H5. rewrite <- app_assoc. reflexivity. }
    destruct (legacy_segmentation_generic P HL Hb3 Hhk k key salt a0 a (item ++ concat more) (out1 ++ concat ms) (ae', DLen) []
                cache now' ssalt sreq suser [] cu None Hk Hs Ha0 Hw Hr Hbody segs Hsegs) as (items & HR & Hc & _).
    destruct (lift_run_connect cxs now' segs cache ss codec_new _ _ _ a eq_refl eq_refl HR eq_refl)
      as (first & relays & ib & Hit & HS).
    eexists first, relays, _. split; [exact HS|]. split.
    - subst items. cbn [concat] in Hc |- *. exact Hc.
    - reflexivity.
  Qed.

  (* ------------------------------------------------------------------------------------------ *)
  (* 5. the established server phase over segments (fdec level)                                   *)
  (* ------------------------------------------------------------------------------------------ *)
  Lemma run_C k key a cache now ssalt sreq suser ik cu e : forall segs sd buf acc sf rf of,
    wf sd -> crun P sd buf = Stop sd buf [] -> crun P sd (buf ++ concat segs) = Stop sf rf of ->
    exists items,
      Framed.run _ _ (fdec P {| c_kind := k; c_key := key; c_ikeys := ik; c_users := cu |} now)
        (cache, set_addr {| s_mode := Server; s_salt := ssalt; s_req_salt := sreq; s_user := suser; s_addr := None |} (Some a),
         {| cd_enc := e; cd_dec := Some sd; cd_pending := [] |}) buf segs acc =
      ((cache, set_addr {| s_mode := Server; s_salt := ssalt; s_req_salt := sreq; s_user := suser; s_addr := None |} (Some a),
        {| cd_enc := e; cd_dec := Some sf; cd_pending := [] |}), rf, acc ++ items, Waiting) /\
      concat items = of.
  Proof.
    induction segs as [|seg t IH]; intros sd buf acc sf rf of Hwf Hst E.
    - cbn [concat] in E. rewrite app_nil_r, Hst in E. injection E as <- <- <-.
      exists []. cbn [Framed.run concat]. rewrite app_nil_r. auto.
    - cbn [concat] in E. rewrite app_assoc, crun_app in E.
      destruct (crun P sd (buf ++ seg)) as [s1 r1 o1|o1] eqn:E1; [|discriminate].
      destruct (crun P s1 (r1 ++ concat t)) as [s2 r2 o2|o2] eqn:E2; [|discriminate].
      injection E as -> -> <-.
      cbn [Framed.run]. rewrite (feed_C P HL k key a cache now ssalt sreq suser ik cu e sd buf seg s1 r1 o1 Hwf E1).
      destruct (IH s1 r1 (acc ++ items_of o1) sf rf o2 (crun_wf P HL _ _ _ _ _ Hwf E1) (crun_stable P _ _ _ _ _ E1) E2)
        as (items & HR & Hc).
      exists (items_of o1 ++ items). rewrite HR, <- app_assoc. split; [reflexivity|].
      rewrite concat_app, concat_items_of, Hc. reflexivity.
  Qed.

  (* ------------------------------------------------------------------------------------------ *)
  (* 6. a head (salt, fixed header, variable header) followed by a chunk stream, over segments:   *)
  (*    wait while the head is incomplete, cross, then the established phase                      *)
  (* ------------------------------------------------------------------------------------------ *)
  Section HeadPhase.
    Variables (k : kind) (key : bytes) (a : addr) (cacheC : list bytes) (now' : N) (ssalt : bytes)
              (rqC : option bytes) (suC : option user) (cu : option (list user)).
    Variable X : Type.
    Variable stW : X -> fstate.                    (* the family of states of the waiting phase *)
    Variables (hdr item1 : bytes) (aH : auth) (n hl : N).
    Local Notation D := (fdec P {| c_kind := k; c_key := key; c_ikeys := []; c_users := cu |} now').
    Local Notation stC sd :=
      (cacheC, set_addr {| s_mode := Server; s_salt := ssalt; s_req_salt := rqC; s_user := suC; s_addr := None |} (Some a),
       {| cd_enc := None; cd_dec := Some sd; cd_pending := [] |}).
    Hypothesis Hne : 1 <= lenN hdr.
    Hypothesis Hwait : forall x p u b, p ++ u = hdr ++ b -> lenN p < lenN hdr -> (lenN p < n \/ n + hl <= lenN p) ->
      exists x', D (stW x) p = Ok (stW x', p, None).
    Hypothesis Hcross : forall x tl, D (stW x) (hdr ++ tl) = Ok (stC (aH, DLen), tl, Some item1).

    (* the poll that sees the whole head: the address and the first payload, then the chunks that are complete *)
    Lemma feed_cross x buf seg tl s1 r1 o1 : buf ++ seg = hdr ++ tl -> crun P (aH, DLen) tl = Stop s1 r1 o1 ->
      Framed.feed _ _ D (stW x) buf seg = (stC s1, r1, item1 :: items_of o1, Waiting).
    Proof.
      intros Eb E. unfold Framed.feed. cbv zeta. rewrite Eb.
      assert (Hlen : exists m, length (hdr ++ tl) = S m).
      { destruct (hdr ++ tl) as [|y t] eqn:Eh; [|eexists; reflexivity].
        apply (f_equal lenN) in Eh. rewrite lenN_app, lenN_nil in Eh. lia. }
      destruct Hlen as [m ->]. cbn [Nat.add].
      rewrite (drain_some _ _ _ _ _ _ _ _ _ _ (Hcross x tl)). cbn [app].
      pose proof (call_C P HL k key a cacheC now' ssalt rqC suC [] cu None (aH, DLen) tl s1 r1 o1 I E) as H1.
      destruct o1 as [|y ys]; cbn [item_of items_of] in *.
      - rewrite (drain_none _ _ _ _ _ _ _ _ _ H1). reflexivity.
      - rewrite (drain_some _ _ _ _ _ _ _ _ _ _ H1). cbn [app].
        pose proof (call_C P HL k key a cacheC now' ssalt rqC suC [] cu None s1 r1 s1 r1 []
                      (crun_wf P HL (aH, DLen) _ _ _ _ I E) (crun_stable P _ _ _ _ _ E)) as H2.
        cbn [item_of] in H2. rewrite (drain_none _ _ _ _ _ _ _ _ _ H2). reflexivity.
    Qed.

    Lemma run_W : forall segs x consumed body sf ob,
      lenN consumed < lenN hdr -> consumed ++ concat segs = hdr ++ body ->
      Forall (fun m => m < n \/ n + hl <= m) (arrivals (lenN consumed) segs) ->
      crun P (aH, DLen) body = Stop sf [] ob ->
      exists items, Framed.run _ _ D (stW x) consumed segs [] = (stC sf, [], item1 :: items, Waiting) /\ concat items = ob.
    Proof.
      induction segs as [|seg t IH]; intros x consumed body sf ob Hl Hcat Hfr Hbody.
      - cbn [concat] in Hcat. rewrite app_nil_r in Hcat. subst consumed. rewrite lenN_app in Hl. lia.
      - cbn [concat arrivals] in Hcat, Hfr. rewrite <- lenN_app in Hfr.
        pose proof (Forall_inv Hfr) as Hm. apply Forall_inv_tail in Hfr. rewrite app_assoc in Hcat.
        destruct (N.lt_ge_cases (lenN (consumed ++ seg)) (lenN hdr)) as [Hlt|Hge].
        + destruct (Hwait x (consumed ++ seg) (concat t) body Hcat Hlt Hm) as [x' Hc].
          cbn [Framed.run]. rewrite (feed_none _ _ _ _ _ _ _ _ Hc). cbn [app].
          apply (IH x' (consumed ++ seg) body sf ob Hlt Hcat Hfr Hbody).
        + pose proof (prefix_split (consumed ++ seg) hdr body (concat t) (eq_sym Hcat) Hge) as Hsp.
          set (tl := dropN (lenN hdr) (consumed ++ seg)) in *.
          assert (Eb : body = tl ++ concat t).
          { rewrite Hsp, <- app_assoc in Hcat. apply app_inv_head in Hcat. symmetry. exact Hcat. }
          rewrite Eb, crun_app in Hbody.
          destruct (crun P (aH, DLen) tl) as [s1 r1 o1|o1] eqn:E1; [|discriminate].
          destruct (crun P s1 (r1 ++ concat t)) as [s2 r2 o2|o2] eqn:E2; [|discriminate].
          injection Hbody as -> -> <-.
          cbn [Framed.run]. rewrite (feed_cross x consumed seg tl s1 r1 o1 Hsp E1). cbn [app].
          destruct (run_C k key a cacheC now' ssalt rqC suC [] cu None t s1 r1 (item1 :: items_of o1) sf [] o2
                      (crun_wf P HL (aH, DLen) _ _ _ _ I E1) (crun_stable P _ _ _ _ _ E1) E2) as (items & HR & Hc).
          exists (items_of o1 ++ items). split.
          * rewrite HR. reflexivity.
          * rewrite concat_app, concat_items_of, Hc. reflexivity.
    Qed.
  End HeadPhase.

  (* ------------------------------------------------------------------------------------------ *)
  (* 7. Shadowsocks 2022 without identity header                                                  *)
  (* ------------------------------------------------------------------------------------------ *)
  Section Req2022.
    Variables (k : kind) (key salt : bytes) (a : addr) (item pad : bytes) (now now' : N) (cache : list bytes)
              (ssalt : bytes) (suser : option user) (cu : option (list user)) (a0 : auth).
    Hypothesis Hk : is_2022 k = true.
    Hypothesis Hs : lenN salt = kind_n k.
    Hypothesis Hw : addr_wf a.
    Hypothesis Hr : representable a.
    Hypothesis Hp : lenN pad <= 900.
    Hypothesis Hnow : now < 2^64.
    Hypothesis Hclock : abs_diff now' now <= 30.
    Hypothesis Hfresh : mem_salt cache salt = false.
    Hypothesis Hcu : cu = None \/ cu = Some [].
    Hypothesis Ha0 : new_auth_2022 P k key salt = Ok a0.

    Let n := kind_n k.
    Let cx := {| c_kind := k; c_key := key; c_ikeys := []; c_users := None |}.
    Let cs := {| s_mode := Client; s_salt := salt; s_req_salt := None; s_user := None; s_addr := Some a |}.
    Let cxs := {| c_kind := k; c_key := key; c_ikeys := []; c_users := cu |}.
    Let pre := s5_encode a ++ put_u16 (lenN pad) ++ pad.
    Let fit := 65535 - lenN pre.
    Let item1 := takeN fit item.
    Let item2 := dropN fit item.
    Let a2 := auth_step (auth_step a0).
    Let via := pre ++ item1.
    Let F := sealed P a0 ([0] ++ put_u64 now ++ [] ++ put_u16 (lenN via)).
    Let V := sealed P (auth_step a0) via.
    Let hdr := salt ++ F ++ V.
    Let ssW (rq : option bytes) := {| s_mode := Server; s_salt := ssalt; s_req_salt := rq; s_user := suser; s_addr := None |}.
    Let stW (rq : option bytes) : fstate := (cache, ssW rq, codec_new).
    Let D := fdec P cxs now'.

    Lemma via_lt : lenN via < 65536.
    Proof.
      pose proof (s5_len_bound a Hw Hr) as Hb. pose proof (takeN_len_le fit item) as Hle.
      unfold via, item1. rewrite lenN_app.
      assert (lenN pre = lenN (s5_encode a) + 2 + lenN pad) by (unfold pre; rewrite !lenN_app, lenN_put_u16; lia).
      unfold fit in *. lia.
    Qed.
    Lemma lenF : lenN F = 27.
    Proof.
      unfold F. rewrite (lenN_sealed P HL), !lenN_app, lenN_put_u16. unfold put_u64. rewrite lenN_put_be.
      rewrite lenN_cons, !lenN_nil. lia.
    Qed.
    Lemma lenV : lenN V = lenN via + 16.
    Proof. unfold V. apply (lenN_sealed P HL). Qed.
    Lemma len_hdr : lenN hdr = n + 27 + (lenN via + 16).
    Proof. unfold hdr. rewrite !lenN_app, lenF, lenV, Hs. unfold n. lia. Qed.

    (* polls that see less than the salt *)
    Lemma wait_short rq p : lenN p < n -> D (stW rq) p = Ok (stW rq, p, None).
    Proof. intros H. unfold D, stW. apply fdec_ok. apply (ss_decode_short P Hb3 Hhk); [reflexivity|exact H]. Qed.

    (* polls that see salt and fixed header but not the whole variable part: the request salt is recorded, nothing else *)
    Lemma wait_var rq af : lenN af < lenN via + 16 ->
      D (stW rq) (salt ++ F ++ af) = Ok (stW (Some salt), salt ++ F ++ af, None).
    Proof.
      intros H. unfold D, stW. apply fdec_ok.
      rewrite (ss_decode_init_2022 P Hb3 Hhk); [|reflexivity| |exact Hk].
      2:{ cbn [c_kind cxs]. rewrite !lenN_app, Hs. lia. }
      unfold init_2022, F.
      rewrite (open_fixed_gen P HL Hb3 Hhk cxs now' cache (ssW rq) salt a0 0 now [] (lenN via) af Hs Hfresh
                 (or_intror Hcu) Ha0 eq_refl eq_refl Hnow (validate_ok _ _ Hclock) via_lt).
      unfold ssW at 1. cbn [s_mode].
      destruct (N.ltb_spec (lenN af) (lenN via + TAG)) as [_|Hge]; [reflexivity|unfold TAG in Hge; lia].
    Qed.

    Lemma wait_any rq p u b : p ++ u = hdr ++ b -> lenN p < lenN hdr -> (lenN p < n \/ n + 27 <= lenN p) ->
      exists rq', D (stW rq) p = Ok (stW rq', p, None).
    Proof.
      intros E Hl [Hsh|Hge].
      - exists rq. apply wait_short. exact Hsh.
      - assert (Hsp : p = (salt ++ F) ++ dropN (lenN (salt ++ F)) p).
        { apply (prefix_split p (salt ++ F) (V ++ b) u).
          - rewrite E. unfold hdr. rewrite <- !app_assoc. reflexivity.
          - rewrite lenN_app, lenF, Hs. exact Hge. }
        set (af := dropN (lenN (salt ++ F)) p) in *.
        assert (Haf : lenN af < lenN via + 16).
        { pose proof (f_equal lenN Hsp) as HE. rewrite !lenN_app, lenF, Hs in HE. rewrite len_hdr in Hl. unfold n in *. lia. }
        clearbody af. subst p. exists (Some salt). rewrite <- app_assoc. apply wait_var. exact Haf.
    Qed.

    Lemma cross_call rq tl :
      D (stW rq) (hdr ++ tl) =
        Ok ((salt :: cache, set_addr (ssW (Some salt)) (Some a), {| cd_enc := None; cd_dec := Some (a2, DLen); cd_pending := [] |}),
            tl, Some item1).
    Proof.
      unfold D, stW. apply fdec_ok.
      exact (proj2 (request_2022_core P HL Hb3 Hhk k key salt a item pad now now' cache ssalt rq suser cu
                      Hk Hs Hw Hr Hp Hnow Hclock Hfresh Hcu a0 Ha0) None tl).
    Qed.

    (* encoder and fdec-level decoder together *)
    Lemma req2022_stream_fdec more sreq :
      exists cdf msgs,
        encode_msgs (fun cd w => ss_encode P {| c_kind := k; c_key := key; c_ikeys := []; c_users := None |} now pad
                                   {| s_mode := Client; s_salt := salt; s_req_salt := None; s_user := None; s_addr := Some a |} cd w)
                    codec_new (item :: more) = Ok (cdf, msgs) /\
        kind_n k + 27 <= lenN (hd [] msgs) /\
        forall segs, concat segs = concat msgs -> first_read_ok (kind_n k) 27 segs ->
          exists first items cdf',
            Framed.run _ _ (fdec P {| c_kind := k; c_key := key; c_ikeys := []; c_users := cu |} now')
              (cache, {| s_mode := Server; s_salt := ssalt; s_req_salt := sreq; s_user := suser; s_addr := None |}, codec_new)
              [] segs [] =
              ((salt :: cache,
                set_addr (set_req_salt {| s_mode := Server; s_salt := ssalt; s_req_salt := sreq; s_user := suser; s_addr := None |}
                                       (Some salt)) (Some a), cdf'), [], first :: items, Waiting) /\
            first ++ concat items = item ++ concat more.
    Proof.
      pose proof (proj1 (request_2022_core P HL Hb3 Hhk k key salt a item pad now now' cache ssalt sreq suser cu
                           Hk Hs Hw Hr Hp Hnow Hclock Hfresh Hcu a0 Ha0)) as He.
      fold cx cs in He. change (ss_encode P cx now pad cs codec_new item =
        Ok ({| cd_enc := Some (snd (encode_payload P a2 A2022_PAYLOAD_LIMIT item2)); cd_dec := None; cd_pending := [] |},
            hdr ++ fst (encode_payload P a2 A2022_PAYLOAD_LIMIT item2))) in He.
      set (out1 := fst (encode_payload P a2 A2022_PAYLOAD_LIMIT item2)) in *.
      set (a1 := snd (encode_payload P a2 A2022_PAYLOAD_LIMIT item2)) in *.
      destruct (encode_msgs_established cx now pad cs more {| cd_enc := Some a1; cd_dec := None; cd_pending := [] |} a1 eq_refl)
        as (cdf & ms & ae' & H1 & H2 & H5).
      exists cdf, ((hdr ++ out1) :: ms). split.
      { fold cx cs. cbn [encode_msgs]. rewrite He. cbn [bind]. rewrite H1. reflexivity. }
      split.
      { cbn [hd]. rewrite lenN_app, len_hdr. unfold n. lia. }
      intros segs Hsegs Hfr. cbn [concat] in Hsegs. rewrite <- app_assoc in Hsegs.
      assert (Hbody : crun P (a2, DLen) (out1 ++ concat ms) = Stop (ae', DLen) [] (item2 ++ concat more)).
      { rewrite crun_app. subst out1. rewrite (crun_encode_payload P HL a2 A2022_PAYLOAD_LIMIT _ (or_intror eq_refl)).
        cbn [app]. fold a1. rewrite H5. reflexivity. }
      destruct (run_W k key a (salt :: cache) now' ssalt (Some salt) suser cu (option bytes) stW hdr item1 a2 n 27
                  ltac:(rewrite len_hdr; lia) wait_any cross_call
                  segs sreq [] (out1 ++ concat ms) (ae', DLen) (item2 ++ concat more)) as (items & HR & Hc).
      - rewrite lenN_nil, len_hdr. lia.
      - exact Hsegs.
      - exact Hfr.
      - exact Hbody.
      - exists item1, items, {| cd_enc := None; cd_dec := Some (ae', DLen); cd_pending := [] |}. split; [exact HR|].
        rewrite Hc, app_assoc. unfold item1, item2. rewrite take_drop. reflexivity.
    Qed.
  End Req2022.

  Theorem ss2022_request_stream : forall k key salt a pad now now' cache ssalt sreq suser cu ws,
    is_2022 k = true -> lenN salt = kind_n k -> addr_wf a -> representable a ->
    lenN pad <= 900 -> now < 2^64 -> abs_diff now' now <= 30 -> mem_salt cache salt = false ->
    (cu = None \/ cu = Some []) -> ws <> [] ->
    let cx := {| c_kind := k; c_key := key; c_ikeys := []; c_users := None |} in
    let cs := {| s_mode := Client; s_salt := salt; s_req_salt := None; s_user := None; s_addr := Some a |} in
    let cxs := {| c_kind := k; c_key := key; c_ikeys := []; c_users := cu |} in
    let ss := {| s_mode := Server; s_salt := ssalt; s_req_salt := sreq; s_user := suser; s_addr := None |} in
    exists cdf msgs,
      encode_msgs (fun cd w => ss_encode P cx now pad cs cd w) codec_new ws = Ok (cdf, msgs) /\
      kind_n k + 27 <= lenN (hd [] msgs) /\
      forall segs, concat segs = concat msgs -> first_read_ok (kind_n k) 27 segs ->
        exists first relays stf,
          Framed.run _ _ (ss_sdec P cxs now') (cache, ss, codec_new, false) [] segs [] =
            (stf, [], ConnectTcp first a :: map RelayTcp relays, Waiting) /\
          first ++ concat relays = concat ws /\
          ss_state_session stf = set_addr (set_req_salt ss (Some salt)) (Some a).
  Proof.
    intros k key salt a pad now now' cache ssalt sreq suser cu ws Hk Hs Hw Hr Hp Hnow Hclock Hfresh Hcu Hws cx cs cxs ss.
    destruct ws as [|item more]; [congruence|]. clear Hws.
    destruct (SsTcpRoundtrip.new_auth_2022_ok P Hb3 Hhk k key salt) as [a0 Ha0].
    destruct (req2022_stream_fdec k key salt a item pad now now' cache ssalt suser cu a0
                Hk Hs Hw Hr Hp Hnow Hclock Hfresh Hcu Ha0 more sreq) as (cdf & msgs & He & Hhd & Hrun).
    exists cdf, msgs. split; [exact He|]. split; [exact Hhd|].
    intros segs Hc Hfr. destruct (Hrun segs Hc Hfr) as (first & items & cdf' & HR & Hcc).
    destruct (lift_run_connect cxs now' segs cache ss codec_new _ _ _ a eq_refl eq_refl HR eq_refl)
      as (f & r & ib & Hit & HS).
    injection Hit as -> ->.
    eexists f, r, _. split; [exact HS|]. split; [exact Hcc|reflexivity].
  Qed.

  (* ------------------------------------------------------------------------------------------ *)
  (* 8. Shadowsocks 2022 with one identity header (EIH)                                           *)
  (* ------------------------------------------------------------------------------------------ *)
  Lemma support_eih_2022 k : support_eih k = true -> is_2022 k = true.
  Proof. destruct k; cbn [support_eih is_2022]; congruence. Qed.

  (* open_fixed on a well-formed identity header + fixed header, server side with a non-empty user table *)
  Lemma open_fixed_eih cx now cache s users salt eih a0 u ts len after :
    s_mode s = Server -> support_eih (c_kind cx) = true -> c_users cx = Some users -> users <> [] ->
    lenN salt = kind_n (c_kind cx) -> mem_salt cache salt = false -> lenN eih = 16 ->
    find_user users (p_aes_dec P (aes_key (c_kind cx) (p_b3derive P IDENTITY_LABEL (c_key cx ++ salt))) eih) = Some u ->
    new_auth_2022 P (c_kind cx) (u_key u) salt = Ok a0 ->
    ts < 2^64 -> validate_timestamp now ts = true -> len < 65536 ->
    open_fixed P cx now cache s (salt ++ eih ++ sealed P a0 ([0] ++ put_u64 ts ++ [] ++ put_u16 len) ++ after) =
      Ok (auth_step a0, set_user (set_req_salt s (Some salt)) (Some u), len, salt, after).
  Proof.
    intros Hm Hk Hu Hne Hs Hc He Hf Ha Hts Hv Hlen.
    set (n := kind_n (c_kind cx)) in *.
    set (Fx := sealed P a0 ([0] ++ put_u64 ts ++ [] ++ put_u16 len)).
    assert (HFl : lenN Fx = 27).
    { unfold Fx. rewrite (lenN_sealed P HL), !lenN_app, lenN_put_u16. unfold put_u64. rewrite lenN_put_be.
      rewrite lenN_cons, !lenN_nil. lia. }
    set (src := salt ++ eih ++ Fx ++ after).
    set (hl := 16 + 1 + 8 + 0 + 2 + TAG).
    assert (Hhl : hl = 43) by reflexivity.
    assert (E1 : takeN n src = salt) by (apply takeN_app_len; exact Hs).
    assert (E2 : takeN hl (dropN n src) = eih ++ Fx).
    { unfold src. rewrite (dropN_app_len salt _ n Hs). rewrite (app_assoc eih). apply takeN_app_len.
      rewrite lenN_app, He, HFl, Hhl. reflexivity. }
    assert (E3 : dropN (n + hl) src = after).
    { unfold src. rewrite (app_assoc eih), (app_assoc salt). apply dropN_app_len.
      rewrite !lenN_app, Hs, He, HFl, Hhl. lia. }
    assert (E4 : takeN 16 (eih ++ Fx) = eih) by (apply takeN_app_len; exact He).
    assert (E5 : dropN 16 (eih ++ Fx) = Fx) by (apply dropN_app_len; exact He).
    assert (Hreq : support_eih (c_kind cx) && match c_users cx with Some (_ :: _) => true | _ => false end = true).
    { rewrite Hk, Hu. destruct users; [congruence|reflexivity]. }
    assert (Hsl : n + hl <= lenN src).
    { unfold src. rewrite !lenN_app, Hs, He, HFl, Hhl. lia. }
    clearbody src. unfold open_fixed. cbv zeta. rewrite Hm. cbv iota. rewrite Hreq. cbv iota. fold n. fold hl. clearbody hl.
    destruct (N.ltb_spec (lenN src) (n + hl)) as [Hlt|_]; [lia|].
    rewrite E1, Hc, E2, E3, E4, E5, Hu. cbv iota. rewrite Hf. cbn [bind]. rewrite Ha. cbn [bind].
    unfold Fx. rewrite (open_sealed P HL). cbn [app get_u8 bind mode_expect_u8].
    rewrite N.eqb_refl. cbn [negb].
    unfold get_u64, put_u64. rewrite get_be_put_be by (change (256 ^ 8) with (2 ^ 64); exact Hts). cbn [bind].
    rewrite Hv. cbn [negb bind]. rewrite get_u16_put_nil by exact Hlen. reflexivity.
  Qed.

  Section ReqIdentity.
    Variables (k : kind) (ukey ipsk salt : bytes) (a : addr) (item pad : bytes) (now now' : N) (cache : list bytes)
              (ssalt : bytes) (users : list user) (u : user) (a0 : auth).
    Hypothesis Hk : support_eih k = true.
    Hypothesis Hs : lenN salt = kind_n k.
    Hypothesis Hw : addr_wf a.
    Hypothesis Hr : representable a.
    Hypothesis Hp : lenN pad <= 900.
    Hypothesis Hnow : now < 2^64.
    Hypothesis Hclock : abs_diff now' now <= 30.
    Hypothesis Hfresh : mem_salt cache salt = false.
    Hypothesis Hus : users <> [].
    Hypothesis Hfind : find_user users (takeN 16 (p_b3hash P ukey)) = Some u.
    Hypothesis Huk : u_key u = ukey.
    Hypothesis Haes : forall key b, lenN b = 16 -> lenN (p_aes_enc P key b) = 16.
    Hypothesis Hb3h : forall x, 16 <= lenN (p_b3hash P x).
    Hypothesis Ha0 : new_auth_2022 P k ukey salt = Ok a0.

    Let n := kind_n k.
    Let cx := {| c_kind := k; c_key := ukey; c_ikeys := [ipsk]; c_users := None |}.
    Let cs := {| s_mode := Client; s_salt := salt; s_req_salt := None; s_user := None; s_addr := Some a |}.
    Let cxs := {| c_kind := k; c_key := ipsk; c_ikeys := []; c_users := Some users |}.
    Let pre := s5_encode a ++ put_u16 (lenN pad) ++ pad.
    Let fit := 65535 - lenN pre.
    Let item1 := takeN fit item.
    Let item2 := dropN fit item.
    Let a2 := auth_step (auth_step a0).
    Let via := pre ++ item1.
    Let isk := p_b3derive P IDENTITY_LABEL (ipsk ++ salt).
    Let eih := make_eih P k isk ukey.
    Let F := sealed P a0 ([0] ++ put_u64 now ++ [] ++ put_u16 (lenN via)).
    Let V := sealed P (auth_step a0) via.
    Let hdr := salt ++ eih ++ F ++ V.
    Let ssW (x : option bytes * option user) :=
      {| s_mode := Server; s_salt := ssalt; s_req_salt := fst x; s_user := snd x; s_addr := None |}.
    Let stW (x : option bytes * option user) : fstate := (cache, ssW x, codec_new).
    Let D := fdec P cxs now'.

    Let Hk22 : is_2022 k = true := support_eih_2022 k Hk.

    Lemma i_pre_len : lenN pre = lenN (s5_encode a) + 2 + lenN pad.
    Proof. unfold pre. rewrite !lenN_app, lenN_put_u16. lia. Qed.
    Lemma i_via_lt : lenN via < 65536.
    Proof.
      pose proof (s5_len_bound a Hw Hr) as Hb. pose proof (takeN_len_le fit item) as Hle.
      unfold via, item1. rewrite lenN_app. pose proof i_pre_len. unfold fit in *. lia.
    Qed.
    Lemma i_lenE : lenN eih = 16.
    Proof. unfold eih, make_eih. apply Haes. apply lenN_takeN. apply Hb3h. Qed.
    Lemma i_lenF : lenN F = 27.
    Proof.
      unfold F. rewrite (lenN_sealed P HL), !lenN_app, lenN_put_u16. unfold put_u64. rewrite lenN_put_be.
      rewrite lenN_cons, !lenN_nil. lia.
    Qed.
    Lemma i_lenV : lenN V = lenN via + 16.
    Proof. unfold V. apply (lenN_sealed P HL). Qed.
    Lemma i_len_hdr : lenN hdr = n + 43 + (lenN via + 16).
    Proof. unfold hdr. rewrite !lenN_app, i_lenE, i_lenF, i_lenV, Hs. unfold n. lia. Qed.

    (* the server recovers the user hash from the identity header *)
    Lemma i_find :
      find_user users (p_aes_dec P (aes_key (c_kind cxs) (p_b3derive P IDENTITY_LABEL (c_key cxs ++ salt))) eih) = Some u.
    Proof. cbn [c_kind c_key cxs]. unfold eih, make_eih. fold isk. rewrite (aes_dec_enc P HL). exact Hfind. Qed.

    Lemma i_open_fixed x after :
      open_fixed P cxs now' cache (ssW x) (salt ++ eih ++ F ++ after) =
        Ok (auth_step a0, set_user (set_req_salt (ssW x) (Some salt)) (Some u), lenN via, salt, after).
    Proof.
      apply (open_fixed_eih cxs now' cache (ssW x) users salt eih a0 u now (lenN via) after eq_refl Hk eq_refl Hus Hs Hfresh
               i_lenE i_find).
      - rewrite Huk. exact Ha0.
      - exact Hnow.
      - apply validate_ok. exact Hclock.
      - exact i_via_lt.
    Qed.

    Lemma i_wait_short x p : lenN p < n -> D (stW x) p = Ok (stW x, p, None).
    Proof. intros H. unfold D, stW. apply fdec_ok. apply (ss_decode_short P Hb3 Hhk); [reflexivity|exact H]. Qed.

    (* salt, identity header and fixed header complete, variable part incomplete: request salt and user are recorded *)
    Lemma i_wait_var x af : lenN af < lenN via + 16 ->
      D (stW x) (salt ++ eih ++ F ++ af) = Ok (stW (Some salt, Some u), salt ++ eih ++ F ++ af, None).
    Proof.
      intros H. unfold D, stW. apply fdec_ok.
      rewrite (ss_decode_init_2022 P Hb3 Hhk); [|reflexivity| |exact Hk22].
      2:{ cbn [c_kind cxs]. rewrite !lenN_app, Hs. lia. }
      unfold init_2022. rewrite i_open_fixed.
      destruct (N.ltb_spec (lenN af) (lenN via + TAG)) as [_|Hge]; [reflexivity|unfold TAG in Hge; lia].
    Qed.

    Lemma i_wait_any x p w b : p ++ w = hdr ++ b -> lenN p < lenN hdr -> (lenN p < n \/ n + 43 <= lenN p) ->
      exists x', D (stW x) p = Ok (stW x', p, None).
    Proof.
      intros E Hl [Hsh|Hge].
      - exists x. apply i_wait_short. exact Hsh.
      - assert (Hsp : p = (salt ++ eih ++ F) ++ dropN (lenN (salt ++ eih ++ F)) p).
        { apply (prefix_split p (salt ++ eih ++ F) (V ++ b) w).
          - rewrite E. unfold hdr. rewrite <- !app_assoc. reflexivity.
          - rewrite !lenN_app, i_lenE, i_lenF, Hs. fold n. lia. }
        set (af := dropN (lenN (salt ++ eih ++ F)) p) in *.
        assert (Haf : lenN af < lenN via + 16).
        { pose proof (f_equal lenN Hsp) as HE. rewrite !lenN_app, i_lenE, i_lenF, Hs in HE. rewrite i_len_hdr in Hl.
          unfold n in *. lia. }
        clearbody af. subst p. exists (Some salt, Some u). rewrite <- !app_assoc. apply i_wait_var. exact Haf.
    Qed.

    (* the call that sees the whole head *)
    Lemma i_cross_call x tl :
      D (stW x) (hdr ++ tl) =
        Ok ((salt :: cache,
             set_addr {| s_mode := Server; s_salt := ssalt; s_req_salt := Some salt; s_user := Some u; s_addr := None |} (Some a),
             {| cd_enc := None; cd_dec := Some (a2, DLen); cd_pending := [] |}), tl, Some item1).
    Proof.
      unfold D, stW. apply fdec_ok.
      rewrite (ss_decode_init_2022 P Hb3 Hhk); [|reflexivity| |exact Hk22].
      2:{ cbn [c_kind cxs]. rewrite lenN_app, i_len_hdr. fold n. lia. }
      unfold init_2022, hdr. rewrite <- !app_assoc. rewrite i_open_fixed.
      destruct (N.ltb_spec (lenN (V ++ tl)) (lenN via + TAG)) as [Hlt|_];
        [rewrite lenN_app, i_lenV in Hlt; unfold TAG in Hlt; lia|].
      rewrite Hfresh.
      rewrite (takeN_app_len V tl (lenN via + TAG) i_lenV), (dropN_app_len V tl (lenN via + TAG) i_lenV).
      unfold V. rewrite (open_sealed P HL). unfold ssW. cbn [set_user set_req_salt s_mode s_addr s_salt s_req_salt s_user fst snd].
      f_equal. unfold via.
      exact (parse_via P Hb3 Hhk a pad item1
               (fun ad v => Ok (set_addr {| s_mode := Server; s_salt := ssalt; s_req_salt := Some salt; s_user := Some u;
                                            s_addr := None |} (Some ad),
                                {| cd_enc := None; cd_dec := Some (a2, DLen); cd_pending := [] |}, tl, Some v))
               Hw Hr Hp).
    Qed.

    (* the client's first write *)
    Lemma i_encode_first :
      ss_encode P cx now pad cs codec_new item =
        Ok ({| cd_enc := Some (snd (encode_payload P a2 A2022_PAYLOAD_LIMIT item2)); cd_dec := None; cd_pending := [] |},
            hdr ++ fst (encode_payload P a2 A2022_PAYLOAD_LIMIT item2)).
    Proof.
      pose proof (s5_len_bound a Hw Hr) as Hb. pose proof i_pre_len as Hpre.
      assert (Hpre' : lenN pre <= 65535) by lia.
      destruct (header_split P Hb3 Hhk pre item Hpre') as (Hlen & Htk & Hdr).
      fold fit in Hlen, Htk, Hdr. fold item1 in Hlen, Htk. fold item2 in Hdr. fold via in Hlen, Htk.
      unfold ss_encode, cx, cs.
      cbn [cd_enc cd_dec cd_pending codec_new c_kind c_key c_ikeys s_mode s_salt s_addr s_user s_req_salt].
      rewrite Hk, Hk22. cbn [with_eih with_eih_go app]. rewrite Ha0. cbn [bind].
      replace (s5_encode a ++ (put_u16 (lenN pad) ++ pad) ++ item) with (pre ++ item)
        by (unfold pre; rewrite <- !app_assoc; reflexivity).
      rewrite new_header_eq. cbn [bind mode_to_u8]. rewrite Htk, Hdr, Hlen. rewrite (N.mod_small now) by exact Hnow.
      fold a2. fold isk. fold eih. fold F. fold V.
      destruct (encode_payload P a2 A2022_PAYLOAD_LIMIT item2) as [out a3].
      cbn [fst snd]. unfold hdr. rewrite <- !app_assoc. reflexivity.
    Qed.

    Lemma req2022_identity_stream_fdec more sreq suser :
      exists cdf msgs,
        encode_msgs (fun cd w => ss_encode P {| c_kind := k; c_key := ukey; c_ikeys := [ipsk]; c_users := None |} now pad
                                   {| s_mode := Client; s_salt := salt; s_req_salt := None; s_user := None; s_addr := Some a |} cd w)
                    codec_new (item :: more) = Ok (cdf, msgs) /\
        kind_n k + 43 <= lenN (hd [] msgs) /\
        forall segs, concat segs = concat msgs -> first_read_ok (kind_n k) 43 segs ->
          exists first items cdf',
            Framed.run _ _ (fdec P {| c_kind := k; c_key := ipsk; c_ikeys := []; c_users := Some users |} now')
              (cache, {| s_mode := Server; s_salt := ssalt; s_req_salt := sreq; s_user := suser; s_addr := None |}, codec_new)
              [] segs [] =
              ((salt :: cache,
                set_addr (set_user (set_req_salt {| s_mode := Server; s_salt := ssalt; s_req_salt := sreq; s_user := suser;
                                                    s_addr := None |} (Some salt)) (Some u)) (Some a), cdf'),
               [], first :: items, Waiting) /\
            first ++ concat items = item ++ concat more.
    Proof.
      pose proof i_encode_first as He.
      set (out1 := fst (encode_payload P a2 A2022_PAYLOAD_LIMIT item2)) in *.
      set (a1 := snd (encode_payload P a2 A2022_PAYLOAD_LIMIT item2)) in *.
      destruct (encode_msgs_established cx now pad cs more {| cd_enc := Some a1; cd_dec := None; cd_pending := [] |} a1 eq_refl)
        as (cdf & ms & ae' & H1 & H2 & H5).
      exists cdf, ((hdr ++ out1) :: ms). split.
      { fold cx cs. cbn [encode_msgs]. rewrite He. cbn [bind]. rewrite H1. reflexivity. }
      split.
      { cbn [hd]. rewrite lenN_app, i_len_hdr. unfold n. lia. }
      intros segs Hsegs Hfr. cbn [concat] in Hsegs. rewrite <- app_assoc in Hsegs.
      assert (Hbody : crun P (a2, DLen) (out1 ++ concat ms) = Stop (ae', DLen) [] (item2 ++ concat more)).
      { rewrite crun_app. subst out1. rewrite (crun_encode_payload P HL a2 A2022_PAYLOAD_LIMIT _ (or_intror eq_refl)).
        cbn [app]. fold a1. rewrite H5. reflexivity. }
      destruct (run_W k ipsk a (salt :: cache) now' ssalt (Some salt) (Some u) (Some users) (option bytes * option user)%type
                  stW hdr item1 a2 n 43 ltac:(rewrite i_len_hdr; lia) i_wait_any i_cross_call
                  segs (sreq, suser) [] (out1 ++ concat ms) (ae', DLen) (item2 ++ concat more)) as (items & HR & Hc).
      - rewrite lenN_nil, i_len_hdr. lia.
      - exact Hsegs.
      - exact Hfr.
      - exact Hbody.
      - exists item1, items, {| cd_enc := None; cd_dec := Some (ae', DLen); cd_pending := [] |}. split; [exact HR|].
        rewrite Hc, app_assoc. unfold item1, item2. rewrite take_drop. reflexivity.
    Qed.
  End ReqIdentity.

  (* GOAL 3: the request stream with one identity header.  Hypotheses on the primitives beyond prim_laws:
     an AES block is 16 bytes, a BLAKE3 hash has at least 16 bytes (both true of the real primitives). *)
  Theorem ss2022_identity_request_stream : forall k ukey ipsk salt a pad now now' cache ssalt sreq suser users u ws,
    support_eih k = true -> lenN salt = kind_n k -> addr_wf a -> representable a ->
    lenN pad <= 900 -> now < 2^64 -> abs_diff now' now <= 30 -> mem_salt cache salt = false ->
    users <> [] -> find_user users (takeN 16 (p_b3hash P ukey)) = Some u -> u_key u = ukey ->
    (forall key b, lenN b = 16 -> lenN (p_aes_enc P key b) = 16) -> (forall x, 16 <= lenN (p_b3hash P x)) ->
    ws <> [] ->
    let cx := {| c_kind := k; c_key := ukey; c_ikeys := [ipsk]; c_users := None |} in
    let cs := {| s_mode := Client; s_salt := salt; s_req_salt := None; s_user := None; s_addr := Some a |} in
    let cxs := {| c_kind := k; c_key := ipsk; c_ikeys := []; c_users := Some users |} in
    let ss := {| s_mode := Server; s_salt := ssalt; s_req_salt := sreq; s_user := suser; s_addr := None |} in
    exists cdf msgs,
      encode_msgs (fun cd w => ss_encode P cx now pad cs cd w) codec_new ws = Ok (cdf, msgs) /\
      kind_n k + 43 <= lenN (hd [] msgs) /\
      forall segs, concat segs = concat msgs -> first_read_ok (kind_n k) 43 segs ->
        exists first relays stf,
          Framed.run _ _ (ss_sdec P cxs now') (cache, ss, codec_new, false) [] segs [] =
            (stf, [], ConnectTcp first a :: map RelayTcp relays, Waiting) /\
          first ++ concat relays = concat ws /\
          ss_state_session stf = set_addr (set_user (set_req_salt ss (Some salt)) (Some u)) (Some a).
  Proof.
    intros k ukey ipsk salt a pad now now' cache ssalt sreq suser users u ws Hk Hs Hw Hr Hp Hnow Hclock Hfresh Hus Hfind Huk
           Haes Hb3h Hws cx cs cxs ss.
    destruct ws as [|item more]; [congruence|]. clear Hws.
    destruct (SsTcpRoundtrip.new_auth_2022_ok P Hb3 Hhk k ukey salt) as [a0 Ha0].
    destruct (req2022_identity_stream_fdec k ukey ipsk salt a item pad now now' cache ssalt users u a0
                Hk Hs Hw Hr Hp Hnow Hclock Hfresh Hus Hfind Huk Haes Hb3h Ha0 more sreq suser)
      as (cdf & msgs & He & Hhd & Hrun).
    exists cdf, msgs. split; [exact He|]. split; [exact Hhd|].
    intros segs Hc Hfr. destruct (Hrun segs Hc Hfr) as (first & items & cdf' & HR & Hcc).
    destruct (lift_run_connect cxs now' segs cache ss codec_new _ _ _ a eq_refl eq_refl HR eq_refl)
      as (f & r & ib & Hit & HS).
    injection Hit as -> ->.
    eexists f, r, _. split; [exact HS|]. split; [exact Hcc|reflexivity].
  Qed.

End SsTcpStreamReq.

(* ---------------------------------------------------------------------------------------------- *)
(* Non-vacuity: the toy primitives of Proofs/SsTcpRoundtrip.v satisfy every premise (including the  *)
(* two extra length facts of the identity theorem); a concrete identity-header flow ([] :: reads) in *)
(* eight segments; and the first-read condition is a genuine premise: a segmentation that violates   *)
(* it makes the model's server fail with EShort.                                                     *)
(* ---------------------------------------------------------------------------------------------- *)
Module ToyStream.
  Import ToyPrims.
  Definition toy_ss2022_request_stream := ss2022_request_stream toyP toy_laws toy_b3_len toy_hkdf_len.
  Definition toy_sslegacy_request_stream := sslegacy_request_stream toyP toy_laws toy_b3_len toy_hkdf_len.
  Lemma toy_aes_len : forall key b, lenN b = 16 -> lenN (p_aes_enc toyP key b) = 16.
  Proof. intros key b H. exact H. Qed.
  Lemma toy_b3h_len : forall x, 16 <= lenN (p_b3hash toyP x).
  Proof.
    intros x. cbn [toyP p_b3hash]. rewrite lenN_takeN; [lia|]. rewrite lenN_app, lenN_repeat. lia.
  Qed.
  Definition toy_ss2022_identity_request_stream k ukey ipsk salt a pad now now' cache ssalt sreq suser users u ws
    H1 H2 H3 H4 H5 H6 H7 H8 H9 H10 H11 :=
    ss2022_identity_request_stream toyP toy_laws toy_b3_len toy_hkdf_len k ukey ipsk salt a pad now now' cache ssalt sreq suser
      users u ws H1 H2 H3 H4 H5 H6 H7 H8 H9 H10 H11 toy_aes_len toy_b3h_len.

  Definition ukey : bytes := repeat 5 16.
  Definition ipsk : bytes := repeat 6 16.
  Definition alice : user := {| u_hash := takeN 16 (p_b3hash toyP ukey); u_key := ukey |}.
  Definition bob : user := {| u_hash := repeat 1 16; u_key := repeat 2 16 |}.
  Definition cxI := {| c_kind := K22_A128; c_key := ukey; c_ikeys := [ipsk]; c_users := None |}.
  Definition cxsI := {| c_kind := K22_A128; c_key := ipsk; c_ikeys := []; c_users := Some [bob; alice] |}.
  Definition wire : res (codec * list bytes) :=
    encode_msgs (fun cd w => ss_encode toyP cxI 1000 pad3 client_s cd w) codec_new [[]; hello; world].
  Fixpoint cut (w : bytes) (ns : list nat) : list bytes :=
    match ns with [] => [w] | n :: t => firstn n w :: cut (skipn n w) t end.

  Example toy_identity_segmented :
    match wire with
    | Ok (_, ms) =>
      let segs := cut (concat ms) [5; 7; 0; 60; 3; 20; 1]%nat in
      first_read_okb 16 43 segs = true /\
      match Framed.run _ _ (ss_sdec toyP cxsI 1010) ([], server_s, codec_new, false) [] segs [] with
      | (stf, buf, items, st) =>
        buf = [] /\ st = Waiting /\ items = [ConnectTcp [] target; RelayTcp (hello ++ world)] /\
        ss_state_session stf = set_addr (set_user (set_req_salt server_s (Some salt16)) (Some alice)) (Some target)
      end
    | _ => False
    end.
  Proof. vm_compute. repeat split. Qed.

  Example toy_first_read_is_needed :
    match wire with
    | Ok (_, ms) =>
      let segs := cut (concat ms) [5; 30]%nat in
      first_read_okb 16 43 segs = false /\
      match Framed.run _ _ (ss_sdec toyP cxsI 1010) ([], server_s, codec_new, false) [] segs [] with
      | (_, _, items, st) => items = [] /\ st = Failed EShort
      end
    | _ => False
    end.
  Proof. vm_compute. repeat split. Qed.
End ToyStream.

Print Assumptions ss2022_request_stream.
Print Assumptions sslegacy_request_stream.
Print Assumptions ss2022_identity_request_stream.
Print Assumptions ss_decode_server.
Print Assumptions lift_run.
Print Assumptions ToyStream.toy_ss2022_identity_request_stream.
