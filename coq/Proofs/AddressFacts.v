(* Round-trip, exact consumption, refusal and totality of the two address codecs. *)
From Coq Require Import NArith List Lia Bool ZArith ZifyBool ZifyN ZifyNat.
From Octo Require Import Base.Bytes Model.Address.
Import ListNotations.
Open Scope N_scope.

Lemma get_u16_put p t : p < 65536 -> get_u16 (put_u16 p ++ t) = Ok (p, t).
Proof. intros H. unfold get_u16, put_u16. apply get_be_put_be. exact H. Qed.

Lemma lenN_put_u16 p : lenN (put_u16 p) = 2.
Proof. apply lenN_put_be. Qed.

Lemma s5_length_ok a : lenN (s5_encode a) = match a with ADom h _ => 4 + lenN h | AV4 ip _ => 3 + lenN ip | AV6 ip _ => 3 + lenN ip end.
Proof. destruct a; cbn [s5_encode]; rewrite !lenN_app, lenN_put_u16; rewrite ?lenN_cons, ?lenN_nil; lia. Qed.

Lemma s5_length_exact a : addr_wf a -> s5_length a = lenN (s5_encode a).
Proof. destruct a; cbn [addr_wf s5_length]; rewrite s5_length_ok; lia. Qed.

(* nth_error at the N-valued offset |pre| of pre ++ x :: t *)
Lemma nth_error_at pre (x : N) t : nth_error (pre ++ x :: t) (N.to_nat (lenN pre)) = Some x.
Proof. rewrite lenN_spec, Nat2N.id. rewrite nth_error_app2 by lia. rewrite Nat.sub_diag. reflexivity. Qed.
Lemma nth_error_at1 pre (x y : N) t : nth_error (pre ++ x :: y :: t) (N.to_nat (lenN pre + 1)) = Some y.
Proof. rewrite lenN_spec. replace (N.to_nat (N.of_nat (length pre) + 1)) with (S (length pre)) by lia.
       rewrite nth_error_app2 by lia. replace (S (length pre) - length pre)%nat with 1%nat by lia. reflexivity. Qed.

Theorem s5_try_decode_at_ok pre a tail : addr_wf a -> representable a ->
  s5_try_decode_at (pre ++ s5_encode a ++ tail) (lenN pre) = Ok (Some (lenN (s5_encode a))).
Proof.
  intros Hwf Hrep. rewrite s5_length_ok. unfold s5_try_decode_at.
  destruct a as [ip p|ip p|h p]; cbn [s5_encode addr_wf representable] in *.
  - destruct Hwf as (Hl & _ & _). cbn [app]. rewrite nth_error_at. cbn [N.eqb Pos.eqb]. do 2 f_equal. lia.
  - destruct Hwf as (Hl & _ & _). cbn [app]. rewrite nth_error_at. cbn [N.eqb Pos.eqb]. do 2 f_equal. lia.
  - cbn [app]. rewrite nth_error_at. cbn [N.eqb Pos.eqb]. rewrite nth_error_at1.
    do 2 f_equal. rewrite N.mod_small by lia. lia.
Qed.

Theorem s5_roundtrip a tail : addr_wf a -> representable a -> s5_decode (s5_encode a ++ tail) = Ok (a, tail).
Proof.
  intros Hwf Hrep. unfold s5_decode.
  pose proof (s5_try_decode_at_ok [] a tail Hwf Hrep) as Ht. cbn [app lenN lenN_acc] in Ht. rewrite Ht. cbn [bind].
  rewrite lenN_app. destruct (N.ltb_spec (lenN (s5_encode a) + lenN tail) (lenN (s5_encode a))); [lia|].
  destruct a as [ip p|ip p|h p]; cbn [s5_encode addr_wf representable] in *.
  - destruct Hwf as (Hl & _ & Hp). cbn [app get_u8 bind]. cbn [N.eqb Pos.eqb].
    rewrite <- app_assoc. rewrite <- Hl at 1. rewrite split_to_app. cbn [bind].
    rewrite N.mod_small by lia. rewrite get_u16_put by lia. reflexivity.
  - destruct Hwf as (Hl & _ & Hp). cbn [app get_u8 bind]. cbn [N.eqb Pos.eqb].
    rewrite <- app_assoc. rewrite <- Hl at 1. rewrite split_to_app. cbn [bind].
    rewrite N.mod_small by lia. rewrite get_u16_put by lia. reflexivity.
  - destruct Hwf as (_ & Hp). cbn [app get_u8 bind]. cbn [N.eqb Pos.eqb].
    rewrite (N.mod_small (lenN h)) by lia. rewrite <- app_assoc. rewrite split_to_app. cbn [bind].
    rewrite N.mod_small by lia. rewrite get_u16_put by lia. reflexivity.
Qed.

(* totality: decode never panics, whatever the input *)
Lemma get_u8_cons x t : get_u8 (x :: t) = Ok (x, t). Proof. reflexivity. Qed.

Theorem s5_decode_total src : s5_decode src <> Panic.
Proof.
  unfold s5_decode, s5_try_decode_at. destruct src as [|t r]; [cbn; discriminate|].
  cbn [N.to_nat nth_error].
  destruct (t =? 1) eqn:E1; [|destruct (t =? 3) eqn:E3; [|destruct (t =? 4) eqn:E4]]; cbn [bind].
  - destruct (N.ltb_spec (lenN (t :: r)) (1 + 4 + 2)) as [|Hl]; [discriminate|].
    rewrite get_u8_cons. cbn [bind]. rewrite E1. rewrite lenN_cons in Hl.
    rewrite split_to_ok by lia. cbn [bind]. unfold get_u16. rewrite get_be_ok by (rewrite lenN_dropN; lia). discriminate.
  - change (N.to_nat (0 + 1)) with 1%nat. destruct r as [|l r']; cbn [nth_error]; [discriminate|]. cbn [bind].
    destruct (N.ltb_spec (lenN (t :: l :: r')) (1 + 1 + l + 2)) as [|Hl]; [discriminate|].
    rewrite get_u8_cons. cbn [bind]. rewrite E1, E3. rewrite get_u8_cons. cbn [bind]. rewrite !lenN_cons in Hl.
    rewrite split_to_ok by lia. cbn [bind]. unfold get_u16. rewrite get_be_ok by (rewrite lenN_dropN; lia). discriminate.
  - destruct (N.ltb_spec (lenN (t :: r)) (1 + 8 * 2 + 2)) as [|Hl]; [discriminate|].
    rewrite get_u8_cons. cbn [bind]. rewrite E1, E3. rewrite lenN_cons in Hl.
    rewrite split_to_ok by lia. cbn [bind]. unfold get_u16. rewrite get_be_ok by (rewrite lenN_dropN; lia). discriminate.
  - discriminate.
Qed.

Theorem s5_try_decode_at_total src at_ : s5_try_decode_at src at_ <> Panic.
Proof.
  unfold s5_try_decode_at. destruct (nth_error src (N.to_nat at_)) as [t|]; [|discriminate].
  destruct (t =? 1); [discriminate|]. destruct (t =? 3).
  - destruct (nth_error src (N.to_nat (at_ + 1))); discriminate.
  - destruct (t =? 4); discriminate.
Qed.

(* ---- VMess-style ---- *)
Ltac ltb_false := match goal with |- context [?a <? ?b] =>
  destruct (N.ltb_spec a b) as [Hc|_]; [exfalso; rewrite ?lenN_nil in *; lia|] end.

Theorem vm_roundtrip utf8_ok a tail : addr_wf a -> representable a ->
  (forall h p, a = ADom h p -> utf8_ok h = true) ->
  exists w, vm_write a = Ok w /\ vm_read utf8_ok (w ++ tail) = Ok (a, tail).
Proof.
  intros Hwf Hrep Hutf. destruct a as [ip p|ip p|h p]; cbn [vm_write addr_wf representable] in *.
  - destruct Hwf as (Hl & _ & Hp). eexists; split; [reflexivity|]. unfold vm_read.
    rewrite !lenN_app, lenN_put_u16. rewrite lenN_cons.
    ltb_false.
    rewrite N.mod_small by lia. rewrite <- !app_assoc. rewrite get_u16_put by lia. cbn [bind app get_u8]. cbn [N.eqb Pos.eqb].
    rewrite lenN_app. destruct (N.ltb_spec (lenN ip + lenN tail) 4); [lia|].
    rewrite <- Hl at 1. rewrite split_to_app. reflexivity.
  - destruct Hwf as (Hl & _ & Hp). eexists; split; [reflexivity|]. unfold vm_read.
    rewrite !lenN_app, lenN_put_u16. rewrite lenN_cons.
    ltb_false.
    rewrite N.mod_small by lia. rewrite <- !app_assoc. rewrite get_u16_put by lia. cbn [bind app get_u8]. cbn [N.eqb Pos.eqb].
    rewrite lenN_app. destruct (N.ltb_spec (lenN ip + lenN tail) 16); [lia|].
    rewrite <- Hl at 1. rewrite split_to_app. reflexivity.
  - destruct Hwf as (_ & Hp).
    destruct (N.eqb_spec (lenN h) 0) as [|_]; [lia|]. destruct (N.ltb_spec 255 (lenN h)) as [|_]; [lia|]. cbn [orb].
    eexists; split; [reflexivity|]. unfold vm_read.
    rewrite !lenN_app, lenN_put_u16. rewrite !lenN_cons.
    ltb_false.
    rewrite N.mod_small by lia. rewrite <- !app_assoc. rewrite get_u16_put by lia. cbn [bind app get_u8]. cbn [N.eqb Pos.eqb].
    rewrite lenN_cons, lenN_app. destruct (N.ltb_spec (1 + (lenN h + lenN tail)) 1); [lia|]. cbn [bind].
    rewrite (N.mod_small (lenN h)) by lia.
    destruct (N.ltb_spec (lenN h + lenN tail) (lenN h)); [lia|]. rewrite split_to_app. cbn [bind].
    rewrite (Hutf h p eq_refl). reflexivity.
Qed.

Theorem vm_read_total utf8_ok src : vm_read utf8_ok src <> Panic.
Proof.
  unfold vm_read. destruct (N.ltb_spec (lenN src) 3) as [|H3]; [discriminate|].
  unfold get_u16. rewrite get_be_ok by lia. cbn [bind].
  destruct (dropN 2 src) as [|t r] eqn:Ed.
  { exfalso. assert (lenN (dropN 2 src) = 0) by (rewrite Ed; reflexivity). rewrite lenN_dropN in H. lia. }
  rewrite get_u8_cons. cbn [bind].
  destruct (t =? 1).
  { destruct (N.ltb_spec (lenN r) 4); [discriminate|]. rewrite split_to_ok by lia. discriminate. }
  destruct (t =? 2).
  { destruct (N.ltb_spec (lenN r) 1); [discriminate|]. destruct r as [|l r']; [rewrite lenN_nil in *; lia|].
    rewrite get_u8_cons. cbn [bind]. destruct (N.ltb_spec (lenN r') l); [discriminate|]. rewrite split_to_ok by lia. cbn [bind].
    destruct (utf8_ok (takeN l r')); discriminate. }
  destruct (t =? 3); [|discriminate].
  destruct (N.ltb_spec (lenN r) 16); [discriminate|]. rewrite split_to_ok by lia. discriminate.
Qed.

Theorem vm_write_total a : vm_write a <> Panic.
Proof. destruct a; cbn [vm_write]; try discriminate. destruct ((lenN host =? 0) || (255 <? lenN host)); discriminate. Qed.

(* an address that cannot be represented is refused by the guard and by the VMess writer *)
Theorem unrepresentable_refused a : ~ representable a -> accept_addr a = false /\ (forall w, vm_write a <> Ok w).
Proof.
  destruct a as [ip p|ip p|h p]; cbn [representable accept_addr representableb vm_write]; intros H; try (exfalso; apply H; exact I).
  split.
  - destruct (N.leb_spec 1 (lenN h)), (N.leb_spec (lenN h) 255); cbn; try reflexivity. exfalso; apply H; lia.
  - intros w. destruct (N.eqb_spec (lenN h) 0), (N.ltb_spec 255 (lenN h)); cbn [orb]; try discriminate. exfalso; apply H; lia.
Qed.
Theorem accept_addr_iff a : accept_addr a = true <-> representable a.
Proof.
  destruct a as [ip p|ip p|h p]; cbn [representable accept_addr representableb]; try tauto.
  rewrite andb_true_iff, !N.leb_le. tauto.
Qed.

(* why the guard is needed: without it the SOCKS5-style encoder silently truncates the length byte *)
Example s5_truncates_long_host :
  let h := repeat 97 300 in
  exists a' rest, s5_decode (s5_encode (ADom h 80)) = Ok (a', rest) /\ a' <> ADom h 80 /\ rest <> [].
Proof. vm_compute. do 2 eexists. split; [reflexivity|]. split; discriminate. Qed.
