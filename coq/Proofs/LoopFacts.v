(* Facts about Model/Loops.v: one failing or hostile flow never takes the service down.

   For each of the five loops L (stcp, squic, ctcp, sudp, cudp):
     L_service_survives        after ANY finite list of catalogue events the loop is still running
                               and a Good* event still produces its forwarding action
     L_fatal_not_in_catalogue  the events that end the loop are not per-flow events
     L_exit_only_on_fatal      the loop ends on no other event
     L_fatal_never_enabled     in every history whose events can occur (enabled), the loop never ends
   and `service_survives` is the conjunction of the five first statements. *)
From Coq Require Import NArith List Bool Lia.
From Octo Require Import Model.Loops.
Import ListNotations.
Open Scope N_scope.

(* ---------------- generic argument ---------------- *)
Section Generic.
  Context {state event action : Type}.
  Variable step : state -> event -> state * list action * loop_status.
  Variable ok : state -> event -> bool.          (* the events allowed in a history *)
  Variable Inv : state -> Prop.
  Hypothesis step_ok : forall s e, Inv s -> ok s e = true ->
      status_of step s e = Continue /\ Inv (state_of step s e).

  (* every event of the history is allowed in the state in which it occurs *)
  Fixpoint valid (s : state) (evs : list event) : Prop :=
    match evs with
    | [] => True
    | e :: t => ok s e = true /\ valid (state_of step s e) t
    end.

  Lemma run_valid evs : forall s acts, Inv s -> valid s evs ->
    exists s' acts', fold_left (run_step step) evs (s, acts, Continue) = (s', acts', Continue) /\ Inv s'.
  Proof.
    induction evs as [|e t IH]; simpl; intros s acts HI HV.
    - exists s, acts; auto.
    - destruct HV as [He Ht]. destruct (step_ok s e HI He) as [Hc Hi].
      unfold status_of, state_of in *. destruct (step s e) as [[s1 a1] st1]; simpl in *. subst st1.
      apply IH; assumption.
  Qed.
End Generic.

(* when `ok` does not depend on the state, validity is forallb *)
Lemma valid_forallb {state event action} (step : state -> event -> state * list action * loop_status)
      (cat : event -> bool) evs : forall s, forallb cat evs = true -> valid step (fun _ e => cat e) s evs.
Proof.
  induction evs as [|e t IH]; simpl; intros s H; auto.
  apply andb_true_iff in H as [H1 H2]. split; auto.
Qed.

(* ---------------- maps ---------------- *)
Lemma lookup_put_same {V} k (v : V) t : lookup k (put k v t) = Some v.
Proof. unfold put; simpl. rewrite N.eqb_refl; reflexivity. Qed.

(* ===================================================================================== *)
(* 1. server TCP accept loop                                                              *)
(* ===================================================================================== *)
Lemma stcp_never_exits tls ws s e : status_of (stcp_step tls ws) s e = Continue.
Proof.
  unfold status_of. destruct e as [|c|c f|c]; simpl; auto. destruct (task_outcome f); reflexivity.
Qed.

Theorem stcp_service_survives :
  forall tls ws (evs : list stcp_event), forallb stcp_catalogue evs = true ->
    exists s acts, run (stcp_step tls ws) stcp_init evs = (s, acts, Continue) /\
      forall c, In (Spawned c) (actions_of (stcp_step tls ws) s (SConn c NoFault)) /\
                status_of (stcp_step tls ws) s (SConn c NoFault) = Continue.
Proof.
  intros tls ws evs H.
  destruct (run_valid (stcp_step tls ws) (fun _ e => stcp_catalogue e) (fun _ => True)
              (fun s e _ _ => conj (stcp_never_exits tls ws s e) I) evs stcp_init [] I
              (valid_forallb _ _ evs _ H)) as (s & acts & Hr & _).
  exists s, acts. split; [exact Hr|]. intros c. split; [left; reflexivity|reflexivity].
Qed.

Theorem stcp_fatal_not_in_catalogue : forall e, stcp_fatal e = true -> stcp_catalogue e = false.
Proof. intros e H; discriminate. Qed.

Theorem stcp_exit_only_on_fatal : forall tls ws s e, status_of (stcp_step tls ws) s e = Exit -> stcp_fatal e = true.
Proof. intros tls ws s e H. rewrite stcp_never_exits in H; discriminate. Qed.

Theorem stcp_fatal_never_enabled :
  forall tls ws evs, valid (stcp_step tls ws) stcp_enabled stcp_init evs ->
    exists s acts, run (stcp_step tls ws) stcp_init evs = (s, acts, Continue).
Proof.
  intros tls ws evs H.
  destruct (run_valid (stcp_step tls ws) stcp_enabled (fun _ => True)
              (fun s e _ _ => conj (stcp_never_exits tls ws s e) I) evs stcp_init [] I H) as (s & acts & Hr & _).
  exists s, acts; exact Hr.
Qed.

(* which tasks remain: a stalled handshake occupies its own task and nothing else *)
Example stcp_stall_costs_one_task :
  run (stcp_step true true) stcp_init
      [SConn 1 TlsHandshakeStall; SAcceptError; SConn 2 TlsHandshakeFail; SCodecError 3; SConn 4 WsHandshakeStall;
       SConn 5 DecodeError; SConn 6 NoFault; SConn 7 PeerReset; STaskDone 4]
  = ({| stcp_tasks := [(6, Serving); (1, Stalled)] |},
     [Spawned 1; LogAcceptFailed; Slept100ms; Spawned 2; TaskEndedWithLog 2; LogCodecFailed; ConnDropped 3;
      Spawned 4; Spawned 5; TaskEndedWithLog 5; Spawned 6; Spawned 7; TaskEndedWithLog 7], Continue).
Proof. vm_compute. reflexivity. Qed.

(* ===================================================================================== *)
(* 2. server QUIC accept loop                                                             *)
(* ===================================================================================== *)
Definition squic_inv (s : squic_state) : Prop := squic_owns_endpoint s = true.

Lemma squic_step_cat s e : squic_inv s -> squic_catalogue e = true ->
  status_of squic_step s e = Continue /\ squic_inv (state_of squic_step s e).
Proof.
  unfold status_of, state_of, squic_inv. intros HI HC.
  destruct e as [c|c f|c|]; simpl in *; try discriminate; auto.
  destruct (quic_outcome f); simpl; auto.
Qed.

Lemma squic_step_enabled s e : squic_inv s -> squic_enabled s e = true ->
  status_of squic_step s e = Continue /\ squic_inv (state_of squic_step s e).
Proof.
  intros HI HE. destruct e as [c|c f|c|]; try (apply squic_step_cat; auto; reflexivity).
  unfold squic_inv in HI. simpl in HE. rewrite HI in HE; discriminate.
Qed.

Theorem squic_service_survives :
  forall (evs : list squic_event), forallb squic_catalogue evs = true ->
    exists s acts, run squic_step squic_init evs = (s, acts, Continue) /\
      forall c, In (Spawned c) (actions_of squic_step s (QConn c QNoFault)) /\
                status_of squic_step s (QConn c QNoFault) = Continue.
Proof.
  intros evs H.
  destruct (run_valid squic_step (fun _ e => squic_catalogue e) squic_inv squic_step_cat evs squic_init []
              eq_refl (valid_forallb _ _ evs _ H)) as (s & acts & Hr & _).
  exists s, acts. split; [exact Hr|]. intros c. split; [left; reflexivity|reflexivity].
Qed.

Theorem squic_fatal_not_in_catalogue : forall e, squic_fatal e = true -> squic_catalogue e = false.
Proof. intros e H. unfold squic_catalogue. rewrite H; reflexivity. Qed.

Theorem squic_exit_only_on_fatal : forall s e, status_of squic_step s e = Exit -> squic_fatal e = true.
Proof.
  unfold status_of. intros s e. destruct e as [c|c f|c|]; simpl; auto; try discriminate.
  destruct (quic_outcome f); discriminate.
Qed.

Theorem squic_fatal_never_enabled :
  forall evs, valid squic_step squic_enabled squic_init evs ->
    exists s acts, run squic_step squic_init evs = (s, acts, Continue).
Proof.
  intros evs H.
  destruct (run_valid squic_step squic_enabled squic_inv squic_step_enabled evs squic_init [] eq_refl H)
    as (s & acts & Hr & _).
  exists s, acts; exact Hr.
Qed.

(* ===================================================================================== *)
(* 3. client TCP accept loop                                                              *)
(* ===================================================================================== *)
Lemma ctcp_never_exits s e : status_of ctcp_step s e = Continue.
Proof. unfold status_of. destruct e as [|c f|c]; simpl; auto. destruct (ctask_outcome f); reflexivity. Qed.

Theorem ctcp_service_survives :
  forall (evs : list ctcp_event), forallb ctcp_catalogue evs = true ->
    exists s acts, run ctcp_step ctcp_init evs = (s, acts, Continue) /\
      forall c, In (Spawned c) (actions_of ctcp_step s (CConn c CNoFault)) /\
                status_of ctcp_step s (CConn c CNoFault) = Continue.
Proof.
  intros evs H.
  destruct (run_valid ctcp_step (fun _ e => ctcp_catalogue e) (fun _ => True)
              (fun s e _ _ => conj (ctcp_never_exits s e) I) evs ctcp_init [] I
              (valid_forallb _ _ evs _ H)) as (s & acts & Hr & _).
  exists s, acts. split; [exact Hr|]. intros c. split; [left; reflexivity|reflexivity].
Qed.

Theorem ctcp_fatal_not_in_catalogue : forall e, ctcp_fatal e = true -> ctcp_catalogue e = false.
Proof. intros e H; discriminate. Qed.

Theorem ctcp_exit_only_on_fatal : forall s e, status_of ctcp_step s e = Exit -> ctcp_fatal e = true.
Proof. intros s e H. rewrite ctcp_never_exits in H; discriminate. Qed.

Theorem ctcp_fatal_never_enabled :
  forall evs, valid ctcp_step ctcp_enabled ctcp_init evs ->
    exists s acts, run ctcp_step ctcp_init evs = (s, acts, Continue).
Proof.
  intros evs H.
  destruct (run_valid ctcp_step ctcp_enabled (fun _ => True)
              (fun s e _ _ => conj (ctcp_never_exits s e) I) evs ctcp_init [] I H) as (s & acts & Hr & _).
  exists s, acts; exact Hr.
Qed.

(* ===================================================================================== *)
(* 4. server UDP loop                                                                     *)
(* ===================================================================================== *)
Definition sudp_inv (s : sudp_state) : Prop := sudp_own_tx s = true.

Lemma sudp_step_cat s e : sudp_inv s -> sudp_catalogue e = true ->
  status_of sudp_step s e = Continue /\ sudp_inv (state_of sudp_step s e).
Proof.
  unfold status_of, state_of, sudp_inv. intros HI HC.
  destruct e as [|k d f|k|k r f|k|]; simpl in *; try discriminate; auto.
  - destruct f; simpl; auto; destruct (lookup k (sudp_assoc s)) as [[|]|]; simpl; auto.
  - destruct (lookup k (sudp_assoc s)); simpl; auto.
  - destruct (lookup k (sudp_assoc s)) as [[|]|]; simpl; auto.
Qed.

Lemma sudp_step_enabled s e : sudp_inv s -> sudp_enabled s e = true ->
  status_of sudp_step s e = Continue /\ sudp_inv (state_of sudp_step s e).
Proof.
  intros HI HE. destruct e as [|k d f|k|k r f|k|]; try (apply sudp_step_cat; auto; reflexivity).
  unfold sudp_inv in HI. simpl in HE. rewrite HI in HE; discriminate.
Qed.

(* a well-behaved datagram is forwarded whatever the table looks like: through the running
   association of its key, or through one that is (re)created for it *)
Lemma sudp_good_forwarded s k d :
  In (Forwarded d) (actions_of sudp_step s (UDatagram k d DNoFault)) /\
  status_of sudp_step s (UDatagram k d DNoFault) = Continue.
Proof.
  unfold actions_of, status_of; simpl.
  destruct (lookup k (sudp_assoc s)) as [[|]|]; simpl; auto.
Qed.

Theorem sudp_service_survives :
  forall (evs : list sudp_event), forallb sudp_catalogue evs = true ->
    exists s acts, run sudp_step sudp_init evs = (s, acts, Continue) /\
      forall k d, In (Forwarded d) (actions_of sudp_step s (UDatagram k d DNoFault)) /\
                  status_of sudp_step s (UDatagram k d DNoFault) = Continue.
Proof.
  intros evs H.
  destruct (run_valid sudp_step (fun _ e => sudp_catalogue e) sudp_inv sudp_step_cat evs sudp_init []
              eq_refl (valid_forallb _ _ evs _ H)) as (s & acts & Hr & _).
  exists s, acts. split; [exact Hr|]. intros k d. apply sudp_good_forwarded.
Qed.

Theorem sudp_fatal_not_in_catalogue : forall e, sudp_fatal e = true -> sudp_catalogue e = false.
Proof. intros e H. unfold sudp_catalogue. rewrite H; reflexivity. Qed.

Theorem sudp_exit_only_on_fatal : forall s e, status_of sudp_step s e = Exit -> sudp_fatal e = true.
Proof.
  unfold status_of. intros s e. destruct e as [|k d f|k|k r f|k|]; simpl; auto; try discriminate.
  - destruct f; simpl; try discriminate; destruct (lookup k (sudp_assoc s)) as [[|]|]; discriminate.
  - destruct (lookup k (sudp_assoc s)); discriminate.
  - destruct (lookup k (sudp_assoc s)) as [[|]|]; discriminate.
Qed.

(* the channel cannot close while the loop holds its own sender: in every history of events that
   can occur the loop goes on *)
Theorem sudp_fatal_never_enabled :
  forall evs, valid sudp_step sudp_enabled sudp_init evs ->
    exists s acts, run sudp_step sudp_init evs = (s, acts, Continue).
Proof.
  intros evs H.
  destruct (run_valid sudp_step sudp_enabled sudp_inv sudp_step_enabled evs sudp_init [] eq_refl H)
    as (s & acts & Hr & _).
  exists s, acts; exact Hr.
Qed.

(* the repaired defect, as a history: one replayed datagram used to stop the whole UDP service *)
Example sudp_replay_then_good :
  run sudp_step sudp_init
      [UDatagram 7 1 DNoFault; UDatagram 7 1 DReplayed; UDatagram 7 2 DNoFault; UDatagram 0 3 DUndecodable;
       UAssocEnded 7; UDatagram 7 4 DNoFault; UDatagram 8 5 DAssocCreateFails; UDatagram 8 6 DNoFault;
       UPeerReply 7 9 RNoFault; UEvict 7; UPeerReply 7 10 RNoFault]
  = ({| sudp_assoc := [(8, true)]; sudp_own_tx := true |},
     [Forwarded 1; UdpLog; Forwarded 2; UdpLog; Forwarded 4; UdpLog; Forwarded 6; Replied 7 9], Continue).
Proof. vm_compute. reflexivity. Qed.

(* ===================================================================================== *)
(* 5. client UDP loop                                                                     *)
(* ===================================================================================== *)
Definition cudp_inv (s : cudp_state) : Prop := cudp_local_off s = false.

Lemma cudp_step_cat s e : cudp_inv s -> cudp_catalogue e = true ->
  status_of cudp_step s e = Continue /\ cudp_inv (state_of cudp_step s e).
Proof.
  unfold status_of, state_of, cudp_inv. intros HI HC.
  destruct e as [|k|k r ok|k d f|  |k| |]; simpl in *; try discriminate; auto.
  - destruct (lookup k (cudp_bind s)) as [[|]|]; simpl; auto.
  - rewrite HI. destruct (lookup k (cudp_bind s)) as [[|]|]; simpl; auto; destruct f; simpl; auto.
  - destruct (lookup k (cudp_bind s)); simpl; auto.
Qed.

Lemma cudp_good_forwarded s k d : cudp_inv s ->
  In (Forwarded d) (actions_of cudp_step s (LDatagram k d LNoFault)) /\
  status_of cudp_step s (LDatagram k d LNoFault) = Continue.
Proof.
  unfold actions_of, status_of, cudp_inv; simpl. intros ->.
  destruct (lookup k (cudp_bind s)) as [[|]|]; simpl; auto.
Qed.

Theorem cudp_service_survives :
  forall (evs : list cudp_event), forallb cudp_catalogue evs = true ->
    exists s acts, run cudp_step cudp_init evs = (s, acts, Continue) /\
      forall k d, In (Forwarded d) (actions_of cudp_step s (LDatagram k d LNoFault)) /\
                  status_of cudp_step s (LDatagram k d LNoFault) = Continue.
Proof.
  intros evs H.
  destruct (run_valid cudp_step (fun _ e => cudp_catalogue e) cudp_inv cudp_step_cat evs cudp_init []
              eq_refl (valid_forallb _ _ evs _ H)) as (s & acts & Hr & Hi).
  exists s, acts. split; [exact Hr|]. intros k d. apply cudp_good_forwarded, Hi.
Qed.

Theorem cudp_fatal_not_in_catalogue : forall e, cudp_fatal e = true -> cudp_catalogue e = false.
Proof. intros e H. unfold cudp_catalogue. rewrite H; reflexivity. Qed.

Lemma cudp_exit_only_on_fatal_aux s e : cudp_fatal e = false -> status_of cudp_step s e = Continue.
Proof.
  unfold status_of. destruct e as [|k|k r ok|k d f|  |k| |]; simpl; auto; try discriminate.
  - destruct (lookup k (cudp_bind s)) as [[|]|]; reflexivity.
  - destruct (cudp_local_off s); [reflexivity|].
    destruct (lookup k (cudp_bind s)) as [[|]|]; simpl; auto; destruct f; reflexivity.
  - destruct (lookup k (cudp_bind s)); reflexivity.
Qed.

Theorem cudp_exit_only_on_fatal : forall s e, status_of cudp_step s e = Exit -> cudp_fatal e = true.
Proof.
  intros s e H. destruct (cudp_fatal e) eqn:F; auto.
  rewrite (cudp_exit_only_on_fatal_aux s e F) in H; discriminate.
Qed.

(* `else => break` is unreachable: in every history of events that can occur -- the catalogue AND
   local receive errors -- the loop goes on *)
Theorem cudp_fatal_never_enabled :
  forall evs, valid cudp_step cudp_enabled cudp_init evs ->
    exists s acts, run cudp_step cudp_init evs = (s, acts, Continue).
Proof.
  intros evs H.
  assert (St : forall s e, True -> cudp_enabled s e = true ->
                 status_of cudp_step s e = Continue /\ True).
  { intros s e _ HE. split; auto. apply cudp_exit_only_on_fatal_aux. destruct e; try reflexivity; discriminate. }
  destruct (run_valid cudp_step cudp_enabled (fun _ => True) St evs cudp_init [] I H) as (s & acts & Hr & _).
  exists s, acts; exact Hr.
Qed.

(* OBSERVATION (not a catalogue event): a receive error of the local UDP socket makes the pattern
   `Some(Ok(..)) = local_client.next()` (CT l.234) fail, which disables that branch for the rest of
   the current select!.  The loop does not end, but local datagrams are not read until the cleanup
   timer (period 600 s) or a reply completes the select!. *)
Theorem local_recv_error_parks_local_branch :
  forall s k d,
    let s1 := state_of cudp_step s LLocalRecvError in
    status_of cudp_step s LLocalRecvError = Continue /\
    actions_of cudp_step s1 (LDatagram k d LNoFault) = [] /\
    In (Forwarded d) (actions_of cudp_step (state_of cudp_step s1 LTick) (LDatagram k d LNoFault)).
Proof.
  intros s k d. unfold status_of, actions_of, state_of; simpl. repeat split; auto.
  destruct (lookup k (cudp_bind s)) as [[|]|]; simpl; auto.
Qed.

(* the repaired defects as a history: failing outbound setup, failing first send (which leaves a
   detached reply task), failing send, a reply task that ended, malformed local datagrams *)
Example cudp_faults_then_good :
  run cudp_step cudp_init
      [LDatagram 1 1 LOutboundFails; LDatagram 1 2 LFirstSendFails; LMalformed; LDatagram 1 3 LNoFault;
       LDatagram 1 4 LSendFails; LReply 1 9 true; LReplyTaskEnded 1; LReply 1 10 true; LDatagram 1 5 LNoFault;
       LTick; LEvict 1; LDatagram 1 6 LNoFault; LReply 1 11 false]
  = ({| cudp_bind := [(1, true)]; cudp_orphans := 1; cudp_local_off := false; cudp_own_tx := true |},
     [UdpLog; UdpLog; Forwarded 3; UdpLog; ToLocal 1 9; Forwarded 5; Forwarded 6; UdpLog], Continue).
Proof. vm_compute. reflexivity. Qed.

(* ===================================================================================== *)
(* the property, all loops together                                                       *)
(* ===================================================================================== *)
(* stated with fold_left: `run step init evs` unfolds to fold_left (run_step step) evs (init, [], Continue) *)
Theorem service_survives :
  (forall tls ws evs, forallb stcp_catalogue evs = true ->
     exists s acts, fold_left (run_step (stcp_step tls ws)) evs (stcp_init, [], Continue) = (s, acts, Continue) /\
       forall c, In (Spawned c) (actions_of (stcp_step tls ws) s (SConn c NoFault)) /\
                 status_of (stcp_step tls ws) s (SConn c NoFault) = Continue) /\
  (forall evs, forallb squic_catalogue evs = true ->
     exists s acts, fold_left (run_step squic_step) evs (squic_init, [], Continue) = (s, acts, Continue) /\
       forall c, In (Spawned c) (actions_of squic_step s (QConn c QNoFault)) /\
                 status_of squic_step s (QConn c QNoFault) = Continue) /\
  (forall evs, forallb ctcp_catalogue evs = true ->
     exists s acts, fold_left (run_step ctcp_step) evs (ctcp_init, [], Continue) = (s, acts, Continue) /\
       forall c, In (Spawned c) (actions_of ctcp_step s (CConn c CNoFault)) /\
                 status_of ctcp_step s (CConn c CNoFault) = Continue) /\
  (forall evs, forallb sudp_catalogue evs = true ->
     exists s acts, fold_left (run_step sudp_step) evs (sudp_init, [], Continue) = (s, acts, Continue) /\
       forall k d, In (Forwarded d) (actions_of sudp_step s (UDatagram k d DNoFault)) /\
                   status_of sudp_step s (UDatagram k d DNoFault) = Continue) /\
  (forall evs, forallb cudp_catalogue evs = true ->
     exists s acts, fold_left (run_step cudp_step) evs (cudp_init, [], Continue) = (s, acts, Continue) /\
       forall k d, In (Forwarded d) (actions_of cudp_step s (LDatagram k d LNoFault)) /\
                   status_of cudp_step s (LDatagram k d LNoFault) = Continue).
Proof.
  repeat split.
  - intros tls ws evs H. exact (stcp_service_survives tls ws evs H).
  - intros evs H. exact (squic_service_survives evs H).
  - intros evs H. exact (ctcp_service_survives evs H).
  - intros evs H. exact (sudp_service_survives evs H).
  - intros evs H. exact (cudp_service_survives evs H).
Qed.

(* the catalogue really contains the fault classes of the property *)
Example catalogue_contents :
  forallb stcp_catalogue [SAcceptError; SCodecError 1; SConn 1 TlsHandshakeFail; SConn 1 TlsHandshakeStall;
                          SConn 1 WsHandshakeFail; SConn 1 WsHandshakeStall; SConn 1 DecodeError;
                          SConn 1 FirstNotConnect; SConn 1 EarlyClose; SConn 1 Unresolvable; SConn 1 Unreachable;
                          SConn 1 PeerReset; SConn 1 NoFault] = true /\
  forallb ctcp_catalogue [CAcceptError; CConn 1 CLocalHandshakeFail; CConn 1 CLocalHandshakeStall; CConn 1 CCodecError;
                          CConn 1 COutboundFail; CConn 1 COutboundStall; CConn 1 COpenFail; CConn 1 CPeerReset;
                          CConn 1 CNoFault] = true /\
  forallb sudp_catalogue [URecvError; UDatagram 1 1 DUndecodable; UDatagram 1 1 DDecodeNone; UDatagram 1 1 DReplayed;
                          UDatagram 1 1 DUnresolvable; UDatagram 1 1 DSendPeerFails; UDatagram 1 1 DAssocCreateFails;
                          UAssocEnded 1; UPeerReply 1 1 REncodeFails; UPeerReply 1 1 RSendFails; UEvict 1;
                          UDatagram 1 1 DNoFault] = true /\
  forallb cudp_catalogue [LTick; LEvict 1; LReply 1 1 false; LDatagram 1 1 LOutboundFails; LDatagram 1 1 LFirstSendFails;
                          LDatagram 1 1 LSendFails; LMalformed; LReplyTaskEnded 1; LDatagram 1 1 LNoFault] = true /\
  sudp_catalogue UChannelClosed = false /\ cudp_catalogue LAllBranchesDisabled = false /\
  squic_catalogue QEndpointClosed = false /\ cudp_catalogue LLocalRecvError = false.
Proof. vm_compute. repeat split. Qed.

Print Assumptions service_survives.
Print Assumptions stcp_fatal_never_enabled.
Print Assumptions squic_fatal_never_enabled.
Print Assumptions ctcp_fatal_never_enabled.
Print Assumptions sudp_fatal_never_enabled.
Print Assumptions cudp_fatal_never_enabled.
Print Assumptions sudp_exit_only_on_fatal.
Print Assumptions cudp_exit_only_on_fatal.
Print Assumptions squic_exit_only_on_fatal.
Print Assumptions local_recv_error_parks_local_branch.
