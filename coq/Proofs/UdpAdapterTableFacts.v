(* What the adapter judgements of Proofs/UdpAdapterFacts.v mean for HISTORIES of the client's binding table and the
   server's association table (Model/UdpTables.v, which is built on the generated adapter tables):

     datagram_reaches_addressed_target (a) after any history, a datagram of `sender` addressed to `target` goes out on a
                                       live binding of that sender, and the address the server sends it to (wire_dest:
                                       the packet's own address or the outbound's request-header address, whichever the
                                       server of that protocol uses) is `target`
     reply_labelled_with_replier       (b) a reply read on binding k goes to k's sender labelled with the source the
                                       server reported, or with a target binding k HAS sent to and which is the ONLY one
                                       it ever sent to (so it is the replying target)
     assoc_key_separates_sessions_and_users
                                       (c) two datagrams with the same association key have the same client session id
                                       and the same user (and, without replay protection, the same client address)
     generated_adapters_match_model    the generated tables are the ones the relay model was first written with by hand
     R1_* R2_* R3_*                    sensitivity: the same statements are FALSE for the shapes of the seeded
                                       regressions (vmess keyed by the sender only; shadowsocks labelling with the
                                       binding's target; an association key without the user), with the histories
   (s_* : for ANY shape that passes the judgement; the unprefixed theorems are those at shape_of p.)

   Outside the model: WHO physically answered.  (b) says the label is the one target the binding has sent to; that this
   is the host whose datagram came back holds as long as the server relays on a request-header flow only what that
   flow's target answered.  server/template.rs relay_udp_bidirectional reads an UNCONNECTED socket and a VMess reply
   carries no source, so a datagram that any other host sends to that port is relayed and labelled with the target as
   well (the T2 udp suite does not send such datagrams). *)
From Coq Require Import NArith List Bool Lia.
From Octo Require Import Model.UdpTables Proofs.UdpAdapterFacts Proofs.UdpTableFacts.
Import ListNotations.
Local Open Scope N_scope.

(* ===================================================================================== *)
(* (a) the target                                                                         *)
(* ===================================================================================== *)
Lemma key_by_target_inj sender1 target1 sender2 target2 :
  key_by KSenderTarget sender1 target1 = key_by KSenderTarget sender2 target2 -> target1 = target2.
Proof. intros [= _ H]. exact H. Qed.

(* on a shape that is target_ok, the server's address for a datagram sent on a binding under its own key is its target *)
Lemma wire_dest_under_own_key s b sender target :
  target_ok s = true ->
  key_by (s_key s) sender target = key_by (s_key s) (b_sender b) (b_target b) ->
  wire_dest s (b_target b) target = Some target.
Proof.
  intros Hok Hk. apply target_ok_spec in Hok. unfold wire_dest.
  destruct Hok as [[H1 H2]|(H1 & H2 & H3)].
  - rewrite H2, H1. reflexivity.
  - rewrite H3, H2. rewrite H1 in Hk. apply key_by_target_inj in Hk. rewrite Hk. reflexivity.
Qed.

Theorem s_datagram_reaches_addressed_target :
  forall s, target_ok s = true ->
  forall evs sender target content o s0 a,
    let k := key_by (s_key s) sender target in
    let st := s_cstep s (fst (s_crun s [] evs)) (CLocal sender target content o s0) in
    In a (snd st) ->
    a = ToServer k target content /\
    exists b, tlookup ckey_eqb k (fst st) = Some b /\ b_alive b = true /\ b_sender b = sender /\
              wire_dest s (b_target b) target = Some target.
Proof.
  intros s Hok evs sender target content o s0 a k st Ha.
  split; [exact (s_datagram_preserved_client s _ _ _ _ _ _ a Ha)|].
  pose proof (s_crun_inv s evs [] [] (s_cinv_nil s)) as Hi. simpl in Hi.
  pose proof (s_cstep_inv s evs _ (CLocal sender target content o s0) Hi) as Hi'.
  fold st in Hi'. specialize (Hi' k).
  assert (L : exists b, tlookup ckey_eqb k (fst st) = Some b /\ b_alive b = true).
  { subst st. set (t0 := fst (s_crun s [] evs)) in *. unfold s_cstep in *.
    rewrite (kstep_lookup ckey_eqb ckey_eqb_spec (s_cev_key s) (s_centry_step s)).
    rewrite (kstep_actions ckey_eqb (s_cev_key s) (s_centry_step s)) in Ha.
    change (s_cev_key s (CLocal sender target content o s0)) with k in *.
    rewrite (eqb_refl ckey_eqb ckey_eqb_spec).
    simpl in Ha |- *. fold k in Ha |- *.
    destruct (tlookup ckey_eqb k t0) as [[bs bt [|]]|]; simpl in *.
    - eexists; split; reflexivity.
    - destruct (o && s0); simpl in *; [eexists; split; reflexivity|destruct Ha].
    - destruct (o && s0); simpl in *; [eexists; split; reflexivity|destruct Ha]. }
  destruct L as (b & Lb & Al). exists b. destruct (Hi' b Lb) as [Hk _].
  repeat split; auto.
  - unfold k in Hk. apply (f_equal fst) in Hk. rewrite !key_by_sender in Hk. auto.
  - apply (wire_dest_under_own_key s b sender target Hok Hk).
Qed.

Theorem datagram_reaches_addressed_target :
  forall p evs sender target content o s a,
    let k := new_key p sender target in
    let st := cstep p (fst (crun p [] evs)) (CLocal sender target content o s) in
    In a (snd st) ->
    a = ToServer k target content /\
    exists b, tlookup ckey_eqb k (fst st) = Some b /\ b_alive b = true /\ b_sender b = sender /\
              wire_dest (shape_of p) (b_target b) target = Some target.
Proof. intros p. exact (s_datagram_reaches_addressed_target (shape_of p) (target_ok_current p)). Qed.

(* ===================================================================================== *)
(* (b) the label                                                                          *)
(* ===================================================================================== *)
(* every action of a history comes from a step of one of its events *)
Lemma krun_actions_from_steps {K V E A : Type} (eqb : K -> K -> bool) (key_of : E -> K)
      (entry_step : option V -> E -> option V * list A) evs :
  forall t k a, In (k, a) (snd (krun eqb key_of entry_step t evs)) ->
    exists t' e, In e evs /\ k = key_of e /\ In a (snd (kstep eqb key_of entry_step t' e)).
Proof.
  induction evs as [|e r IH]; simpl; intros t k a H; [destruct H|].
  destruct (kstep eqb key_of entry_step t e) as [t1 a1] eqn:E1.
  destruct (krun eqb key_of entry_step t1 r) as [t2 b] eqn:E2. simpl in H.
  apply in_app_or in H. destruct H as [H|H].
  - apply in_map_iff in H. destruct H as (x & [= <- <-] & Hx).
    exists t, e. rewrite E1. auto.
  - specialize (IH t1 k a). rewrite E2 in IH. destruct (IH H) as (t' & e' & H1 & H2 & H3).
    exists t', e'. auto.
Qed.

(* what is sent to the server on binding k comes from a local datagram whose key is k *)
Lemma s_toserver_key s t0 evs k' k target content :
  In (k', ToServer k target content) (snd (s_crun s t0 evs)) ->
  k' = k /\ exists sender, k = key_by (s_key s) sender target.
Proof.
  intros H. apply krun_actions_from_steps in H. destruct H as (t' & e & _ & Hk & Ha).
  fold (s_cstep s t' e) in Ha.
  destruct e as [sender tg c o s0|k0 c carried|k0|k0].
  - apply s_datagram_preserved_client in Ha. injection Ha as -> -> ->. simpl in Hk. split; eauto.
  - rewrite s_cstep_actions in Ha. simpl in Ha.
    destruct (tlookup ckey_eqb k0 t') as [b|]; [destruct (b_alive b)|]; simpl in Ha;
      repeat (destruct Ha as [Ha|Ha]; try discriminate); destruct Ha.
  - rewrite s_cstep_actions in Ha. simpl in Ha. destruct (tlookup ckey_eqb k0 t'); destruct Ha.
  - rewrite s_cstep_actions in Ha. simpl in Ha. destruct Ha.
Qed.

(* a binding that is in the table has sent (at least) the datagram that created it, to its b_target *)
Lemma s_crun_binding_has_sent s evs : forall t acts0,
  (forall k b, tlookup ckey_eqb k t = Some b -> exists c, In (k, ToServer k (b_target b) c) acts0) ->
  forall k b, tlookup ckey_eqb k (fst (s_crun s t evs)) = Some b ->
    exists c, In (k, ToServer k (b_target b) c) (acts0 ++ snd (s_crun s t evs)).
Proof.
  induction evs as [|e r IH]; intros t acts0 H k b L.
  - simpl in *. rewrite app_nil_r. eauto.
  - unfold s_crun in *. simpl in *.
    pose proof (kstep_lookup ckey_eqb ckey_eqb_spec (s_cev_key s) (s_centry_step s) t e) as HL.
    pose proof (kstep_actions ckey_eqb (s_cev_key s) (s_centry_step s) t e) as HA.
    destruct (kstep ckey_eqb (s_cev_key s) (s_centry_step s) t e) as [t1 a1]. simpl in HL, HA.
    specialize (IH t1 (acts0 ++ map (fun x => (s_cev_key s e, x)) a1)).
    destruct (krun ckey_eqb (s_cev_key s) (s_centry_step s) t1 r) as [t2 a2]. simpl in *.
    rewrite app_assoc. apply IH; [|exact L].
    clear IH L k b. intros k b L. rewrite HL in L.
    destruct (ckey_eqb (s_cev_key s e) k) eqn:E.
    + apply ckey_eqb_spec in E. subst k.
      assert (Old : forall b0, tlookup ckey_eqb (s_cev_key s e) t = Some b0 ->
                      exists c, In (s_cev_key s e, ToServer (s_cev_key s e) (b_target b0) c)
                                   (acts0 ++ map (fun x => (s_cev_key s e, x)) a1)).
      { intros b0 L0. destruct (H _ _ L0) as [c Hc]. exists c. apply in_or_app; left; exact Hc. }
      destruct e as [sender target content o s0|k0 content carried|k0|k0]; simpl in *.
      * destruct (tlookup ckey_eqb (key_by (s_key s) sender target) t) as [[bs bt [|]]|] eqn:L0; simpl in *.
        -- injection L as <-. apply (Old _ eq_refl).
        -- destruct (o && s0); simpl in *; injection L as <-; [|apply (Old _ eq_refl)].
           exists content. apply in_or_app; right. subst a1. left; reflexivity.
        -- destruct (o && s0); simpl in *; [|discriminate]. injection L as <-.
           exists content. apply in_or_app; right. subst a1. left; reflexivity.
      * destruct (tlookup ckey_eqb k0 t) as [b0|] eqn:L0; [|discriminate].
        destruct (b_alive b0); simpl in L; injection L as <-; apply (Old _ eq_refl).
      * destruct (tlookup ckey_eqb k0 t) as [b0|] eqn:L0; [|discriminate].
        simpl in L. injection L as <-. apply (Old _ eq_refl).
      * discriminate.
    + destruct (H _ _ L) as [c Hc]. exists c. apply in_or_app; left; exact Hc.
Qed.

Theorem s_reply_labelled_with_replier :
  forall s, label_ok s = true ->
  forall evs k content carried a,
    In a (snd (s_cstep s (fst (s_crun s [] evs)) (CReply k content carried))) ->
    exists label,
      a = ToLocalApp k (fst k) label content /\
      (label = carried \/
       (exists c, In (k, ToServer k label c) (snd (s_crun s [] evs))) /\
       forall k' target c, In (k', ToServer k target c) (snd (s_crun s [] evs)) -> target = label).
Proof.
  intros s Hok evs k content carried a Ha.
  destruct (s_reply_goes_to_owner s Hok evs k content carried a Ha) as [-> _].
  eexists; split; [reflexivity|].
  unfold s_owner_label. apply label_ok_spec in Hok. destruct Hok as [->|[-> Hk]]; [left; reflexivity|].
  destruct (snd k) as [tk|] eqn:Sk; [right|left; reflexivity].
  split.
  - (* the binding is there (it produced the reply) and sits under its own key *)
    rewrite s_cstep_actions in Ha. simpl in Ha.
    destruct (tlookup ckey_eqb k (fst (s_crun s [] evs))) as [b|] eqn:L; [|destruct Ha].
    pose proof (s_crun_inv s evs [] [] (s_cinv_nil s)) as Hi. simpl in Hi. destruct (Hi k b L) as [Hkey _].
    assert (H0 : forall k0 b0, tlookup ckey_eqb k0 (@nil (ckey * binding)) = Some b0 ->
                   exists c, In (k0, ToServer k0 (b_target b0) c) []) by (intros ? ? X; discriminate X).
    destruct (s_crun_binding_has_sent s evs [] [] H0 k b L) as [c Hc]. simpl in Hc.
    exists c. rewrite Hk in Hkey. rewrite Hkey in Sk. simpl in Sk. injection Sk as <-. exact Hc.
  - intros k' target c Hin. apply s_toserver_key in Hin. destruct Hin as [_ [sender Hs]].
    rewrite Hk in Hs. rewrite Hs in Sk. simpl in Sk. congruence.
Qed.

Theorem reply_labelled_with_replier :
  forall p evs k content carried a,
    In a (snd (cstep p (fst (crun p [] evs)) (CReply k content carried))) ->
    exists label,
      a = ToLocalApp k (fst k) label content /\
      (label = carried \/
       (exists c, In (k, ToServer k label c) (snd (crun p [] evs))) /\
       forall k' target c, In (k', ToServer k target c) (snd (crun p [] evs)) -> target = label).
Proof. intros p. exact (s_reply_labelled_with_replier (shape_of p) (label_ok_current p)). Qed.

(* ===================================================================================== *)
(* (c) the server's association key                                                       *)
(* ===================================================================================== *)
Lemma has_part_or a b parts : has_part a parts || has_part b parts = true -> has_part a parts = true \/ has_part b parts = true.
Proof. apply orb_true_iff. Qed.

Theorem assoc_key_of_separates :
  forall parts, assoc_parts_ok parts = true ->
  forall rp s1 u1 c1 s2 u2 c2,
    associate_key_of parts rp s1 u1 c1 = associate_key_of parts rp s2 u2 c2 ->
    s1 = s2 /\ u1 = u2 /\ (rp = false -> c1 = c2).
Proof.
  intros parts Hok rp s1 u1 c1 s2 u2 c2 E. unfold assoc_parts_ok in Hok.
  apply andb_true_iff in Hok. destruct Hok as [Hok Hc]. apply andb_true_iff in Hok. destruct Hok as [Hs Hu].
  unfold associate_key_of in E. rewrite Hs, Hu in E. injection E as E1 E2 E3.
  repeat split; auto. intros ->.
  destruct (has_part AkClientAlways parts); [injection E3; auto|].
  simpl in Hc. rewrite Hc in E3. injection E3; auto.
Qed.

Theorem assoc_key_separates_sessions_and_users :
  forall rp s1 u1 c1 s2 u2 c2,
    associate_key rp s1 u1 c1 = associate_key rp s2 u2 c2 ->
    s1 = s2 /\ u1 = u2 /\ (rp = false -> c1 = c2).
Proof. exact (assoc_key_of_separates server_assoc_key_parts assoc_key_parts_complete). Qed.

(* ===================================================================================== *)
(* the generated tables are the ones the relay model was first written with by hand       *)
(* ===================================================================================== *)
Definition hand_new_key (p : proto) (sender : addr) (target : address) : ckey :=
  match p with Vmess => (sender, Some target) | _ => (sender, None) end.
Definition hand_reply_label (p : proto) (b : binding) (carried : address) : address :=
  match p with Vmess => b_target b | _ => carried end.
Definition hand_associate_key (replay_protected : bool) (sid : N) (u : option user) (client : addr) : akey :=
  (sid, u, if replay_protected then None else Some client).

Theorem generated_adapters_match_model :
  (forall p sender target, new_key p sender target = hand_new_key p sender target) /\
  (forall p b carried, reply_label p b carried = hand_reply_label p b carried) /\
  (forall rp sid u client, associate_key rp sid u client = hand_associate_key rp sid u client).
Proof. repeat split; intros; try destruct p; reflexivity. Qed.

(* ===================================================================================== *)
(* sensitivity: the regressions                                                           *)
(* ===================================================================================== *)
(* R1 (seeded/C09-b): vmess bindings keyed by the sender only.  One application (1001) sends to 53, then to 54: the
   second datagram goes out on the binding of the first, whose request header says 53 -- and vmess drops the
   datagram's own target, so the server sends it to 53. *)
Theorem R1_second_target_sent_to_first :
  let st := s_cstep R1_vmess (fst (s_crun R1_vmess [] [CLocal 1001 53 [1] true true])) (CLocal 1001 54 [2] true true) in
  snd st = [ToServer (1001, None) 54 [2]] /\
  exists b, tlookup ckey_eqb (1001, None) (fst st) = Some b /\ b_target b = 53 /\
            wire_dest R1_vmess (b_target b) 54 = Some 53.
Proof. vm_compute. split; [reflexivity|]. eexists; repeat split. Qed.

Theorem R1_datagram_reaches_target_refuted :
  ~ (forall evs sender target content o s0 a,
       let st := s_cstep R1_vmess (fst (s_crun R1_vmess [] evs)) (CLocal sender target content o s0) in
       In a (snd st) ->
       exists b, tlookup ckey_eqb (key_by (s_key R1_vmess) sender target) (fst st) = Some b /\
                 wire_dest R1_vmess (b_target b) target = Some target).
Proof.
  intros H.
  destruct (H [CLocal 1001 53 [1] true true] 1001 54 [2] true true (ToServer (1001, None) 54 [2])) as (b & Hb & Hw).
  - vm_compute. left; reflexivity.
  - vm_compute in Hb. injection Hb as <-. vm_compute in Hw. discriminate.
Qed.

(* R2 (seeded/C02-b): shadowsocks labels a reply with the target the binding was created for, though its bindings are
   keyed by the sender only.  Application 1001 sends to 53 and to 54 (one binding); the reply the server reports as
   coming from 54 reaches the application labelled 53. *)
Theorem R2_reply_mislabelled :
  let evs := [CLocal 1001 53 [1] true true; CLocal 1001 54 [2] true true] in
  snd (s_crun R2_shadowsocks [] evs) =
    [((1001, None), ToServer (1001, None) 53 [1]); ((1001, None), ToServer (1001, None) 54 [2])] /\
  snd (s_cstep R2_shadowsocks (fst (s_crun R2_shadowsocks [] evs)) (CReply (1001, None) [9] 54)) =
    [ToLocalApp (1001, None) 1001 53 [9]].
Proof. vm_compute. split; reflexivity. Qed.

Theorem R2_reply_labelled_with_replier_refuted :
  ~ (forall evs k content carried a,
       In a (snd (s_cstep R2_shadowsocks (fst (s_crun R2_shadowsocks [] evs)) (CReply k content carried))) ->
       exists label,
         a = ToLocalApp k (fst k) label content /\
         (label = carried \/
          (exists c, In (k, ToServer k label c) (snd (s_crun R2_shadowsocks [] evs))) /\
          forall k' target c, In (k', ToServer k target c) (snd (s_crun R2_shadowsocks [] evs)) -> target = label)).
Proof.
  intros H.
  destruct (H [CLocal 1001 53 [1] true true; CLocal 1001 54 [2] true true] (1001, None) [9] 54
              (ToLocalApp (1001, None) 1001 53 [9])) as (l & Ha & Hl).
  - vm_compute. left; reflexivity.
  - injection Ha as <-. destruct Hl as [Hl|[_ Hl]]; [discriminate|].
    specialize (Hl (1001, None) 54 [2]). assert (X : 54 = 53); [|discriminate].
    apply Hl. vm_compute. right; left; reflexivity.
Qed.

(* R3: an association key without the user: users 11 and 22, both with client session id 5, share an association *)
Theorem R3_users_share_an_association :
  assoc_parts_ok R3_parts = false /\
  associate_key_of R3_parts true 5 (Some 11) 700 = associate_key_of R3_parts true 5 (Some 22) 700.
Proof. split; reflexivity. Qed.

Print Assumptions datagram_reaches_addressed_target.
Print Assumptions reply_labelled_with_replier.
Print Assumptions assoc_key_separates_sessions_and_users.
Print Assumptions generated_adapters_match_model.
Print Assumptions R1_datagram_reaches_target_refuted.
Print Assumptions R2_reply_labelled_with_replier_refuted.
Print Assumptions R3_users_share_an_association.
