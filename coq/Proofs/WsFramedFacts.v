(* WebSocket transport = FramedRead contract with message boundaries in the role of segment boundaries.

   ws_run_is_framed_run : for every decoder that returns None on an empty buffer without changing its state
     (the real adapter never calls decode on an empty buffer, Framed.drain does), every initial state and every
     list of messages (empty payloads and control messages allowed): items, decoder state, leftover buffer and
     status of the WebSocketFramed run are those of Framed.run on the list of payloads.
   Hence every theorem stated against Framed.run (segmentation independence, no stall, prefix/forge-freeness)
   holds verbatim for the WebSocket transport.

   Further: the stored buffer is never `Some []`; after a failure nothing is yielded and nothing changes;
   if the decoder is None-stable (calling it again after a None, on what it left, changes nothing), then empty
   messages, pings and pongs are unobservable (run_skip_empty, ws_run_skip_noise).

   The side condition `dec s [] = Ok (s, [], None)` holds for every stream decoder of Model/*.v; shown at the
   end for the ones that run over WebSocketFramed (server side: Trojan ServerCodec, VMess ServerAeadCodec,
   Shadowsocks PayloadCodec; client side: Trojan udp ClientCodec, VMess ClientAEADCodec, Shadowsocks codec)
   and for the SOCKS5 handshake decoders used by the harness component `adapters`. *)
From Coq Require Import NArith List Lia.
From Octo Require Import Base.Bytes Crypto.Prims Lib.Framed Lib.WsFramed.
From Octo Require Import Model.Address Model.Trojan Model.Socks5 Model.SsTcp Model.Vmess.
Import ListNotations.

Lemma ws_held_store : forall b, ws_held (ws_store b) = b.
Proof. destruct b; reflexivity. Qed.

Lemma ws_store_app_cons : forall b x p, ws_store (b ++ x :: p) = Some (b ++ x :: p).
Proof. destruct b; reflexivity. Qed.

Section Facts.
  Variables St Item : Type.
  Variable dec : St -> bytes -> res (St * bytes * option Item).

  Notation drain := (Framed.drain St Item dec).
  Notation feed := (Framed.feed St Item dec).
  Notation frun := (Framed.run St Item dec).
  Notation wdrain := (ws_drain St Item dec).
  Notation wstep := (ws_step St Item dec).
  Notation wrun := (ws_run St Item dec).
  Notation wview := (ws_view St Item).
  Notation winit := (ws_init St).

  (* the buffer field holds None or a non-empty string *)
  Definition buf_ok (o : option bytes) : Prop := o <> Some [].

  Lemma buf_ok_store : forall b, buf_ok (ws_store b).
  Proof. destruct b; unfold buf_ok; cbn; congruence. Qed.

  Lemma buf_ok_canon : forall o, buf_ok o -> o = ws_store (ws_held o).
  Proof. intros [[|x t]|] H; cbn; try reflexivity. exfalso; apply H; reflexivity. Qed.

  Lemma ws_append_store : forall b m, ws_append (ws_store b) m = ws_store (b ++ ws_payload m).
  Proof.
    intros b [[|x p]|]; cbn [ws_append ws_payload].
    - rewrite app_nil_r. reflexivity.
    - rewrite ws_held_store, ws_store_app_cons. reflexivity.
    - rewrite app_nil_r. reflexivity.
  Qed.

  Lemma ws_append_ok : forall o m, buf_ok o -> buf_ok (ws_append o m).
  Proof.
    intros o m H. rewrite (buf_ok_canon o H), ws_append_store. apply buf_ok_store.
  Qed.

  Lemma ws_drain_buf_ok : forall f s o acc s' o' its fs,
    buf_ok o -> wdrain f s o acc = (s', o', its, fs) -> buf_ok o'.
  Proof.
    induction f as [|f IH]; intros s o acc s' o' its fs Ho H; cbn [ws_drain] in H.
    - injection H as <- <- <- <-. exact Ho.
    - destruct o as [b|]; [|injection H as <- <- <- <-; exact Ho].
      destruct (dec s b) as [[[s1 b1] [it|]]|e|] eqn:E.
      + eapply IH; [|exact H]. apply buf_ok_store.
      + injection H as <- <- <- <-. apply buf_ok_store.
      + injection H as <- <- <- <-. exact Ho.
      + injection H as <- <- <- <-. exact Ho.
  Qed.

  (* ---- invariants that need no hypothesis on the decoder ---- *)

  Lemma ws_step_buf_ok : forall st m st' its,
    buf_ok (ws_buf st) -> wstep st m = (st', its) -> buf_ok (ws_buf st').
  Proof.
    intros st m st' its Ho H. unfold ws_step in H.
    destruct (ws_stat st);
      try (injection H as <- <-; exact Ho).
    destruct (wdrain _ _ _ _) as [[[s1 b1] i1] f1] eqn:E.
    injection H as <- <-. cbn [ws_buf].
    eapply ws_drain_buf_ok; [|exact E]. apply ws_append_ok, Ho.
  Qed.

  (* `self.buffer` is never Some(empty) *)
  Theorem ws_buffer_nonempty : forall msgs st acc st' its,
    buf_ok (ws_buf st) -> wrun st msgs acc = (st', its) -> ws_buf st' <> Some [].
  Proof.
    induction msgs as [|m t IH]; intros st acc st' its Ho H; cbn [ws_run] in H.
    - injection H as <- <-. exact Ho.
    - destruct (wstep st m) as [st1 i1] eqn:E.
      eapply IH; [|exact H]. eapply ws_step_buf_ok; eassumption.
  Qed.

  (* after the first failure: Ready(None) for ever, the state does not move *)
  Theorem ws_failed_silent : forall msgs st acc,
    ws_stat st <> Waiting -> wrun st msgs acc = (st, acc).
  Proof.
    induction msgs as [|m t IH]; intros st acc Hf; cbn [ws_run]; [reflexivity|].
    unfold ws_step. destruct (ws_stat st) eqn:E; try congruence;
      rewrite app_nil_r; apply IH; rewrite E; congruence.
  Qed.

  Lemma ws_run_acc : forall msgs st acc,
    wrun st msgs acc = (fst (wrun st msgs []), acc ++ snd (wrun st msgs [])).
  Proof.
    induction msgs as [|m t IH]; intros st acc; cbn [ws_run].
    - cbn. rewrite app_nil_r. reflexivity.
    - destruct (wstep st m) as [st1 i1]. rewrite (IH st1 (acc ++ i1)), (IH st1 ([] ++ i1)).
      cbn [fst snd app]. rewrite app_assoc. reflexivity.
  Qed.

  (* ================= the transfer theorem ================= *)
  Section Transfer.
    (* decoders return None on an empty buffer and leave their state alone *)
    Hypothesis dec_empty : forall s, dec s [] = Ok (s, [], None).

    Lemma ws_drain_is_drain : forall f s b acc,
      (let '(s', o', its, fs) := wdrain f s (ws_store b) acc in (s', ws_held o', its, fs)) = drain f s b acc.
    Proof using dec_empty.
      induction f as [|f IH]; intros s b acc.
      - cbn. rewrite ws_held_store. reflexivity.
      - destruct b as [|x t].
        + cbn [ws_store ws_drain Framed.drain]. rewrite dec_empty. reflexivity.
        + cbn [ws_store ws_drain Framed.drain].
          destruct (dec s (x :: t)) as [[[s1 b1] [it|]]|e|] eqn:E.
          * apply IH.
          * rewrite ws_held_store. reflexivity.
          * reflexivity.
          * reflexivity.
    Qed.

    Lemma ws_step_is_feed : forall s b m,
      (let '(st', its) := wstep {| ws_dec := s; ws_buf := ws_store b; ws_stat := Waiting |} m in
       (ws_dec st', ws_held (ws_buf st'), its, ws_stat st')) = feed s b (ws_payload m).
    Proof using dec_empty.
      intros s b m. unfold ws_step, Framed.feed. cbn [ws_stat ws_buf ws_dec].
      rewrite ws_append_store, ws_held_store.
      pose proof (ws_drain_is_drain (2 + length (b ++ ws_payload m)) s (b ++ ws_payload m) []) as H.
      destruct (wdrain _ _ _ _) as [[[s1 o1] i1] f1]. cbn [ws_dec ws_buf ws_stat]. exact H.
    Qed.

    Lemma ws_run_general : forall msgs s b acc,
      wview (wrun {| ws_dec := s; ws_buf := ws_store b; ws_stat := Waiting |} msgs acc)
      = frun s b (map ws_payload msgs) acc.
    Proof using dec_empty.
      induction msgs as [|m t IH]; intros s b acc.
      - cbn. rewrite ws_held_store. reflexivity.
      - cbn [ws_run map Framed.run].
        pose proof (ws_step_is_feed s b m) as Hs.
        destruct (wstep _ m) as [st1 i1] eqn:E.
        rewrite <- Hs.
        assert (Hok : buf_ok (ws_buf st1)) by (eapply ws_step_buf_ok; [|exact E]; cbn [ws_buf]; apply buf_ok_store).
        destruct st1 as [s1 o1 f1]. cbn [ws_dec ws_buf ws_stat] in *.
        destruct f1.
        + rewrite (buf_ok_canon o1 Hok). rewrite ws_held_store. apply IH.
        + rewrite ws_failed_silent by (cbn; congruence). reflexivity.
        + rewrite ws_failed_silent by (cbn; congruence). reflexivity.
        + rewrite ws_failed_silent by (cbn; congruence). reflexivity.
    Qed.

    (* items, final decoder state, leftover buffer and status of the WebSocket run = those of Framed.run *)
    Theorem ws_run_is_framed_run : forall (s : St) (msgs : list wsmsg),
      wview (wrun (winit s) msgs []) = frun s [] (map ws_payload msgs) [].
    Proof using dec_empty.
      intros s msgs. exact (ws_run_general msgs s [] []).
    Qed.

    (* the same for a list of plain payloads (every message a binary message; empty payloads allowed) *)
    Corollary ws_run_binary_is_framed_run : forall (s : St) (segs : list bytes),
      wview (wrun (winit s) (map WsData segs) []) = frun s [] segs [].
    Proof using dec_empty.
      intros s segs. rewrite ws_run_is_framed_run, map_map. cbn [ws_payload]. rewrite map_id. reflexivity.
    Qed.

    (* per message (no stall): what is yielded between the arrival of message m and the next poll of the
       stream is exactly what Framed.feed yields for that segment *)
    Corollary ws_step_items_are_feed_items : forall s b m,
      snd (wstep {| ws_dec := s; ws_buf := ws_store b; ws_stat := Waiting |} m)
      = snd (fst (feed s b (ws_payload m))).
    Proof using dec_empty.
      intros s b m. rewrite <- ws_step_is_feed. destruct (wstep _ m) as [st' its]. reflexivity.
    Qed.
  End Transfer.

  (* ================= noise: empty messages, pings, pongs ================= *)
  Section Noise.
    (* a decoder that said None says None again on what it left, without moving *)
    Hypothesis dec_none_stable : forall s b s' b', dec s b = Ok (s', b', None) -> dec s' b' = Ok (s', b', None).

    Definition quiescent (s : St) (b : bytes) : Prop := dec s b = Ok (s, b, None).

    Lemma drain_waiting_quiescent : forall f s b acc s' b' its,
      drain f s b acc = (s', b', its, Waiting) -> quiescent s' b'.
    Proof using dec_none_stable.
      induction f as [|f IH]; intros s b acc s' b' its H; cbn [Framed.drain] in H; [discriminate|].
      destruct (dec s b) as [[[s1 b1] [it|]]|e|] eqn:E; try discriminate.
      - eapply IH; exact H.
      - injection H as <- <- <-. unfold quiescent. eapply dec_none_stable; exact E.
    Qed.

    Lemma feed_nil_quiescent : forall s b, quiescent s b -> feed s b [] = (s, b, [], Waiting).
    Proof using Type.
      intros s b H. unfold Framed.feed. rewrite app_nil_r. cbn [plus Framed.drain]. rewrite H. reflexivity.
    Qed.

    Definition nonempty (seg : bytes) : bool := match seg with [] => false | _ => true end.

    (* empty segments are unobservable from a quiescent point *)
    Theorem run_skip_empty : forall segs s b acc,
      quiescent s b -> frun s b segs acc = frun s b (filter nonempty segs) acc.
    Proof using dec_none_stable.
      induction segs as [|seg t IH]; intros s b acc Hq; [reflexivity|].
      destruct seg as [|x p]; cbn [filter nonempty].
      - cbn [Framed.run]. rewrite (feed_nil_quiescent s b Hq). rewrite app_nil_r. apply IH, Hq.
      - cbn [Framed.run]. destruct (feed s b (x :: p)) as [[[s1 b1] i1] f1] eqn:E.
        destruct f1; try reflexivity.
        apply IH. unfold Framed.feed in E. eapply drain_waiting_quiescent; exact E.
    Qed.

    Definition noise (m : wsmsg) : bool := match m with WsData (_ :: _) => false | _ => true end.

    Lemma filter_payload_noise : forall msgs,
      filter nonempty (map ws_payload msgs) = map ws_payload (filter (fun m => negb (noise m)) msgs).
    Proof using Type.
      induction msgs as [|m t IH]; [reflexivity|].
      destruct m as [[|x p]|]; cbn; [exact IH|rewrite IH; reflexivity|exact IH].
    Qed.

    (* empty data messages, pings and pongs are unobservable on the WebSocket transport *)
    Theorem ws_run_skip_noise : forall (s : St) (msgs : list wsmsg),
      (forall s, dec s [] = Ok (s, [], None)) ->
      wview (wrun (winit s) msgs []) = wview (wrun (winit s) (filter (fun m => negb (noise m)) msgs) []).
    Proof using dec_none_stable.
      intros s msgs He. rewrite !(ws_run_is_framed_run He).
      rewrite run_skip_empty by (apply He). rewrite filter_payload_noise. reflexivity.
    Qed.
  End Noise.
End Facts.

(* ================= which decoders satisfy the side condition ================= *)
(* stateless decoders  src -> res (rest * option item)  as Framed decoders with unit state (as ocaml/modelrun.ml wraps them) *)
Definition stateless {Item} (f : bytes -> res (bytes * option Item)) : unit -> bytes -> res (unit * bytes * option Item) :=
  fun _ src => match f src with Ok (r, it) => Ok (tt, r, it) | Err e => Err e | Panic => Panic end.

Lemma trojan_server_decode_empty : forall key st, trojan_server_decode key st [] = Ok (st, [], None).
Proof. reflexivity. Qed.

Lemma trojan_client_udp_decode_empty : forall s, stateless trojan_client_udp_decode s [] = Ok (s, [], None).
Proof. intros []. reflexivity. Qed.

Lemma s5_initial_request_empty : forall s, stateless s5_initial_request s [] = Ok (s, [], None).
Proof. intros []. reflexivity. Qed.
Lemma s5_command_request_empty : forall s, stateless s5_command_request s [] = Ok (s, [], None).
Proof. intros []. reflexivity. Qed.
Lemma s5_initial_response_empty : forall s, stateless s5_initial_response s [] = Ok (s, [], None).
Proof. intros []. reflexivity. Qed.
Lemma s5_command_response_empty : forall s, stateless s5_command_response s [] = Ok (s, [], None).
Proof. intros []. reflexivity. Qed.

Lemma server_vdecode_empty : forall P now keys st, server_vdecode P now keys st [] = Ok (st, [], None).
Proof. intros P now keys [|h s b]; reflexivity. Qed.

Lemma client_vdecode_empty : forall P h s d, client_vdecode P h s d [] = Ok (d, [], None).
Proof. reflexivity. Qed.

Lemma ss_decode_empty : forall P cx now cache s cd, ss_decode P cx now cache s cd [] = (cache, Ok (s, cd, [], None)).
Proof. reflexivity. Qed.

Lemma server_decode_empty : forall P cx now cache s cd in_body,
  server_decode P cx now cache s cd in_body [] = (cache, Ok (s, cd, in_body, [], None)).
Proof. intros P cx now cache s cd [|]; reflexivity. Qed.

(* the transfer theorem instantiated: Trojan server codec and VMess server codec over WebSocket *)
Theorem trojan_ws_is_framed : forall key st msgs,
  ws_view _ _ (ws_run _ _ (trojan_server_decode key) (ws_init _ st) msgs [])
  = Framed.run _ _ (trojan_server_decode key) st [] (map ws_payload msgs) [].
Proof. intros. apply ws_run_is_framed_run. intros s. apply trojan_server_decode_empty. Qed.

Theorem vmess_ws_is_framed : forall P now keys st msgs,
  ws_view _ _ (ws_run _ _ (server_vdecode P now keys) (ws_init _ st) msgs [])
  = Framed.run _ _ (server_vdecode P now keys) st [] (map ws_payload msgs) [].
Proof. intros. apply ws_run_is_framed_run. intros s. apply server_vdecode_empty. Qed.

(* Shadowsocks server PayloadCodec as a Framed decoder: state = (salt cache, session, cipher codec, Header/Body) *)
Definition ss_server_dec (P : prims) (cx : ctx) (now : N) (st : list bytes * session * codec * bool) (src : bytes)
  : res (list bytes * session * codec * bool * bytes * option inbound) :=
  let '(cache, s, cd, ib) := st in
  match server_decode P cx now cache s cd ib src with
  | (cache', Ok (s', cd', ib', r, it)) => Ok (cache', s', cd', ib', r, it)
  | (_, Err e) => Err e
  | (_, Panic) => Panic
  end.

Theorem ss_ws_is_framed : forall P cx now st msgs,
  ws_view _ _ (ws_run _ _ (ss_server_dec P cx now) (ws_init _ st) msgs [])
  = Framed.run _ _ (ss_server_dec P cx now) st [] (map ws_payload msgs) [].
Proof.
  intros. apply ws_run_is_framed_run. intros [[[cache s] cd] ib].
  unfold ss_server_dec. rewrite server_decode_empty. reflexivity.
Qed.

Print Assumptions ws_buffer_nonempty.
Print Assumptions ws_failed_silent.
Print Assumptions ws_run_is_framed_run.
Print Assumptions ws_run_binary_is_framed_run.
Print Assumptions ws_step_items_are_feed_items.
Print Assumptions run_skip_empty.
Print Assumptions ws_run_skip_noise.
Print Assumptions server_vdecode_empty.
Print Assumptions server_decode_empty.
Print Assumptions trojan_ws_is_framed.
Print Assumptions vmess_ws_is_framed.
Print Assumptions ss_ws_is_framed.
