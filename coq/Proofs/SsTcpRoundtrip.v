(* End-to-end byte transparency of the Shadowsocks TCP codec (Model/SsTcp.v) at codec level:
   "TCP relay is byte-transparent" and "wire format round-trips".

   Everything is proved for an arbitrary record of primitives P satisfying Crypto.Prims.prim_laws plus the
   two length facts  |b3derive _ _| = 32  and  |hkdf_sha1 _ _ _ n| = n  (explicit premises of the Section).

   Intended statements and what is proved (nothing is `_partial`; every proof is closed with Qed):

   1. request_roundtrip_legacy       legacy kind, client's first write `item` (possibly empty) with target
                                     address a (addr_wf, representable): ss_encode succeeds with wire w, and a
                                     fresh server decoding w in ONE call gets exactly (a, Some item), consumes
                                     everything, cache unchanged, decoder in lockstep with the encoder
                                     (cd_dec cds' = Some (a_enc, DLen) where cd_enc cd1 = Some a_enc).
   2. request_roundtrip_2022         the same for the 2022 kinds (no users, no identity keys), padding <= 900,
                                     now < 2^64, clock skew <= 30, fresh salt, when the header message
                                     s5_encode a ++ put_u16 |pad| ++ pad ++ item fits in 65535 bytes; the call
                                     returns (salt :: cache, ...), s_req_salt = Some salt;
      request_roundtrip_2022_first   the general first call (ANY item length): the call returns the part of the
                                     item that fits in the header, takeN (65535 - (|addr| + 2 + |pad|)) item,
                                     and leaves exactly the chunk stream of the rest in the buffer;
      request_roundtrip_2022_general one FramedRead poll (Framed.feed over fdec = ss_decode with the cache
                                     threaded in the state) over the whole wire, ANY item length: items whose
                                     concatenation is item, nothing left, Waiting, lockstep.
   3. second_write_roundtrip         any later write decodes to exactly itself (None when empty), lockstep again.
   4. response_roundtrip_2022        server -> client, item <= 65535 bytes: one call; the echo check passes;
      response_roundtrip_2022_general  any length through Framed.feed;
      response_wrong_echo_refused    a client whose own salt differs from the echoed request salt gets
                                     Err EBadAuth (cache untouched)  -- the repaired defect, kept as a theorem.
   5. legacy_server_segmentation_independent
                                     the wire of a valid legacy request (first write + ANY list of further
                                     writes, ss_encode_all) cut into ANY list of segments and fed through
                                     Framed.run over ss_decode (salt unit, chunk units, pending-address
                                     extraction): Waiting (no error / livelock / panic), nothing left, address a,
                                     items concatenate to item ++ concat more, decoder in lockstep with the
                                     encoder, and a further poll yields nothing (no stall).
      legacy_segmentation_generic    the same for salt ++ body where body is ANY byte string on which the chunk
                                     unit machine (SsChunkCanon.crun) stops with plaintext s5_encode a ++ payload.
   Non-vacuity: Module ToyPrims gives a `prims` record (tag-checking toy AEAD), proves prim_laws and the two
   length facts for it, instantiates the theorems, and evaluates concrete legacy / 2022 requests, a second
   write, a response, a wrong echo, a replay, a stale timestamp and a 6-way segmentation by vm_compute.

   Premise of the task statement that turned out to be unnecessary and was dropped (the theorems are
   therefore slightly stronger): `lenN key = kind_n k`.
   Not covered here: segmentation independence of the 2022 decoder across several polls (only the single-poll
   Framed.feed form is proved for 2022), identity headers (c_ikeys <> [] / non-empty user table).       *)
From Coq Require Import List NArith ZArith Lia Bool Arith ZifyBool ZifyN ZifyNat.
From Octo Require Import Base.Bytes Crypto.Prims Model.NonceGen Model.SsChunk Model.Address Model.SsTcp
  Lib.Framed Lib.Canon Proofs.AddressFacts Proofs.SsChunkRoundtrip Proofs.SsChunkCanon.
Import ListNotations.
Open Scope N_scope.

(* ---------------------------------------------------------------------------------------------- *)
(* P-independent helpers                                                                            *)
(* ---------------------------------------------------------------------------------------------- *)
Lemma lenN_0_nil (l : bytes) : lenN l = 0 -> l = [].
Proof. destruct l as [|x t]; [reflexivity|]. rewrite lenN_cons. lia. Qed.

Lemma takeN_app_len (x y : bytes) m : lenN x = m -> takeN m (x ++ y) = x.
Proof. intros <-. apply takeN_app_exact. Qed.
Lemma dropN_app_len (x y : bytes) m : lenN x = m -> dropN m (x ++ y) = y.
Proof. intros <-. apply dropN_app_exact. Qed.
Lemma takeN_all (l : bytes) m : lenN l <= m -> takeN m l = l.
Proof. intros H. unfold takeN. apply firstn_all2. rewrite lenN_spec in H. lia. Qed.
Lemma dropN_all (l : bytes) m : lenN l <= m -> dropN m l = [].
Proof. intros H. unfold dropN. apply skipn_all2. rewrite lenN_spec in H. lia. Qed.

Lemma key_size_kind k : cipher_key_size (kind_cipher k) = kind_n k.
Proof. destruct k; reflexivity. Qed.
Lemma kind_n_cases k : kind_n k = 16 \/ kind_n k = 32.
Proof. destruct k; cbn [kind_n]; auto. Qed.
Lemma support_eih_legacy k : is_2022 k = false -> support_eih k = false.
Proof. destruct k; cbn [is_2022 support_eih]; congruence. Qed.

Lemma bytes_eqb_refl a : bytes_eqb a a = true.
Proof. unfold bytes_eqb. destruct (list_eq_dec N.eq_dec a a); [reflexivity|congruence]. Qed.
Lemma bytes_eqb_neq a b : a <> b -> bytes_eqb a b = false.
Proof. intros H. unfold bytes_eqb. destruct (list_eq_dec N.eq_dec a b); [contradiction|reflexivity]. Qed.

Lemma s5_len_bound a : addr_wf a -> representable a -> 1 <= lenN (s5_encode a) <= 259.
Proof. intros Hw Hr. rewrite s5_length_ok. destruct a; cbn [addr_wf representable] in *; lia. Qed.

(* the address-length probe looks at no more than the bytes it has: on a prefix it either does not decide
   or answers what it answers on the whole *)
Lemma s5_try_prefix src ext at_ :
  s5_try_decode_at src at_ = Ok None \/ s5_try_decode_at src at_ = s5_try_decode_at (src ++ ext) at_.
Proof.
  unfold s5_try_decode_at.
  destruct (nth_error src (N.to_nat at_)) as [t|] eqn:E0; [|left; reflexivity].
  assert (E0' : nth_error (src ++ ext) (N.to_nat at_) = Some t).
  { rewrite nth_error_app1; [exact E0|]. apply nth_error_Some. congruence. }
  rewrite E0'. destruct (t =? 1); [right; reflexivity|]. destruct (t =? 3); [|right; reflexivity].
  destruct (nth_error src (N.to_nat (at_ + 1))) as [l|] eqn:E1; [|left; reflexivity].
  assert (E1' : nth_error (src ++ ext) (N.to_nat (at_ + 1)) = Some l).
  { rewrite nth_error_app1; [exact E1|]. apply nth_error_Some. congruence. }
  rewrite E1'. right. reflexivity.
Qed.

(* FramedRead contract model: one poll that needs at most three decoder calls *)
Lemma drain_some St Item dec f (s : St) buf acc s' buf' (it : Item) :
  dec s buf = Ok (s', buf', Some it) ->
  Framed.drain St Item dec (S f) s buf acc = Framed.drain St Item dec f s' buf' (acc ++ [it]).
Proof. intros H. cbn [Framed.drain]. rewrite H. reflexivity. Qed.
Lemma drain_none St Item dec f (s : St) buf (acc : list Item) s' buf' :
  dec s buf = Ok (s', buf', None) ->
  Framed.drain St Item dec (S f) s buf acc = (s', buf', acc, Waiting).
Proof. intros H. cbn [Framed.drain]. rewrite H. reflexivity. Qed.

Lemma feed_head_then_stream St Item dec (s0 s1 s2 : St) b out (it1 : Item) it2 :
  b <> [] ->
  dec s0 b = Ok (s1, out, Some it1) ->
  dec s1 out = Ok (s2, [], it2) ->
  dec s2 [] = Ok (s2, [], None) ->
  Framed.feed St Item dec s0 [] b = (s2, [], it1 :: match it2 with Some i => [i] | None => [] end, Waiting).
Proof.
  intros Hne H1 H2 H3. unfold Framed.feed. cbn [app]. destruct b as [|x t]; [congruence|].
  cbn [length Nat.add]. rewrite (drain_some _ _ _ _ _ _ _ _ _ _ H1). cbn [app].
  destruct it2 as [i|].
  - rewrite (drain_some _ _ _ _ _ _ _ _ _ _ H2). cbn [app]. rewrite (drain_none _ _ _ _ _ _ _ _ _ H3). reflexivity.
  - rewrite (drain_none _ _ _ _ _ _ _ _ _ H2). reflexivity.
Qed.

Lemma feed_none St Item dec (s : St) buf seg s' r :
  dec s (buf ++ seg) = Ok (s', r, None) -> Framed.feed St Item dec s buf seg = (s', r, [], Waiting).
Proof. intros H. unfold Framed.feed. cbn [Nat.add]. apply drain_none. exact H. Qed.
Lemma feed_some_none St Item dec (s : St) buf seg s' r (it : Item) s'' r' :
  dec s (buf ++ seg) = Ok (s', r, Some it) -> dec s' r = Ok (s'', r', None) ->
  Framed.feed St Item dec s buf seg = (s'', r', [it], Waiting).
Proof.
  intros H1 H2. unfold Framed.feed. cbn [Nat.add]. rewrite (drain_some _ _ _ _ _ _ _ _ _ _ H1). cbn [app].
  apply drain_none. exact H2.
Qed.

Lemma takeN_app_le n (p t : bytes) : n <= lenN p -> takeN n (p ++ t) = takeN n p.
Proof.
  intros H. unfold takeN. rewrite firstn_app. rewrite lenN_spec in H.
  replace (N.to_nat n - length p)%nat with 0%nat by lia. cbn [firstn]. apply app_nil_r.
Qed.
(* a prefix p of x ++ y that is at least as long as x starts with x *)
Lemma prefix_split (p x y t : bytes) : x ++ y = p ++ t -> lenN x <= lenN p -> p = x ++ dropN (lenN x) p.
Proof.
  intros E Hl. rewrite <- (take_drop (lenN x) p) at 1. f_equal.
  rewrite <- (takeN_app_le (lenN x) p t Hl). rewrite <- E. apply takeN_app_exact.
Qed.

Section SsTcpRoundtrip.
  Variable P : prims.
  Hypothesis HL : prim_laws P.
  Hypothesis Hb3 : forall c m, lenN (p_b3derive P c m) = 32.
  Hypothesis Hhk : forall i s info n, lenN (p_hkdf_sha1 P i s info n) = n.

  Lemma HOL : open_len_ok P.
  Proof. exact (open_len P HL). Qed.

  (* ------------------------------------------------------------------------------------------ *)
  (* authenticators                                                                               *)
  (* ------------------------------------------------------------------------------------------ *)
  Lemma auth_new_ok c key : cipher_key_size c <= lenN key ->
    auth_new c key = Ok {| au_cipher := c; au_key := takeN (cipher_key_size c) key; au_nonce := inc_init |}.
  Proof. intros H. unfold auth_new. destruct (N.ltb_spec (lenN key) (cipher_key_size c)); [lia|reflexivity]. Qed.

  Lemma new_auth_legacy_ok k key salt : lenN salt = kind_n k -> exists a0, new_auth_legacy P k key salt = Ok a0.
  Proof.
    intros Hs. unfold new_auth_legacy. eexists. apply auth_new_ok. rewrite Hhk, key_size_kind. lia.
  Qed.
  Lemma new_auth_2022_ok k key salt : exists a0, new_auth_2022 P k key salt = Ok a0.
  Proof.
    unfold new_auth_2022, session_sub_key. eexists. apply auth_new_ok. rewrite Hb3, key_size_kind.
    destruct (kind_n_cases k) as [-> | ->]; lia.
  Qed.

  Definition sealed (a : auth) (pt : bytes) : bytes := fst (auth_seal P a pt).
  Lemma auth_seal_eq a pt : auth_seal P a pt = (sealed a pt, auth_step a).
  Proof. reflexivity. Qed.
  Lemma open_sealed a pt : auth_open P a (sealed a pt) = (Some pt, auth_step a).
  Proof. unfold sealed, auth_open, auth_seal. cbn [fst]. rewrite (open_seal P HL). reflexivity. Qed.
  Lemma lenN_sealed a pt : lenN (sealed a pt) = lenN pt + 16.
  Proof. unfold sealed, auth_seal. cbn [fst]. rewrite (seal_len P HL). reflexivity. Qed.

  Lemma encode_payload_nil a pl : encode_payload P a pl [] = ([], a).
  Proof. reflexivity. Qed.
  Lemma encode_payload_nonempty a pl x t : fst (encode_payload P a pl (x :: t)) <> [].
  Proof.
    unfold encode_payload. cbn [length]. rewrite enc_chunks_cons. cbn [fst].
    intros E. apply (f_equal lenN) in E. rewrite lenN_app, (seal_len P HL), lenN_nil in E. unfold TAG in E. lia.
  Qed.

  (* decode_payload of a chunk stream written by encode_payload, as one equation *)
  Lemma decode_encode_payload a pl src : pl = 16383 \/ pl = 65535 ->
    decode_payload P a DLen (fst (encode_payload P a pl src)) = Ok (snd (encode_payload P a pl src), DLen, [], src).
  Proof.
    intros Hpl. pose proof (encode_decode_payload P HL a pl src Hpl) as H.
    destruct (encode_payload P a pl src) as [w a']. exact H.
  Qed.

  (* ------------------------------------------------------------------------------------------ *)
  (* unfolding ss_decode                                                                          *)
  (* ------------------------------------------------------------------------------------------ *)
  Lemma ss_decode_nil cx now cache s cd : ss_decode P cx now cache s cd [] = (cache, Ok (s, cd, [], None)).
  Proof. reflexivity. Qed.

  Lemma ss_decode_some cx now cache s cd a st src : src <> [] -> cd_dec cd = Some (a, st) ->
    ss_decode P cx now cache s cd src = (cache, decode_body P s cd a st src).
  Proof. intros Hne Hd. destruct src as [|x t]; [congruence|]. unfold ss_decode. rewrite Hd. reflexivity. Qed.

  Lemma ss_decode_short cx now cache s cd src : cd_dec cd = None -> lenN src < kind_n (c_kind cx) ->
    ss_decode P cx now cache s cd src = (cache, Ok (s, cd, src, None)).
  Proof.
    intros Hd Hs. destruct src as [|x t]; [reflexivity|]. unfold ss_decode. rewrite Hd.
    destruct (N.ltb_spec (lenN (x :: t)) (kind_n (c_kind cx))); [reflexivity|lia].
  Qed.

  Lemma ss_decode_init_2022 cx now cache s cd src : cd_dec cd = None -> kind_n (c_kind cx) <= lenN src ->
    is_2022 (c_kind cx) = true -> ss_decode P cx now cache s cd src = init_2022 P cx now cache s cd src.
  Proof.
    intros Hd Hs Hk. destruct src as [|x t].
    { rewrite lenN_nil in Hs. destruct (kind_n_cases (c_kind cx)); lia. }
    unfold ss_decode. rewrite Hd, Hk.
    destruct (N.ltb_spec (lenN (x :: t)) (kind_n (c_kind cx))); [lia|reflexivity].
  Qed.

  Lemma ss_decode_init_legacy cx now cache s cd src : cd_dec cd = None -> kind_n (c_kind cx) <= lenN src ->
    is_2022 (c_kind cx) = false ->
    ss_decode P cx now cache s cd src =
      (cache,
       let* a := new_auth_legacy P (c_kind cx) (c_key cx) (takeN (kind_n (c_kind cx)) src) in
       let src' := dropN (kind_n (c_kind cx)) src in
       let cd' := {| cd_enc := cd_enc cd; cd_dec := Some (a, DLen); cd_pending := cd_pending cd |} in
       match src' with [] => Ok (s, cd', src', None) | _ => decode_body P s cd' a DLen src' end).
  Proof.
    intros Hd Hs Hk. destruct src as [|x t].
    { rewrite lenN_nil in Hs. destruct (kind_n_cases (c_kind cx)); lia. }
    unfold ss_decode. rewrite Hd, Hk.
    destruct (N.ltb_spec (lenN (x :: t)) (kind_n (c_kind cx))); [lia|reflexivity].
  Qed.

  (* decode_body once decode_payload's result is known *)
  Lemma decode_body_srv_none s cd a st src a' st' src' dst :
    s_mode s = Server -> s_addr s = None -> decode_payload P a st src = Ok (a', st', src', dst) ->
    decode_body P s cd a st src =
      (let pend := cd_pending cd ++ dst in
       let* need := s5_try_decode_at pend 0 in
       match need with
       | Some n =>
         if n <=? lenN pend then
           let* (ad, rest) := s5_decode pend in
           Ok (set_addr s (Some ad), {| cd_enc := cd_enc cd; cd_dec := Some (a', st'); cd_pending := [] |}, src', Some rest)
         else Ok (s, {| cd_enc := cd_enc cd; cd_dec := Some (a', st'); cd_pending := pend |}, src', None)
       | None => Ok (s, {| cd_enc := cd_enc cd; cd_dec := Some (a', st'); cd_pending := pend |}, src', None)
       end).
  Proof. intros Hm Ha Hd. unfold decode_body. rewrite Hd. cbn [bind]. rewrite Hm, Ha. reflexivity. Qed.

  Lemma decode_body_known s cd a st src a' st' src' dst ad :
    s_addr s = Some ad -> decode_payload P a st src = Ok (a', st', src', dst) ->
    decode_body P s cd a st src =
      Ok (s, {| cd_enc := cd_enc cd; cd_dec := Some (a', st'); cd_pending := cd_pending cd |}, src', item_of dst).
  Proof.
    intros Ha Hd. unfold decode_body. rewrite Hd. cbn [bind]. rewrite Ha.
    destruct (s_mode s); reflexivity.
  Qed.
  Lemma decode_body_client s cd a st src a' st' src' dst :
    s_mode s = Client -> decode_payload P a st src = Ok (a', st', src', dst) ->
    decode_body P s cd a st src =
      Ok (s, {| cd_enc := cd_enc cd; cd_dec := Some (a', st'); cd_pending := cd_pending cd |}, src', item_of dst).
  Proof. intros Hm Hd. unfold decode_body. rewrite Hd. cbn [bind]. rewrite Hm. reflexivity. Qed.

  (* the pending-address step on a plaintext that starts with a complete address *)
  Lemma addr_step_complete a rest (X Y : res dres) (f : addr -> bytes -> res dres) : addr_wf a -> representable a ->
    (let pend := s5_encode a ++ rest in
     let* need := s5_try_decode_at pend 0 in
     match need with
     | Some n => if n <=? lenN pend then let* (ad, r) := s5_decode pend in f ad r else X
     | None => Y
     end) = f a rest.
  Proof.
    intros Hw Hr. cbn zeta.
    pose proof (s5_try_decode_at_ok [] a rest Hw Hr) as Ht. cbn [app] in Ht. rewrite lenN_nil in Ht.
    rewrite Ht. cbn [bind]. rewrite lenN_app.
    destruct (N.leb_spec (lenN (s5_encode a)) (lenN (s5_encode a) + lenN rest)); [|lia].
    rewrite (s5_roundtrip a rest Hw Hr). reflexivity.
  Qed.

  (* ------------------------------------------------------------------------------------------ *)
  (* 3. later writes                                                                              *)
  (* ------------------------------------------------------------------------------------------ *)
  Definition plimit (k : kind) : N := if is_2022 k then A2022_PAYLOAD_LIMIT else LEGACY_PAYLOAD_LIMIT.
  Lemma plimit_ok k : plimit k = 16383 \/ plimit k = 65535.
  Proof. unfold plimit. destruct (is_2022 k); [right|left]; reflexivity. Qed.

  Lemma ss_encode_established cx now pad s cd a_e item : cd_enc cd = Some a_e ->
    ss_encode P cx now pad s cd item =
      Ok ({| cd_enc := Some (snd (encode_payload P a_e (plimit (c_kind cx)) item)); cd_dec := cd_dec cd;
             cd_pending := cd_pending cd |}, fst (encode_payload P a_e (plimit (c_kind cx)) item)).
  Proof.
    intros He. unfold ss_encode, plimit. rewrite He.
    destruct (encode_payload P a_e _ item) as [out a']. reflexivity.
  Qed.

  (* a chunk stream written from the authenticator state the decoder is in, address already known
     (or client side): decoded to exactly the written bytes *)
  Lemma ss_decode_stream cx now cache s cd a_e pl src :
    cd_dec cd = Some (a_e, DLen) -> (s_mode s = Client \/ exists ad, s_addr s = Some ad) ->
    pl = 16383 \/ pl = 65535 ->
    exists cd', ss_decode P cx now cache s cd (fst (encode_payload P a_e pl src)) = (cache, Ok (s, cd', [], item_of src)) /\
                cd_dec cd' = Some (snd (encode_payload P a_e pl src), DLen) /\
                cd_enc cd' = cd_enc cd /\ cd_pending cd' = cd_pending cd.
  Proof.
    intros Hd Hs Hpl. destruct src as [|x t].
    - rewrite encode_payload_nil. cbn [fst snd]. exists cd. rewrite ss_decode_nil. auto.
    - pose proof (encode_payload_nonempty a_e pl x t) as Hne.
      pose proof (decode_encode_payload a_e pl (x :: t) Hpl) as Hdp.
      eexists. split.
      + rewrite (ss_decode_some _ _ _ _ _ _ _ _ Hne Hd).
        destruct Hs as [Hm | [ad Ha]].
        * rewrite (decode_body_client _ _ _ _ _ _ _ _ _ Hm Hdp). reflexivity.
        * rewrite (decode_body_known _ _ _ _ _ _ _ _ _ _ Ha Hdp). reflexivity.
      + cbn [cd_dec cd_enc cd_pending]. auto.
  Qed.

  (* 3. second_write_roundtrip: after the first exchange (encoder and decoder in lockstep: the server's
     decoder is in the authenticator state a_e of the client's encoder, expecting a length chunk; the
     address is known), any further write is decoded to exactly itself (None for the empty write),
     everything is consumed, the cache is untouched, and the two sides are in lockstep again.
     No premise on kinds, keys, clocks or padding is needed. *)
  Theorem second_write_roundtrip : forall cx cxs now now' pad cache cs ss cd cds a_e ad item2,
    cd_enc cd = Some a_e -> cd_dec cds = Some (a_e, DLen) -> s_addr ss = Some ad ->
    exists cd' wire2 a_e' cds',
      ss_encode P cx now pad cs cd item2 = Ok (cd', wire2) /\
      cd_enc cd' = Some a_e' /\ cd_dec cd' = cd_dec cd /\ cd_pending cd' = cd_pending cd /\
      ss_decode P cxs now' cache ss cds wire2 =
        (cache, Ok (ss, cds', [], match item2 with [] => None | _ => Some item2 end)) /\
      cd_dec cds' = Some (a_e', DLen) /\ cd_enc cds' = cd_enc cds /\ cd_pending cds' = cd_pending cds.
  Proof.
    intros cx cxs now now' pad cache cs ss cd cds a_e ad item2 He Hd Ha.
    destruct (ss_decode_stream cxs now' cache ss cds a_e (plimit (c_kind cx)) item2 Hd
                (or_intror (ex_intro _ ad Ha)) (plimit_ok _)) as (cds' & H1 & H2 & H3 & H4).
    eexists _, _, _, cds'. split; [apply (ss_encode_established _ _ _ _ _ _ _ He)|].
    cbn [cd_enc cd_dec cd_pending]. repeat split; try reflexivity; assumption.
  Qed.

  (* ------------------------------------------------------------------------------------------ *)
  (* 1. legacy request                                                                            *)
  (* ------------------------------------------------------------------------------------------ *)
  (* the legacy init arm of ss_decode on salt ++ body *)
  Lemma ss_decode_legacy_salt cx now cache s cd salt a0 body :
    is_2022 (c_kind cx) = false -> lenN salt = kind_n (c_kind cx) -> cd_dec cd = None ->
    new_auth_legacy P (c_kind cx) (c_key cx) salt = Ok a0 ->
    ss_decode P cx now cache s cd (salt ++ body) =
      (cache, let cd' := {| cd_enc := cd_enc cd; cd_dec := Some (a0, DLen); cd_pending := cd_pending cd |} in
              match body with [] => Ok (s, cd', [], None) | _ => decode_body P s cd' a0 DLen body end).
  Proof.
    intros Hk Hs Hd Ha. rewrite ss_decode_init_legacy; [|exact Hd|rewrite lenN_app; lia|exact Hk].
    rewrite <- Hs. rewrite takeN_app_exact, dropN_app_exact. rewrite Ha. destruct body; reflexivity.
  Qed.

  Lemma ss_encode_legacy_first k key ik cu now pad salt rs us a item a0 :
    is_2022 k = false -> new_auth_legacy P k key salt = Ok a0 ->
    ss_encode P {| c_kind := k; c_key := key; c_ikeys := ik; c_users := cu |} now pad
              {| s_mode := Client; s_salt := salt; s_req_salt := rs; s_user := us; s_addr := Some a |} codec_new item =
    Ok ({| cd_enc := Some (snd (encode_payload P a0 LEGACY_PAYLOAD_LIMIT (s5_encode a ++ item))); cd_dec := None; cd_pending := [] |},
        salt ++ fst (encode_payload P a0 LEGACY_PAYLOAD_LIMIT (s5_encode a ++ item))).
  Proof.
    intros Hk Ha. unfold ss_encode.
    cbn [cd_enc cd_dec cd_pending codec_new c_kind c_key c_ikeys s_mode s_salt s_addr s_user s_req_salt].
    rewrite Hk, (support_eih_legacy k Hk), Ha. cbn [bind app].
    destruct (encode_payload P a0 LEGACY_PAYLOAD_LIMIT (s5_encode a ++ item)) as [out a2].
    cbn [fst snd]. rewrite app_nil_r. reflexivity.
  Qed.

  (* 1. request_roundtrip_legacy.  (The premise lenN key = kind_n k of the intended statement is not needed.) *)
  Theorem request_roundtrip_legacy : forall k key salt a item now now' cache ssalt sreq suser cu,
    is_2022 k = false -> lenN salt = kind_n k -> addr_wf a -> representable a ->
    let cx := {| c_kind := k; c_key := key; c_ikeys := []; c_users := None |} in
    let cs := {| s_mode := Client; s_salt := salt; s_req_salt := None; s_user := None; s_addr := Some a |} in
    let cxs := {| c_kind := k; c_key := key; c_ikeys := []; c_users := cu |} in
    let ss := {| s_mode := Server; s_salt := ssalt; s_req_salt := sreq; s_user := suser; s_addr := None |} in
    exists cd1 wire a_enc ss' cds',
      ss_encode P cx now [] cs codec_new item = Ok (cd1, wire) /\
      cd_enc cd1 = Some a_enc /\
      ss_decode P cxs now' cache ss codec_new wire = (cache, Ok (ss', cds', [], Some item)) /\
      ss' = set_addr ss (Some a) /\ s_addr ss' = Some a /\
      cd_dec cds' = Some (a_enc, DLen) /\ cd_pending cds' = [] /\ cd_enc cds' = None.
  Proof.
    intros k key salt a item now now' cache ssalt sreq suser cu Hk Hs Hw Hr cx cs cxs ss.
    destruct (new_auth_legacy_ok k key salt Hs) as [a0 Ha0].
    pose proof (ss_encode_legacy_first k key [] None now [] salt None None a item a0 Hk Ha0) as He.
    fold cx cs in He. rewrite He.
    set (msg := s5_encode a ++ item) in *.
    pose proof (decode_encode_payload a0 LEGACY_PAYLOAD_LIMIT msg (or_introl eq_refl)) as Hdp.
    assert (Hne : fst (encode_payload P a0 LEGACY_PAYLOAD_LIMIT msg) <> []).
    { subst msg. pose proof (s5_len_bound a Hw Hr) as Hb. destruct (s5_encode a) as [|x t]; [rewrite lenN_nil in Hb; lia|].
      cbn [app]. apply encode_payload_nonempty. }
    eexists _, _, _, _, _. split; [reflexivity|]. split; [reflexivity|]. split.
    - rewrite (ss_decode_legacy_salt cxs now' cache ss codec_new salt a0 _ Hk Hs eq_refl Ha0). cbn zeta.
      destruct (fst (encode_payload P a0 LEGACY_PAYLOAD_LIMIT msg)) as [|y w] eqn:Ew; [congruence|].
      rewrite (decode_body_srv_none ss _ _ _ _ _ _ _ _ eq_refl eq_refl Hdp).
      cbn [cd_pending cd_enc codec_new app]. subst msg.
      rewrite (addr_step_complete a item _ _
                 (fun ad rest => Ok (set_addr ss (Some ad), {| cd_enc := None; cd_dec := Some (snd (encode_payload P a0 LEGACY_PAYLOAD_LIMIT (s5_encode a ++ item)), DLen); cd_pending := [] |}, [], Some rest)) Hw Hr).
      reflexivity.
    - cbn [cd_dec cd_pending cd_enc set_addr s_addr]. auto.
  Qed.

  (* ------------------------------------------------------------------------------------------ *)
  (* 2022: fixed header                                                                           *)
  (* ------------------------------------------------------------------------------------------ *)
  Lemma new_header_eq a msg m rs now :
    new_header P a msg m rs now =
      (sealed a ([mode_to_u8 m] ++ put_u64 (now mod 2^64) ++ (match rs with Some s => s | None => [] end)
                 ++ put_u16 (N.min (lenN msg) 65535))
       ++ sealed (auth_step a) (takeN (N.min (lenN msg) 65535) msg),
       dropN (N.min (lenN msg) 65535) msg, auth_step (auth_step a)).
  Proof. reflexivity. Qed.

  Lemma get_u16_put_nil p : p < 65536 -> get_u16 (put_u16 p) = Ok (p, []).
  Proof. intros H. rewrite <- (app_nil_r (put_u16 p)). apply get_u16_put. exact H. Qed.

  Lemma validate_ok now' now : abs_diff now' now <= 30 -> validate_timestamp now' now = true.
  Proof. intros H. unfold validate_timestamp, TS_MAX_DIFF. apply N.leb_le. exact H. Qed.

  (* open_fixed on a well-formed fixed header sealed with the right session key.
     rs = the echoed request salt (empty in the request direction). *)
  Lemma open_fixed_gen cx now cache s salt a0 ty ts rs len after :
    lenN salt = kind_n (c_kind cx) ->
    mem_salt cache salt = false ->
    (s_mode s = Client \/ c_users cx = None \/ c_users cx = Some []) ->
    new_auth_2022 P (c_kind cx) (c_key cx) salt = Ok a0 ->
    ty = mode_expect_u8 (s_mode s) ->
    lenN rs = (match s_mode s with Server => 0 | Client => kind_n (c_kind cx) end) ->
    ts < 2^64 -> validate_timestamp now ts = true -> len < 65536 ->
    open_fixed P cx now cache s (salt ++ sealed a0 ([ty] ++ put_u64 ts ++ rs ++ put_u16 len) ++ after) =
      match s_mode s with
      | Server => Ok (auth_step a0, set_req_salt s (Some salt), len, salt, after)
      | Client => if bytes_eqb rs (s_salt s)
                  then Ok (auth_step a0, set_req_salt s (Some salt), len, salt, after) else Err EBadAuth
      end.
  Proof.
    intros Hs Hc Hu Ha Hty Hrs Hts Hv Hlen.
    remember (s_mode s) as m eqn:Hm.
    set (n := kind_n (c_kind cx)) in *.
    set (fixed := [ty] ++ put_u64 ts ++ rs ++ put_u16 len).
    set (rl := match m with Server => 0 | Client => n end) in *.
    assert (Hreq : (match m with
                    | Server => support_eih (c_kind cx) && match c_users cx with Some (_ :: _) => true | _ => false end
                    | Client => false end) = false).
    { destruct m; [reflexivity|]. destruct Hu as [Hu|[Hu|Hu]]; [discriminate| |]; rewrite Hu; apply andb_false_r. }
    assert (Hfl : lenN (sealed a0 fixed) = 0 + 1 + 8 + rl + 2 + TAG).
    { rewrite lenN_sealed. subst fixed. rewrite !lenN_app, lenN_put_u16. unfold put_u64; rewrite lenN_put_be.
      rewrite lenN_cons, lenN_nil. unfold TAG. lia. }
    unfold open_fixed. cbv zeta. rewrite <- Hm. fold n. fold rl. rewrite Hreq. cbv iota.
    set (hl := 0 + 1 + 8 + rl + 2 + TAG) in *.
    destruct (N.ltb_spec (lenN (salt ++ sealed a0 fixed ++ after)) (n + hl)) as [Hlt|_];
      [rewrite !lenN_app in Hlt; lia|].
    rewrite (takeN_app_len salt _ n Hs). rewrite Hc.
    rewrite (dropN_app_len salt _ n Hs). rewrite (takeN_app_len (sealed a0 fixed) after hl Hfl).
    rewrite (app_assoc salt). rewrite (dropN_app_len (salt ++ sealed a0 fixed) after (n + hl)) by (rewrite lenN_app; lia).
    rewrite Ha. cbn [bind]. rewrite open_sealed.
    subst fixed. cbn [app get_u8 bind]. rewrite <- Hty, N.eqb_refl. cbn [negb].
    unfold get_u64, put_u64. rewrite get_be_put_be by (change (256 ^ 8) with (2 ^ 64); exact Hts). cbn [bind].
    rewrite Hv. cbn [negb].
    destruct m; subst rl.
    - rewrite <- Hrs. rewrite split_to_app. cbn [bind].
      destruct (bytes_eqb rs (s_salt s)); [|reflexivity]. cbn [bind].
      rewrite get_u16_put_nil by exact Hlen. reflexivity.
    - apply lenN_0_nil in Hrs. subst rs. cbn [bind app].
      rewrite get_u16_put_nil by exact Hlen. reflexivity.
  Qed.

  (* init_2022 on fixed header + sealed variable part `via` + anything after *)
  Lemma init_2022_gen cx now cache s cd salt a0 ty ts rs via after :
    lenN salt = kind_n (c_kind cx) ->
    mem_salt cache salt = false ->
    (s_mode s = Client \/ c_users cx = None \/ c_users cx = Some []) ->
    new_auth_2022 P (c_kind cx) (c_key cx) salt = Ok a0 ->
    ty = mode_expect_u8 (s_mode s) ->
    lenN rs = (match s_mode s with Server => 0 | Client => kind_n (c_kind cx) end) ->
    ts < 2^64 -> validate_timestamp now ts = true -> lenN via < 65536 ->
    (s_mode s = Server \/ bytes_eqb rs (s_salt s) = true) ->
    init_2022 P cx now cache s cd
      (salt ++ sealed a0 ([ty] ++ put_u64 ts ++ rs ++ put_u16 (lenN via)) ++ sealed (auth_step a0) via ++ after) =
      (salt :: cache,
       let s2 := set_req_salt s (Some salt) in
       let cd' := {| cd_enc := cd_enc cd; cd_dec := Some (auth_step (auth_step a0), DLen); cd_pending := cd_pending cd |} in
       match s_mode s2, s_addr s2 with
       | Server, None =>
         let* (ad, via) := s5_decode via in
         if lenN via <? 2 then Err EShort else
         let* (padlen, via) := get_u16 via in
         if lenN via <? padlen then Err EShort else
         let* via := advance padlen via in
         Ok (set_addr s2 (Some ad), cd', after, Some via)
       | _, _ => Ok (s2, cd', after, Some via)
       end).
  Proof.
    intros Hs Hc Hu Ha Hty Hrs Hts Hv Hlen Hecho.
    unfold init_2022.
    rewrite (open_fixed_gen cx now cache s salt a0 ty ts rs (lenN via) _ Hs Hc Hu Ha Hty Hrs Hts Hv Hlen).
    match goal with |- context [match ?X with Ok _ => _ | Err _ => _ | Panic => _ end] =>
      assert (Hof : X = Ok (auth_step a0, set_req_salt s (Some salt), lenN via, salt, sealed (auth_step a0) via ++ after))
    end.
    { destruct Hecho as [-> | ->]; [reflexivity|]. destruct (s_mode s); reflexivity. }
    rewrite Hof. clear Hof.
    assert (Hsl : lenN (sealed (auth_step a0) via) = lenN via + TAG) by (rewrite lenN_sealed; reflexivity).
    destruct (N.ltb_spec (lenN (sealed (auth_step a0) via ++ after)) (lenN via + TAG)) as [Hlt|_];
      [rewrite lenN_app in Hlt; lia|].
    rewrite Hc. rewrite (takeN_app_len _ after _ Hsl), (dropN_app_len _ after _ Hsl).
    rewrite open_sealed. reflexivity.
  Qed.

  Lemma init_2022_wrong_echo cx now cache s cd salt a0 ty ts rs len after :
    lenN salt = kind_n (c_kind cx) ->
    mem_salt cache salt = false ->
    s_mode s = Client ->
    new_auth_2022 P (c_kind cx) (c_key cx) salt = Ok a0 ->
    ty = 1 -> lenN rs = kind_n (c_kind cx) ->
    ts < 2^64 -> validate_timestamp now ts = true -> len < 65536 ->
    rs <> s_salt s ->
    init_2022 P cx now cache s cd (salt ++ sealed a0 ([ty] ++ put_u64 ts ++ rs ++ put_u16 len) ++ after) =
      (cache, Err EBadAuth).
  Proof.
    intros Hs Hc Hm Ha Hty Hrs Hts Hv Hlen Hne.
    unfold init_2022.
    rewrite (open_fixed_gen cx now cache s salt a0 ty ts rs len after Hs Hc (or_introl Hm) Ha);
      try assumption; try (rewrite Hm; assumption).
    rewrite Hm. rewrite (bytes_eqb_neq _ _ Hne). reflexivity.
  Qed.

  (* header capacity: how the message is split between the variable header part and ordinary chunks *)
  Lemma lenN_takeN_le n (l : bytes) : lenN (takeN n l) <= n.
  Proof. rewrite lenN_spec. unfold takeN. rewrite firstn_length. lia. Qed.

  Lemma header_split (pre item : bytes) : lenN pre <= 65535 ->
    N.min (lenN (pre ++ item)) 65535 = lenN (pre ++ takeN (65535 - lenN pre) item) /\
    takeN (N.min (lenN (pre ++ item)) 65535) (pre ++ item) = pre ++ takeN (65535 - lenN pre) item /\
    dropN (N.min (lenN (pre ++ item)) 65535) (pre ++ item) = dropN (65535 - lenN pre) item.
  Proof.
    intros Hp. set (fit := 65535 - lenN pre).
    assert (Hlen : N.min (lenN (pre ++ item)) 65535 = lenN (pre ++ takeN fit item)).
    { rewrite !lenN_app. destruct (N.le_gt_cases (lenN item) fit) as [Hle|Hgt].
      - rewrite (takeN_all item fit Hle). lia.
      - rewrite lenN_takeN by lia. lia. }
    rewrite Hlen. split; [reflexivity|].
    assert (E : pre ++ item = (pre ++ takeN fit item) ++ dropN fit item)
      by (rewrite <- app_assoc, (take_drop fit item); reflexivity).
    split; rewrite E; [apply takeN_app_exact|apply dropN_app_exact].
  Qed.

  (* the server's parsing of the variable header part *)
  Lemma parse_via a pad item1 (F : addr -> bytes -> res dres) : addr_wf a -> representable a -> lenN pad <= 900 ->
    (let* (ad, via) := s5_decode ((s5_encode a ++ put_u16 (lenN pad) ++ pad) ++ item1) in
     if lenN via <? 2 then Err EShort else
     let* (padlen, via) := get_u16 via in
     if lenN via <? padlen then Err EShort else
     let* via := advance padlen via in F ad via) = F a item1.
  Proof.
    intros Hw Hr Hp. rewrite <- !app_assoc. rewrite (s5_roundtrip a _ Hw Hr). cbn [bind].
    destruct (N.ltb_spec (lenN (put_u16 (lenN pad) ++ pad ++ item1)) 2) as [Hlt|_];
      [rewrite lenN_app, lenN_put_u16 in Hlt; lia|].
    rewrite get_u16_put by lia. cbn [bind].
    destruct (N.ltb_spec (lenN (pad ++ item1)) (lenN pad)) as [Hlt|_]; [rewrite lenN_app in Hlt; lia|].
    rewrite advance_ok by (rewrite lenN_app; lia). cbn [bind]. rewrite dropN_app_exact. reflexivity.
  Qed.

  Lemma with_eih_nil k key salt : (if support_eih k then with_eih P k key [] salt else []) = [].
  Proof. destruct (support_eih k); reflexivity. Qed.

  (* the 2022 client's first write, in closed form *)
  Lemma ss_encode_2022_client_first k key cu now pad salt a item a0 :
    is_2022 k = true -> new_auth_2022 P k key salt = Ok a0 ->
    let msg := (s5_encode a ++ put_u16 (lenN pad) ++ pad) ++ item in
    let len := N.min (lenN msg) 65535 in
    let a2 := auth_step (auth_step a0) in
    ss_encode P {| c_kind := k; c_key := key; c_ikeys := []; c_users := cu |} now pad
              {| s_mode := Client; s_salt := salt; s_req_salt := None; s_user := None; s_addr := Some a |} codec_new item =
    Ok ({| cd_enc := Some (snd (encode_payload P a2 A2022_PAYLOAD_LIMIT (dropN len msg))); cd_dec := None; cd_pending := [] |},
        salt ++ sealed a0 ([0] ++ put_u64 (now mod 2^64) ++ [] ++ put_u16 len) ++ sealed (auth_step a0) (takeN len msg)
             ++ fst (encode_payload P a2 A2022_PAYLOAD_LIMIT (dropN len msg))).
  Proof.
    intros Hk Ha msg len a2. unfold ss_encode.
    cbn [cd_enc cd_dec cd_pending codec_new c_kind c_key c_ikeys s_mode s_salt s_addr s_user s_req_salt].
    rewrite Hk, with_eih_nil, Ha. cbn [bind].
    replace (s5_encode a ++ (put_u16 (lenN pad) ++ pad) ++ item) with msg
      by (subst msg; rewrite <- !app_assoc; reflexivity).
    rewrite new_header_eq. cbn [bind mode_to_u8]. fold len. fold a2.
    destruct (encode_payload P a2 A2022_PAYLOAD_LIMIT (dropN len msg)) as [out a3].
    cbn [fst snd]. rewrite app_nil_r, <- !app_assoc. reflexivity.
  Qed.

  (* the 2022 server's first write (the response header echoes the request salt) *)
  Lemma ss_encode_2022_server_first k key ik cu now pad ssalt csalt su sad cd item a0 :
    is_2022 k = true -> cd_enc cd = None ->
    new_auth_2022 P k (match su with Some u => u_key u | None => key end) ssalt = Ok a0 ->
    let len := N.min (lenN item) 65535 in
    let a2 := auth_step (auth_step a0) in
    ss_encode P {| c_kind := k; c_key := key; c_ikeys := ik; c_users := cu |} now pad
              {| s_mode := Server; s_salt := ssalt; s_req_salt := Some csalt; s_user := su; s_addr := sad |} cd item =
    Ok ({| cd_enc := Some (snd (encode_payload P a2 A2022_PAYLOAD_LIMIT (dropN len item))); cd_dec := cd_dec cd;
           cd_pending := cd_pending cd |},
        ssalt ++ sealed a0 ([1] ++ put_u64 (now mod 2^64) ++ csalt ++ put_u16 len) ++ sealed (auth_step a0) (takeN len item)
              ++ fst (encode_payload P a2 A2022_PAYLOAD_LIMIT (dropN len item))).
  Proof.
    intros Hk He Ha len a2. unfold ss_encode. rewrite He.
    cbn [c_kind c_key c_ikeys s_mode s_salt s_addr s_user s_req_salt].
    rewrite Hk, Ha. cbn [bind].
    rewrite new_header_eq. cbn [bind mode_to_u8]. fold len. fold a2.
    destruct (encode_payload P a2 A2022_PAYLOAD_LIMIT (dropN len item)) as [out a3].
    cbn [fst snd]. rewrite app_nil_r, <- !app_assoc. reflexivity.
  Qed.

  (* ------------------------------------------------------------------------------------------ *)
  (* 2. 2022 request                                                                              *)
  (* ------------------------------------------------------------------------------------------ *)
  Section Request2022.
    Variables (k : kind) (key salt : bytes) (a : addr) (item pad : bytes) (now now' : N) (cache : list bytes)
              (ssalt : bytes) (sreq : option bytes) (suser : option user) (cu : option (list user)).
    Hypothesis Hk : is_2022 k = true.
    Hypothesis Hs : lenN salt = kind_n k.
    Hypothesis Hw : addr_wf a.
    Hypothesis Hr : representable a.
    Hypothesis Hp : lenN pad <= 900.
    Hypothesis Hnow : now < 2^64.
    Hypothesis Hclock : abs_diff now' now <= 30.
    Hypothesis Hfresh : mem_salt cache salt = false.
    Hypothesis Hcu : cu = None \/ cu = Some [].

    Let cx := {| c_kind := k; c_key := key; c_ikeys := []; c_users := None |}.
    Let cs := {| s_mode := Client; s_salt := salt; s_req_salt := None; s_user := None; s_addr := Some a |}.
    Let cxs := {| c_kind := k; c_key := key; c_ikeys := []; c_users := cu |}.
    Let ss := {| s_mode := Server; s_salt := ssalt; s_req_salt := sreq; s_user := suser; s_addr := None |}.

    Lemma request_2022_core a0 : new_auth_2022 P k key salt = Ok a0 ->
      let pre := s5_encode a ++ put_u16 (lenN pad) ++ pad in
      let fit := 65535 - lenN pre in
      let item1 := takeN fit item in
      let item2 := dropN fit item in
      let a2 := auth_step (auth_step a0) in
      let hdr := salt ++ sealed a0 ([0] ++ put_u64 now ++ [] ++ put_u16 (lenN (pre ++ item1)))
                      ++ sealed (auth_step a0) (pre ++ item1) in
      ss_encode P cx now pad cs codec_new item =
        Ok ({| cd_enc := Some (snd (encode_payload P a2 A2022_PAYLOAD_LIMIT item2)); cd_dec := None; cd_pending := [] |},
            hdr ++ fst (encode_payload P a2 A2022_PAYLOAD_LIMIT item2)) /\
      forall e tl,
        ss_decode P cxs now' cache ss {| cd_enc := e; cd_dec := None; cd_pending := [] |} (hdr ++ tl) =
          (salt :: cache, Ok (set_addr (set_req_salt ss (Some salt)) (Some a),
                              {| cd_enc := e; cd_dec := Some (a2, DLen); cd_pending := [] |}, tl, Some item1)).
    Proof.
      intros Ha0 pre fit item1 item2 a2 hdr.
      pose proof (s5_len_bound a Hw Hr) as Hb.
      assert (Hpre : lenN pre = lenN (s5_encode a) + 2 + lenN pad).
      { subst pre. rewrite !lenN_app, lenN_put_u16. lia. }
      assert (Hpre' : lenN pre <= 65535) by lia.
      destruct (header_split pre item Hpre') as (Hlen & Htk & Hdr). fold fit in Hlen, Htk, Hdr.
      fold item1 in Hlen, Htk. fold item2 in Hdr.
      assert (Hvia : lenN (pre ++ item1) < 65536).
      { rewrite lenN_app. pose proof (lenN_takeN_le fit item) as Hle. fold item1 in Hle. lia. }
      split.
      - unfold cx, cs. rewrite (ss_encode_2022_client_first k key None now pad salt a item a0 Hk Ha0).
        fold pre. rewrite Htk, Hdr, Hlen. rewrite (N.mod_small now) by exact Hnow.
        fold a2. subst hdr. rewrite <- !app_assoc. reflexivity.
      - intros e tl.
        rewrite ss_decode_init_2022; [|reflexivity| |exact Hk].
        2:{ cbn [c_kind cxs]. subst hdr. rewrite !lenN_app. lia. }
        subst hdr. rewrite <- !app_assoc.
        rewrite (init_2022_gen cxs now' cache ss _ salt a0 0 now [] (pre ++ item1) tl); try assumption;
          try reflexivity.
        + cbn [set_req_salt s_mode s_addr ss cd_enc cd_dec cd_pending]. f_equal.
          exact (parse_via a pad item1
                   (fun ad via => Ok (set_addr (set_req_salt ss (Some salt)) (Some ad),
                                      {| cd_enc := e; cd_dec := Some (a2, DLen); cd_pending := [] |}, tl, Some via))
                   Hw Hr Hp).
        + right. cbn [c_users cxs]. exact Hcu.
        + apply validate_ok. exact Hclock.
        + left. reflexivity.
    Qed.

    (* general first call: the server obtains the address and the part of the item that fits in the header;
       the chunk stream of the rest of the item is left in the buffer, not yet consumed *)
    Theorem request_roundtrip_2022_first :
      let fit := 65535 - (lenN (s5_encode a) + 2 + lenN pad) in
      exists cd1 hdr a_hdr a_enc ss' cds',
        ss_encode P cx now pad cs codec_new item =
          Ok (cd1, hdr ++ fst (encode_payload P a_hdr A2022_PAYLOAD_LIMIT (dropN fit item))) /\
        cd_enc cd1 = Some a_enc /\ a_enc = snd (encode_payload P a_hdr A2022_PAYLOAD_LIMIT (dropN fit item)) /\
        (forall tl, ss_decode P cxs now' cache ss codec_new (hdr ++ tl) =
                      (salt :: cache, Ok (ss', cds', tl, Some (takeN fit item)))) /\
        ss' = set_addr (set_req_salt ss (Some salt)) (Some a) /\ s_addr ss' = Some a /\ s_req_salt ss' = Some salt /\
        cd_dec cds' = Some (a_hdr, DLen) /\ cd_pending cds' = [] /\ cd_enc cds' = None.
    Proof.
      intros fit. destruct (new_auth_2022_ok k key salt) as [a0 Ha0].
      destruct (request_2022_core a0 Ha0) as [He Hd].
      assert (Hfit : 65535 - lenN (s5_encode a ++ put_u16 (lenN pad) ++ pad) = fit).
      { subst fit. rewrite !lenN_app, lenN_put_u16. lia. }
      rewrite Hfit in He, Hd.
      eexists _, _, _, _, _, _. split; [exact He|]. split; [reflexivity|]. split; [reflexivity|].
      split; [intros tl; apply (Hd None tl)|]. cbn [set_addr set_req_salt s_addr s_req_salt cd_dec cd_pending cd_enc].
      repeat split; reflexivity.
    Qed.

    (* 2. request_roundtrip_2022: the header message fits in one header (<= 65535 bytes): one call. *)
    Theorem request_roundtrip_2022 :
      lenN (s5_encode a) + 2 + lenN pad + lenN item <= 65535 ->
      exists cd1 wire a_enc ss' cds',
        ss_encode P cx now pad cs codec_new item = Ok (cd1, wire) /\
        cd_enc cd1 = Some a_enc /\
        ss_decode P cxs now' cache ss codec_new wire = (salt :: cache, Ok (ss', cds', [], Some item)) /\
        ss' = set_addr (set_req_salt ss (Some salt)) (Some a) /\ s_addr ss' = Some a /\ s_req_salt ss' = Some salt /\
        cd_dec cds' = Some (a_enc, DLen) /\ cd_pending cds' = [] /\ cd_enc cds' = None.
    Proof.
      intros Hsz. destruct request_roundtrip_2022_first as (cd1 & hdr & a_hdr & a_enc & ss' & cds' & He & H1 & H2 & Hd & R).
      cbv zeta in He, H2, Hd.
      set (fit := 65535 - (lenN (s5_encode a) + 2 + lenN pad)) in *.
      assert (Hf : lenN item <= fit) by (subst fit; lia).
      rewrite (dropN_all item fit Hf) in He, H2. rewrite encode_payload_nil in He, H2. cbn [fst snd] in He, H2.
      rewrite (takeN_all item fit Hf) in Hd. subst a_enc.
      exists cd1, (hdr ++ []), a_hdr, ss', cds'. split; [exact He|]. split; [exact H1|]. split; [apply Hd|]. exact R.
    Qed.
  End Request2022.

  (* ------------------------------------------------------------------------------------------ *)
  (* ss_decode as a FramedRead decoder: the state threads the salt cache, the session and the codec *)
  (* ------------------------------------------------------------------------------------------ *)
  Definition fstate := (list bytes * session * codec)%type.
  Definition fdec (cx : ctx) (now : N) (st : fstate) (src : bytes) : res (fstate * bytes * option bytes) :=
    let '(cache, s, cd) := st in
    match ss_decode P cx now cache s cd src with
    | (cache', Ok (s', cd', src', it)) => Ok ((cache', s', cd'), src', it)
    | (_, Err e) => Err e
    | (_, Panic) => Panic
    end.
  Lemma fdec_ok cx now cache s cd src cache' s' cd' src' it :
    ss_decode P cx now cache s cd src = (cache', Ok (s', cd', src', it)) ->
    fdec cx now (cache, s, cd) src = Ok ((cache', s', cd'), src', it).
  Proof. intros H. unfold fdec. rewrite H. reflexivity. Qed.
  Lemma fdec_nil cx now st : fdec cx now st [] = Ok (st, [], None).
  Proof. destruct st as [[cache s] cd]. reflexivity. Qed.

  Lemma concat_head_stream (i1 i2 : bytes) :
    concat (i1 :: match item_of i2 with Some i => [i] | None => [] end) = i1 ++ i2.
  Proof. destruct i2 as [|x t]; cbn [item_of concat]; rewrite ?app_nil_r; reflexivity. Qed.

  (* general 2022 request: an item of ANY length; one FramedRead poll over the whole wire *)
  Theorem request_roundtrip_2022_general : forall k key salt a item pad now now' cache ssalt sreq suser cu,
    is_2022 k = true -> lenN salt = kind_n k -> addr_wf a -> representable a ->
    lenN pad <= 900 -> now < 2^64 -> abs_diff now' now <= 30 -> mem_salt cache salt = false ->
    (cu = None \/ cu = Some []) ->
    let cx := {| c_kind := k; c_key := key; c_ikeys := []; c_users := None |} in
    let cs := {| s_mode := Client; s_salt := salt; s_req_salt := None; s_user := None; s_addr := Some a |} in
    let cxs := {| c_kind := k; c_key := key; c_ikeys := []; c_users := cu |} in
    let ss := {| s_mode := Server; s_salt := ssalt; s_req_salt := sreq; s_user := suser; s_addr := None |} in
    exists cd1 wire a_enc ss' cds' items,
      ss_encode P cx now pad cs codec_new item = Ok (cd1, wire) /\
      cd_enc cd1 = Some a_enc /\
      Framed.feed _ _ (fdec cxs now') (cache, ss, codec_new) [] wire = ((salt :: cache, ss', cds'), [], items, Waiting) /\
      concat items = item /\
      ss' = set_addr (set_req_salt ss (Some salt)) (Some a) /\ s_addr ss' = Some a /\
      cd_dec cds' = Some (a_enc, DLen) /\ cd_pending cds' = [] /\ cd_enc cds' = None.
  Proof.
    intros k key salt a item pad now now' cache ssalt sreq suser cu Hk Hs Hw Hr Hp Hnow Hclock Hfresh Hcu cx cs cxs ss.
    destruct (request_roundtrip_2022_first k key salt a item pad now now' cache ssalt sreq suser cu
                Hk Hs Hw Hr Hp Hnow Hclock Hfresh Hcu)
      as (cd1 & hdr & a_hdr & a_enc & ss' & cds' & He & H1 & H2 & Hd & Hss & Hsa & _ & Hcd & Hcp & Hce).
    cbv zeta in He, H2, Hd. fold cx cs in He. fold cxs ss in Hd, Hss.
    set (fit := 65535 - (lenN (s5_encode a) + 2 + lenN pad)) in *.
    destruct (ss_decode_stream cxs now' (salt :: cache) ss' cds' a_hdr A2022_PAYLOAD_LIMIT (dropN fit item) Hcd
                (or_intror (ex_intro _ a Hsa)) (or_intror eq_refl)) as (cds'' & Hd2 & Hcd2 & Hce2 & Hcp2).
    eexists cd1, _, a_enc, ss', cds'', _. split; [exact He|]. split; [exact H1|]. split.
    - eapply (feed_head_then_stream _ _ (fdec cxs now') (cache, ss, codec_new) (salt :: cache, ss', cds') (salt :: cache, ss', cds'')).
      + intros E. apply (f_equal lenN) in E. specialize (Hd []). rewrite app_nil_r in Hd.
        destruct hdr as [|x t]; [|cbn [app] in E; rewrite lenN_cons, lenN_nil in E; lia].
        rewrite ss_decode_nil in Hd. apply (f_equal fst) in Hd. cbn [fst] in Hd.
        apply (f_equal (@length bytes)) in Hd. cbn [length] in Hd. lia.
      + apply fdec_ok. apply Hd.
      + apply fdec_ok. exact Hd2.
      + apply fdec_nil.
    - rewrite concat_head_stream. split; [apply take_drop|].
      rewrite Hcd2, Hce2, Hcp2, <- H2. auto.
  Qed.

  (* ------------------------------------------------------------------------------------------ *)
  (* 4. 2022 response (server -> client)                                                          *)
  (* ------------------------------------------------------------------------------------------ *)
  Section Response2022.
    Variables (k : kind) (key ssalt csalt item pad : bytes) (now now' : N) (cache : list bytes) (cds cdc : codec)
              (ik ikc : list bytes) (cu cuc : option (list user)) (su : option user) (sad cad : option addr)
              (creq : option bytes) (cuser : option user).
    Hypothesis Hk : is_2022 k = true.
    Hypothesis Hss : lenN ssalt = kind_n k.
    Hypothesis Hcs : lenN csalt = kind_n k.
    Hypothesis Hnow : now < 2^64.
    Hypothesis Hclock : abs_diff now' now <= 30.
    Hypothesis Hfresh : mem_salt cache ssalt = false.
    Hypothesis Hes : cd_enc cds = None.          (* the server has not written yet *)
    Hypothesis Hdc : cd_dec cdc = None.          (* the client has not read yet *)

    (* the key of the stream: the user's key when the server identified a user, else the server key;
       the client is configured with that key *)
    Let skey := match su with Some u => u_key u | None => key end.
    Let cxs := {| c_kind := k; c_key := key; c_ikeys := ik; c_users := cu |}.
    Let ss := {| s_mode := Server; s_salt := ssalt; s_req_salt := Some csalt; s_user := su; s_addr := sad |}.
    Let cxc := {| c_kind := k; c_key := skey; c_ikeys := ikc; c_users := cuc |}.
    Let cs (own : bytes) := {| s_mode := Client; s_salt := own; s_req_salt := creq; s_user := cuser; s_addr := cad |}.

    Lemma response_2022_core a0 : new_auth_2022 P k skey ssalt = Ok a0 ->
      let item1 := takeN 65535 item in
      let item2 := dropN 65535 item in
      let a2 := auth_step (auth_step a0) in
      let hdr := ssalt ++ sealed a0 ([1] ++ put_u64 now ++ csalt ++ put_u16 (lenN item1)) ++ sealed (auth_step a0) item1 in
      ss_encode P cxs now pad ss cds item =
        Ok ({| cd_enc := Some (snd (encode_payload P a2 A2022_PAYLOAD_LIMIT item2)); cd_dec := cd_dec cds;
               cd_pending := cd_pending cds |},
            hdr ++ fst (encode_payload P a2 A2022_PAYLOAD_LIMIT item2)) /\
      (forall tl, ss_decode P cxc now' cache (cs csalt) cdc (hdr ++ tl) =
                    (ssalt :: cache, Ok (set_req_salt (cs csalt) (Some ssalt),
                                         {| cd_enc := cd_enc cdc; cd_dec := Some (a2, DLen); cd_pending := cd_pending cdc |},
                                         tl, Some item1))) /\
      (forall own tl, own <> csalt -> ss_decode P cxc now' cache (cs own) cdc (hdr ++ tl) = (cache, Err EBadAuth)).
    Proof.
      intros Ha0 item1 item2 a2 hdr.
      assert (Hnil : lenN (@nil N) <= 65535) by (rewrite lenN_nil; lia).
      destruct (header_split [] item Hnil) as (Hlen & Htk & Hdr).
      cbn [app] in Hlen, Htk, Hdr. rewrite lenN_nil, N.sub_0_r in Hlen, Htk, Hdr.
      fold item1 in Hlen, Htk. fold item2 in Hdr.
      assert (Hvia : lenN item1 < 65536).
      { pose proof (lenN_takeN_le 65535 item) as Hle. fold item1 in Hle. lia. }
      assert (Hinit : forall own tl, ss_decode P cxc now' cache (cs own) cdc (hdr ++ tl) =
                                     init_2022 P cxc now' cache (cs own) cdc (hdr ++ tl)).
      { intros own tl. apply ss_decode_init_2022; [exact Hdc| |exact Hk].
        cbn [c_kind cxc]. subst hdr. rewrite !lenN_app. lia. }
      split; [|split].
      - unfold cxs, ss. rewrite (ss_encode_2022_server_first k key ik cu now pad ssalt csalt su sad cds item a0 Hk Hes Ha0).
        rewrite Htk, Hdr, Hlen. rewrite (N.mod_small now) by exact Hnow.
        fold a2. subst hdr. rewrite <- !app_assoc. reflexivity.
      - intros tl. rewrite Hinit. subst hdr. rewrite <- !app_assoc.
        rewrite (init_2022_gen cxc now' cache (cs csalt) cdc ssalt a0 1 now csalt item1 tl Hss Hfresh
                   (or_introl eq_refl) Ha0 eq_refl Hcs Hnow (validate_ok _ _ Hclock) Hvia
                   (or_intror (bytes_eqb_refl csalt))).
        reflexivity.
      - intros own tl Hne. rewrite Hinit. subst hdr. rewrite <- !app_assoc.
        apply (init_2022_wrong_echo cxc now' cache (cs own) cdc ssalt a0 1 now csalt (lenN item1)); try assumption;
          try reflexivity.
        + apply validate_ok. exact Hclock.
        + cbn [s_salt cs]. congruence.
    Qed.

    (* 4a. one call, item <= 65535 bytes *)
    Theorem response_roundtrip_2022 : lenN item <= 65535 ->
      exists cds1 wire a_enc cs' cdc',
        ss_encode P cxs now pad ss cds item = Ok (cds1, wire) /\
        cd_enc cds1 = Some a_enc /\ cd_dec cds1 = cd_dec cds /\ cd_pending cds1 = cd_pending cds /\
        ss_decode P cxc now' cache (cs csalt) cdc wire = (ssalt :: cache, Ok (cs', cdc', [], Some item)) /\
        cs' = set_req_salt (cs csalt) (Some ssalt) /\
        cd_dec cdc' = Some (a_enc, DLen) /\ cd_enc cdc' = cd_enc cdc /\ cd_pending cdc' = cd_pending cdc.
    Proof.
      intros Hsz. destruct (new_auth_2022_ok k skey ssalt) as [a0 Ha0].
      destruct (response_2022_core a0 Ha0) as (He & Hd & _). cbv zeta in He, Hd.
      rewrite (dropN_all item 65535 Hsz) in He. rewrite encode_payload_nil in He. cbn [fst snd] in He.
      rewrite (takeN_all item 65535 Hsz) in He, Hd.
      eexists _, _, _, _, _. split; [exact He|]. cbn [cd_enc cd_dec cd_pending].
      split; [reflexivity|]. split; [reflexivity|]. split; [reflexivity|]. split; [apply Hd|].
      cbn [cd_enc cd_dec cd_pending]. auto.
    Qed.

    (* 4b. any item length, one FramedRead poll *)
    Theorem response_roundtrip_2022_general :
      exists cds1 wire a_enc cs' cdc' items,
        ss_encode P cxs now pad ss cds item = Ok (cds1, wire) /\
        cd_enc cds1 = Some a_enc /\ cd_dec cds1 = cd_dec cds /\ cd_pending cds1 = cd_pending cds /\
        Framed.feed _ _ (fdec cxc now') (cache, cs csalt, cdc) [] wire = ((ssalt :: cache, cs', cdc'), [], items, Waiting) /\
        concat items = item /\
        cs' = set_req_salt (cs csalt) (Some ssalt) /\
        cd_dec cdc' = Some (a_enc, DLen) /\ cd_enc cdc' = cd_enc cdc /\ cd_pending cdc' = cd_pending cdc.
    Proof.
      destruct (new_auth_2022_ok k skey ssalt) as [a0 Ha0].
      destruct (response_2022_core a0 Ha0) as (He & Hd & _). cbv zeta in He, Hd.
      set (a2 := auth_step (auth_step a0)) in *.
      set (hdr := ssalt ++ _ ++ _) in *.
      set (cdc1 := {| cd_enc := cd_enc cdc; cd_dec := Some (a2, DLen); cd_pending := cd_pending cdc |}) in *.
      destruct (ss_decode_stream cxc now' (ssalt :: cache) (set_req_salt (cs csalt) (Some ssalt)) cdc1 a2
                  A2022_PAYLOAD_LIMIT (dropN 65535 item) eq_refl (or_introl eq_refl) (or_intror eq_refl))
        as (cdc2 & Hd2 & Hcd2 & Hce2 & Hcp2).
      eexists _, _, _, _, cdc2, _. split; [exact He|]. cbn [cd_enc cd_dec cd_pending].
      split; [reflexivity|]. split; [reflexivity|]. split; [reflexivity|]. split.
      - eapply (feed_head_then_stream _ _ (fdec cxc now') (cache, cs csalt, cdc)
                 (ssalt :: cache, set_req_salt (cs csalt) (Some ssalt), cdc1)
                 (ssalt :: cache, set_req_salt (cs csalt) (Some ssalt), cdc2)).
        + intros E. apply (f_equal lenN) in E. subst hdr. rewrite !lenN_app, !lenN_sealed, lenN_nil in E. lia.
        + apply fdec_ok. apply Hd.
        + apply fdec_ok. exact Hd2.
        + apply fdec_nil.
      - rewrite concat_head_stream. split; [apply take_drop|].
        rewrite Hcd2, Hce2, Hcp2. auto.
    Qed.

    (* 4c. the repaired defect: the echoed request salt is compared with the client's own salt *)
    Theorem response_wrong_echo_refused : forall own, own <> csalt ->
      exists cds1 wire,
        ss_encode P cxs now pad ss cds item = Ok (cds1, wire) /\
        ss_decode P cxc now' cache (cs own) cdc wire = (cache, Err EBadAuth).
    Proof.
      intros own Hne. destruct (new_auth_2022_ok k skey ssalt) as [a0 Ha0].
      destruct (response_2022_core a0 Ha0) as (He & _ & Hd). cbv zeta in He, Hd.
      eexists _, _. split; [exact He|]. apply Hd. exact Hne.
    Qed.
  End Response2022.

  (* ------------------------------------------------------------------------------------------ *)
  (* 5. segmentation independence of the whole legacy server-side decoder                         *)
  (* ------------------------------------------------------------------------------------------ *)
  Lemma crun_app c s b :
    crun P s (c ++ b) =
    match crun P s c with
    | Stop s1 r1 o1 => match crun P s1 (r1 ++ b) with
                       | Stop s2 r2 o2 => Stop s2 r2 (o1 ++ o2)
                       | Fail o2 => Fail (o1 ++ o2)
                       end
    | Fail o1 => Fail o1
    end.
  Proof.
    apply (Canon.run_app state bytes (@app N) [] (@app_assoc N) (@app_nil_l N) need (step P) need_pos need_mono).
  Qed.

  Lemma crun_wf s c s' r o : wf s -> crun P s c = Stop s' r o -> wf s'.
  Proof. intros Hwf E. pose proof (body_dec_canon P HOL s c Hwf) as H. rewrite E in H. apply H. Qed.

  (* decode_payload from the unit machine *)
  Lemma decode_payload_of_crun a1 st1 src s2 r2 o2 : wf (a1, st1) -> crun P (a1, st1) src = Stop s2 r2 o2 ->
    decode_payload P a1 st1 src = Ok (fst s2, snd s2, r2, o2).
  Proof.
    intros Hwf E. pose proof (decode_payload_is_canon P HOL a1 st1 src Hwf) as H. rewrite E in H.
    destruct (decode_payload P a1 st1 src) as [[[[a' st'] r'] d']|er|]; try contradiction.
    destruct H as (H1 & H2 & H3). subst. reflexivity.
  Qed.

  (* the unit machine on a chunk stream written by encode_payload *)
  Lemma crun_encode_payload a1 pl src : pl = 16383 \/ pl = 65535 ->
    crun P (a1, DLen) (fst (encode_payload P a1 pl src)) = Stop (snd (encode_payload P a1 pl src), DLen) [] src.
  Proof.
    intros Hpl. pose proof (decode_encode_payload a1 pl src Hpl) as Hd.
    pose proof (decode_payload_is_canon P HOL a1 DLen (fst (encode_payload P a1 pl src)) I) as H.
    rewrite Hd in H. destruct (crun P (a1, DLen) (fst (encode_payload P a1 pl src))) as [s2 r2 o2|o2]; [|contradiction].
    destruct H as (H1 & H2 & H3). subst. reflexivity.
  Qed.

  Section LegacySegmentation.
    Variables (k : kind) (key salt : bytes) (a0 : auth) (a : addr) (payload body : bytes) (sf : state) (rf : bytes)
              (cache : list bytes) (now : N) (ssalt : bytes) (sreq : option bytes) (suser : option user)
              (ik : list bytes) (cu : option (list user)) (e : option auth).
    Hypothesis Hk : is_2022 k = false.
    Hypothesis Hs : lenN salt = kind_n k.
    Hypothesis Ha0 : new_auth_legacy P k key salt = Ok a0.
    Hypothesis Hw : addr_wf a.
    Hypothesis Hr : representable a.
    (* the body is a valid chunk stream whose plaintext is the address followed by the payload *)
    Hypothesis Hbody : crun P (a0, DLen) body = Stop sf rf (s5_encode a ++ payload).

    Let cxs := {| c_kind := k; c_key := key; c_ikeys := ik; c_users := cu |}.
    Let ss0 := {| s_mode := Server; s_salt := ssalt; s_req_salt := sreq; s_user := suser; s_addr := None |}.
    Let L := lenN (s5_encode a).
    Let pt := s5_encode a ++ payload.
    Let stA : fstate := (cache, ss0, {| cd_enc := e; cd_dec := None; cd_pending := [] |}).
    Let stB (sd : state) (o : bytes) : fstate := (cache, ss0, {| cd_enc := e; cd_dec := Some sd; cd_pending := o |}).
    Let stC (sd : state) : fstate :=
      (cache, set_addr ss0 (Some a), {| cd_enc := e; cd_dec := Some sd; cd_pending := [] |}).
    Let D := fdec cxs now.

    Lemma L_pos : 1 <= L.
    Proof. unfold L. pose proof (s5_len_bound a Hw Hr). lia. Qed.

    (* one decoder call while the address is pending *)
    Lemma call_B sd o src s2 r2 o2 : wf sd -> crun P sd src = Stop s2 r2 o2 -> prefix (o ++ o2) pt -> lenN o < L ->
      D (stB sd o) src =
        Ok (if lenN (o ++ o2) <? L then (stB s2 (o ++ o2), r2, None) else (stC s2, r2, Some (dropN L (o ++ o2)))).
    Proof.
      intros Hwf E [t Ht] Ho. destruct src as [|x xs].
      - rewrite crun_nil in E. injection E as <- <- <-. rewrite app_nil_r.
        destruct (N.ltb_spec (lenN o) L); [|lia]. apply fdec_nil.
      - destruct sd as [a1 st1]. unfold D, stB, fdec.
        rewrite (ss_decode_some cxs now cache ss0 _ a1 st1 (x :: xs)); [|discriminate|reflexivity].
        pose proof (decode_payload_of_crun a1 st1 (x :: xs) s2 r2 o2 Hwf E) as Hd.
        rewrite (decode_body_srv_none ss0 _ _ _ _ _ _ _ _ eq_refl eq_refl Hd).
        cbn [cd_pending cd_enc]. cbv zeta. destruct s2 as [a2 st2]. cbn [fst snd].
        set (pend := o ++ o2) in *.
        pose proof (s5_try_decode_at_ok [] a payload Hw Hr) as Hfull. cbn [app] in Hfull. rewrite lenN_nil in Hfull.
        fold pt L in Hfull.
        destruct (N.ltb_spec (lenN pend) L) as [Hlt|Hge].
        + destruct (s5_try_prefix pend t 0) as [Hn|Hn]; rewrite Hn.
          * reflexivity.
          * rewrite <- Ht, Hfull. cbn [bind]. destruct (N.leb_spec L (lenN pend)); [lia|reflexivity].
        + pose proof (prefix_split pend (s5_encode a) payload t Ht Hge) as Hp. fold L in Hp.
          set (rest := dropN L pend) in *. clearbody rest. clearbody pend. subst pend.
          pose proof (s5_try_decode_at_ok [] a rest Hw Hr) as Hfull'. cbn [app] in Hfull'. rewrite lenN_nil in Hfull'.
          rewrite Hfull'. cbn [bind].
          destruct (N.leb_spec (lenN (s5_encode a)) (lenN (s5_encode a ++ rest))) as [_|Hgt];
            [|rewrite lenN_app in Hgt; lia].
          rewrite (s5_roundtrip a rest Hw Hr). reflexivity.
    Qed.

    (* one decoder call once the address is known *)
    Lemma call_C sd src s2 r2 o2 : wf sd -> crun P sd src = Stop s2 r2 o2 -> D (stC sd) src = Ok (stC s2, r2, item_of o2).
    Proof.
      intros Hwf E. destruct src as [|x xs].
      - rewrite crun_nil in E. injection E as <- <- <-. apply fdec_nil.
      - destruct sd as [a1 st1]. unfold D, stC. apply fdec_ok.
        rewrite (ss_decode_some cxs now cache _ _ a1 st1 (x :: xs)); [|discriminate|reflexivity].
        pose proof (decode_payload_of_crun a1 st1 (x :: xs) s2 r2 o2 Hwf E) as Hd.
        rewrite (decode_body_known (set_addr ss0 (Some a)) _ _ _ _ _ _ _ _ a eq_refl Hd). destruct s2 as [a2 st2]. reflexivity.
    Qed.

    (* decoder calls before the salt is complete, and the call that completes it *)
    Lemma call_A_short src : lenN src < kind_n k -> D stA src = Ok (stA, src, None).
    Proof. intros H. unfold D, stA. apply fdec_ok. apply ss_decode_short; [reflexivity|exact H]. Qed.

    Lemma call_A_cross bpre s2 r2 o2 : crun P (a0, DLen) bpre = Stop s2 r2 o2 -> prefix o2 pt ->
      D stA (salt ++ bpre) =
        Ok (if lenN o2 <? L then (stB s2 o2, r2, None) else (stC s2, r2, Some (dropN L o2))).
    Proof.
      intros E Hp. pose proof L_pos as HLp.
      assert (HD : D stA (salt ++ bpre) = D (stB (a0, DLen) []) bpre).
      { unfold D, stA, stB, fdec.
        rewrite (ss_decode_legacy_salt cxs now cache ss0 {| cd_enc := e; cd_dec := None; cd_pending := [] |} salt a0 bpre Hk Hs eq_refl Ha0). cbv zeta. cbn [cd_enc cd_pending].
        destruct bpre as [|x xs]; [reflexivity|].
        rewrite (ss_decode_some cxs now cache ss0 _ a0 DLen (x :: xs)); [reflexivity|discriminate|reflexivity]. }
      rewrite HD. apply (call_B (a0, DLen) [] bpre s2 r2 o2 I E Hp). rewrite lenN_nil. lia.
    Qed.

    (* one FramedRead poll in each phase *)
    Lemma feed_C sd buf seg s2 r2 o2 : wf sd -> crun P sd (buf ++ seg) = Stop s2 r2 o2 ->
      Framed.feed _ _ D (stC sd) buf seg = (stC s2, r2, items_of o2, Waiting).
    Proof.
      intros Hwf E. pose proof (call_C sd _ s2 r2 o2 Hwf E) as H1. destruct o2 as [|y ys].
      - apply feed_none. exact H1.
      - eapply feed_some_none; [exact H1|].
        apply (call_C s2 r2 s2 r2 [] (crun_wf _ _ _ _ _ Hwf E) (crun_stable P _ _ _ _ _ E)).
    Qed.

    Lemma feed_B sd o buf seg s2 r2 o2 :
      wf sd -> crun P sd (buf ++ seg) = Stop s2 r2 o2 -> prefix (o ++ o2) pt -> lenN o < L ->
      Framed.feed _ _ D (stB sd o) buf seg =
        if lenN (o ++ o2) <? L then (stB s2 (o ++ o2), r2, [], Waiting)
        else (stC s2, r2, [dropN L (o ++ o2)], Waiting).
    Proof.
      intros Hwf E Hp Ho. pose proof (call_B sd o _ s2 r2 o2 Hwf E Hp Ho) as H1.
      destruct (lenN (o ++ o2) <? L).
      - apply feed_none. exact H1.
      - eapply feed_some_none; [exact H1|].
        apply (call_C s2 r2 s2 r2 [] (crun_wf _ _ _ _ _ Hwf E) (crun_stable P _ _ _ _ _ E)).
    Qed.

    Lemma feed_A_cross buf seg bpre s2 r2 o2 : buf ++ seg = salt ++ bpre ->
      crun P (a0, DLen) bpre = Stop s2 r2 o2 -> prefix o2 pt ->
      Framed.feed _ _ D stA buf seg =
        if lenN o2 <? L then (stB s2 o2, r2, [], Waiting) else (stC s2, r2, [dropN L o2], Waiting).
    Proof.
      intros Eb E Hp. pose proof (call_A_cross bpre s2 r2 o2 E Hp) as H1. rewrite <- Eb in H1.
      destruct (lenN o2 <? L).
      - apply feed_none. exact H1.
      - eapply feed_some_none; [exact H1|].
        apply (call_C s2 r2 s2 r2 [] (crun_wf (a0, DLen) _ _ _ _ I E) (crun_stable P _ _ _ _ _ E)).
    Qed.

    (* every prefix of the body is accepted by the unit machine and yields a prefix of the plaintext *)
    Lemma body_prefix bpre bpost : body = bpre ++ bpost ->
      exists s1 r1 o1, crun P (a0, DLen) bpre = Stop s1 r1 o1 /\ prefix o1 pt /\ wf s1.
    Proof.
      intros Eb. pose proof Hbody as H. rewrite Eb, crun_app in H.
      destruct (crun P (a0, DLen) bpre) as [s1 r1 o1|o1] eqn:E1; [|discriminate].
      exists s1, r1, o1. split; [reflexivity|]. split; [|exact (crun_wf (a0, DLen) _ _ _ _ I E1)].
      destruct (crun P s1 (r1 ++ bpost)) as [s2 r2 o2|o2]; [|discriminate].
      injection H as _ _ H. exists o2. symmetry. exact H.
    Qed.

    (* where the FramedRead loop stands after the transport delivered `consumed` *)
    Definition pos_inv (consumed : bytes) (st : fstate) (buf : bytes) (acc : list bytes) : Prop :=
      (lenN consumed < kind_n k /\ st = stA /\ buf = consumed /\ acc = []) \/
      (exists bpre sd o, consumed = salt ++ bpre /\ crun P (a0, DLen) bpre = Stop sd buf o /\ wf sd /\
         ((lenN o < L /\ st = stB sd o /\ acc = []) \/
          (exists rest, o = s5_encode a ++ rest /\ st = stC sd /\ concat acc = rest))).

    (* the invariant established by a poll that ends in state (s2, r2, o') *)
    Lemma pos_after bpre s2 r2 o' acc items st' :
      crun P (a0, DLen) bpre = Stop s2 r2 o' -> wf s2 -> prefix o' pt ->
      (st', items) = (if lenN o' <? L then (stB s2 o', []) else (stC s2, [dropN L o'])) -> acc = [] ->
      pos_inv (salt ++ bpre) st' r2 (acc ++ items).
    Proof.
      intros E Hwf [t Ht] Hst ->. right. exists bpre, s2, o'. split; [reflexivity|]. split; [exact E|]. split; [exact Hwf|].
      destruct (N.ltb_spec (lenN o') L) as [Hlt|Hge]; injection Hst as -> ->.
      - left. auto.
      - right. exists (dropN L o'). split; [apply (prefix_split o' (s5_encode a) payload t Ht Hge)|].
        split; [reflexivity|]. cbn [app concat]. apply app_nil_r.
    Qed.

    Lemma step_inv consumed st buf acc seg post :
      pos_inv consumed st buf acc -> salt ++ body = (consumed ++ seg) ++ post ->
      exists st' buf' items,
        Framed.feed _ _ D st buf seg = (st', buf', items, Waiting) /\ pos_inv (consumed ++ seg) st' buf' (acc ++ items).
    Proof.
      intros [(Hc & -> & -> & ->) | (bpre & sd & o & -> & E & Hwf & Hph)] Hpost.
      - (* salt phase *)
        destruct (N.lt_ge_cases (lenN (consumed ++ seg)) (kind_n k)) as [Hlt|Hge].
        + exists stA, (consumed ++ seg), []. split; [apply feed_none; apply call_A_short; exact Hlt|].
          left. auto.
        + rewrite <- Hs in Hge.
          pose proof (prefix_split (consumed ++ seg) salt body post Hpost Hge) as Hsp.
          set (bpre := dropN (lenN salt) (consumed ++ seg)) in *.
          assert (Eb : body = bpre ++ post).
          { rewrite Hsp, <- app_assoc in Hpost. apply app_inv_head in Hpost. exact Hpost. }
          destruct (body_prefix bpre post Eb) as (s2 & r2 & o2 & E2 & Hp2 & Hwf2).
          pose proof (feed_A_cross consumed seg bpre s2 r2 o2 Hsp E2 Hp2) as HF.
          rewrite Hsp.
          destruct (lenN o2 <? L) eqn:Hcmp.
          * eexists _, _, _. split; [exact HF|].
            apply (pos_after bpre s2 r2 o2 [] [] _ E2 Hwf2 Hp2); [rewrite Hcmp; reflexivity|reflexivity].
          * eexists _, _, _. split; [exact HF|].
            apply (pos_after bpre s2 r2 o2 [] _ _ E2 Hwf2 Hp2); [rewrite Hcmp; reflexivity|reflexivity].
      - (* established *)
        rewrite <- !app_assoc in Hpost. apply app_inv_head in Hpost. rewrite app_assoc in Hpost.
        destruct (body_prefix (bpre ++ seg) post Hpost) as (s2 & r2 & o' & E2 & Hp2 & Hwf2).
        pose proof E2 as E2'. rewrite crun_app, E in E2'.
        destruct (crun P sd (buf ++ seg)) as [s2' r2' o2|o2] eqn:E3; [|discriminate].
        injection E2' as -> -> <-. rewrite <- app_assoc.
        destruct Hph as [(Ho & -> & ->) | (rest & -> & -> & Hacc)].
        + pose proof (feed_B sd o buf seg s2 r2 o2 Hwf E3 Hp2 Ho) as HF.
          destruct (lenN (o ++ o2) <? L) eqn:Hcmp.
          * eexists _, _, _. split; [exact HF|].
            apply (pos_after (bpre ++ seg) s2 r2 (o ++ o2) [] [] _ E2 Hwf2 Hp2); [rewrite Hcmp; reflexivity|reflexivity].
          * eexists _, _, _. split; [exact HF|].
            apply (pos_after (bpre ++ seg) s2 r2 (o ++ o2) [] _ _ E2 Hwf2 Hp2); [rewrite Hcmp; reflexivity|reflexivity].
        + eexists _, _, _. split; [apply (feed_C sd buf seg s2 r2 o2 Hwf E3)|].
          right. exists (bpre ++ seg), s2, ((s5_encode a ++ rest) ++ o2). split; [reflexivity|]. split; [exact E2|].
          split; [exact Hwf2|]. right. exists (rest ++ o2). split; [symmetry; apply app_assoc|]. split; [reflexivity|].
          rewrite concat_app, concat_items_of, Hacc. reflexivity.
    Qed.

    Lemma run_inv segs : forall consumed st buf acc post,
      pos_inv consumed st buf acc -> salt ++ body = (consumed ++ concat segs) ++ post ->
      exists st' buf' items,
        Framed.run _ _ D st buf segs acc = (st', buf', items, Waiting) /\ pos_inv (consumed ++ concat segs) st' buf' items.
    Proof.
      induction segs as [|seg t IH]; intros consumed st buf acc post Hinv Hpost.
      - cbn [concat Framed.run]. rewrite app_nil_r. exists st, buf, acc. auto.
      - cbn [concat] in *. rewrite (app_assoc consumed) in Hpost.
        assert (Hpost1 : salt ++ body = (consumed ++ seg) ++ (concat t ++ post)) by (rewrite Hpost, <- !app_assoc; reflexivity).
        destruct (step_inv consumed st buf acc seg _ Hinv Hpost1) as (st1 & buf1 & items1 & HF & Hinv1).
        cbn [Framed.run]. rewrite HF.
        destruct (IH (consumed ++ seg) st1 buf1 (acc ++ items1) post Hinv1 Hpost) as (st' & buf' & items & HR & Hinv').
        exists st', buf', items. split; [exact HR|]. rewrite (app_assoc consumed). exact Hinv'.
    Qed.

    (* generic form: ANY segmentation of salt ++ body *)
    Theorem legacy_segmentation_generic : forall segs, concat segs = salt ++ body ->
      exists items,
        Framed.run _ _ D stA [] segs [] = (stC sf, rf, items, Waiting) /\
        concat items = payload /\
        Framed.feed _ _ D (stC sf) rf [] = (stC sf, rf, [], Waiting).
    Proof.
      intros segs Hc. pose proof L_pos as HLp.
      assert (Hinit : pos_inv [] stA [] []).
      { left. rewrite lenN_nil. destruct (kind_n_cases k); repeat split; lia. }
      destruct (run_inv segs [] stA [] [] [] Hinit) as (st' & buf' & items & HR & Hinv).
      { cbn [app]. rewrite app_nil_r. symmetry. exact Hc. }
      cbn [app] in Hinv. rewrite Hc in Hinv.
      destruct Hinv as [(Hlt & _) | (bpre & sd & o & Eb & E & Hwf & Hph)].
      { rewrite lenN_app in Hlt. lia. }
      apply app_inv_head in Eb. subst bpre. rewrite Hbody in E. injection E as <- <- <-.
      destruct Hph as [(Ho & _) | (rest & Erest & -> & Hacc)].
      { unfold L in Ho. rewrite lenN_app in Ho. lia. }
      apply app_inv_head in Erest. subst rest.
      exists items. split; [exact HR|]. split; [exact Hacc|].
      pose proof (feed_C sf rf [] sf rf [] Hwf) as HF. rewrite app_nil_r in HF.
      apply HF. apply (crun_stable P _ _ _ _ _ Hbody).
    Qed.
  End LegacySegmentation.

  (* a sequence of client writes through one codec *)
  Fixpoint ss_encode_all (cx : ctx) (now : N) (s : session) (cd : codec) (ws : list bytes) : res (codec * bytes) :=
    match ws with
    | [] => Ok (cd, [])
    | w :: t => let* (cd1, o) := ss_encode P cx now [] s cd w in
                let* (cd2, os) := ss_encode_all cx now s cd1 t in Ok (cd2, o ++ os)
    end.

  Lemma ss_encode_all_established cx now s : forall ws cd ae, cd_enc cd = Some ae ->
    exists cd' out ae', ss_encode_all cx now s cd ws = Ok (cd', out) /\ cd_enc cd' = Some ae' /\
                        cd_dec cd' = cd_dec cd /\ cd_pending cd' = cd_pending cd /\
                        crun P (ae, DLen) out = Stop (ae', DLen) [] (concat ws).
  Proof.
    induction ws as [|w t IH]; intros cd ae He.
    - exists cd, [], ae. split; [reflexivity|]. split; [exact He|]. split; [reflexivity|]. split; [reflexivity|]. apply crun_nil.
    - cbn [ss_encode_all concat]. rewrite (ss_encode_established cx now [] s cd ae w He). cbn [bind].
      set (out1 := fst (encode_payload P ae (plimit (c_kind cx)) w)).
      set (a1 := snd (encode_payload P ae (plimit (c_kind cx)) w)).
      destruct (IH {| cd_enc := Some a1; cd_dec := cd_dec cd; cd_pending := cd_pending cd |} a1 eq_refl)
        as (cd' & os & ae' & H1 & H2 & H3 & H4 & H5).
      rewrite H1. cbn [bind]. exists cd', (out1 ++ os), ae'. split; [reflexivity|]. split; [exact H2|].
      split; [exact H3|]. split; [exact H4|].
      rewrite crun_app. subst out1. rewrite (crun_encode_payload ae _ w (plimit_ok _)). cbn [app]. fold a1.
      rewrite H5. reflexivity.
  Qed.

  (* 5. the wire of a valid legacy request (first write `item`, then the writes `more`), cut into ANY
     segments, through the FramedRead contract model over ss_decode: Waiting (no error, no livelock, no panic),
     nothing left in the buffer, the address is a, the items concatenate to item ++ concat more, the decoder
     ends in lockstep with the encoder, and polling again yields nothing (no stall: nothing complete was
     held back). *)
  Theorem legacy_server_segmentation_independent : forall k key salt a item more now now' cache ssalt sreq suser cu,
    is_2022 k = false -> lenN salt = kind_n k -> addr_wf a -> representable a ->
    let cx := {| c_kind := k; c_key := key; c_ikeys := []; c_users := None |} in
    let cs := {| s_mode := Client; s_salt := salt; s_req_salt := None; s_user := None; s_addr := Some a |} in
    let cxs := {| c_kind := k; c_key := key; c_ikeys := []; c_users := cu |} in
    let ss := {| s_mode := Server; s_salt := ssalt; s_req_salt := sreq; s_user := suser; s_addr := None |} in
    exists cdf w a_enc,
      ss_encode_all cx now cs codec_new (item :: more) = Ok (cdf, w) /\ cd_enc cdf = Some a_enc /\
      forall segs, concat segs = w ->
        exists items,
          let stf := (cache, set_addr ss (Some a), {| cd_enc := None; cd_dec := Some (a_enc, DLen); cd_pending := [] |}) in
          Framed.run _ _ (fdec cxs now') (cache, ss, codec_new) [] segs [] = (stf, [], items, Waiting) /\
          concat items = item ++ concat more /\
          Framed.feed _ _ (fdec cxs now') stf [] [] = (stf, [], [], Waiting).
  Proof.
    intros k key salt a item more now now' cache ssalt sreq suser cu Hk Hs Hw Hr cx cs cxs ss.
    destruct (new_auth_legacy_ok k key salt Hs) as [a0 Ha0].
    cbn [ss_encode_all]. unfold cx at 1, cs at 1.
    rewrite (ss_encode_legacy_first k key [] None now [] salt None None a item a0 Hk Ha0). cbn [bind].
    set (out1 := fst (encode_payload P a0 LEGACY_PAYLOAD_LIMIT (s5_encode a ++ item))).
    set (a1 := snd (encode_payload P a0 LEGACY_PAYLOAD_LIMIT (s5_encode a ++ item))).
    destruct (ss_encode_all_established cx now cs more {| cd_enc := Some a1; cd_dec := None; cd_pending := [] |} a1 eq_refl)
      as (cdf & os & ae' & H1 & H2 & _ & _ & H5).
    rewrite H1. cbn [bind]. exists cdf, ((salt ++ out1) ++ os), ae'. split; [reflexivity|]. split; [exact H2|].
    intros segs Hsegs.
    assert (Hbody : crun P (a0, DLen) (out1 ++ os) = Stop (ae', DLen) [] (s5_encode a ++ item ++ concat more)).
    { rewrite crun_app. subst out1. rewrite (crun_encode_payload a0 LEGACY_PAYLOAD_LIMIT _ (or_introl eq_refl)).
      cbn [app]. fold a1. rewrite H5. rewrite <- app_assoc. reflexivity. }
    rewrite <- app_assoc in Hsegs.
    exact (legacy_segmentation_generic k key salt a0 a (item ++ concat more) (out1 ++ os) (ae', DLen) [] cache now'
             ssalt sreq suser [] cu None Hk Hs Ha0 Hw Hr Hbody segs Hsegs).
  Qed.

End SsTcpRoundtrip.

Print Assumptions second_write_roundtrip.
Print Assumptions request_roundtrip_legacy.
Print Assumptions request_roundtrip_2022_first.
Print Assumptions request_roundtrip_2022.
Print Assumptions request_roundtrip_2022_general.
Print Assumptions response_roundtrip_2022.
Print Assumptions response_roundtrip_2022_general.
Print Assumptions response_wrong_echo_refused.
Print Assumptions legacy_segmentation_generic.
Print Assumptions legacy_server_segmentation_independent.

(* ---------------------------------------------------------------------------------------------- *)
(* Non-vacuity: a toy record of primitives satisfying every premise of the Section, and concrete    *)
(* exchanges evaluated by vm_compute.  The toy AEAD appends a 16-byte tag derived from nonce and    *)
(* key and checks it on open, so a decoder that is not in lockstep with the encoder fails.          *)
(* ---------------------------------------------------------------------------------------------- *)
Module ToyPrims.
  Definition toy_tag (k n : bytes) : bytes := takeN 16 (n ++ k ++ repeat 7 16).
  Definition toy_seal (c : N) (k n a m : bytes) : bytes := m ++ toy_tag k n.
  Definition toy_open (c : N) (k n a ct : bytes) : option bytes :=
    if (16 <=? lenN ct) && bytes_eqb (dropN (lenN ct - 16) ct) (toy_tag k n)
    then Some (takeN (lenN ct - 16) ct) else None.
  Definition toy_hkdf (ikm salt info : bytes) (n : N) : bytes := takeN n (salt ++ ikm ++ repeat 2 (N.to_nat n)).
  Definition toy_b3derive (c m : bytes) : bytes := takeN 32 (m ++ repeat 1 32).

  Definition toyP : prims :=
    {| p_seal := toy_seal; p_open := toy_open; p_hkdf_sha1 := toy_hkdf; p_b3derive := toy_b3derive;
       p_b3hash := fun m => takeN 32 (m ++ repeat 3 32);
       p_aes_enc := fun _ b => b; p_aes_dec := fun _ b => b;
       p_md5 := fun m => m; p_sha224 := fun m => m; p_sha256 := fun m => m;
       p_shake128 := fun _ n => repeat 0 (N.to_nat n); p_crc32 := fun _ => 0 |}.

  Lemma lenN_repeat x n : lenN (repeat x n) = N.of_nat n.
  Proof. rewrite lenN_spec, repeat_length. reflexivity. Qed.

  Lemma toy_tag_len k n : lenN (toy_tag k n) = 16.
  Proof.
    unfold toy_tag. apply lenN_takeN. rewrite !lenN_app, lenN_repeat. lia.
  Qed.

  Lemma toy_laws : prim_laws toyP.
  Proof.
    constructor; cbn [toyP p_seal p_open p_aes_enc p_aes_dec]; try reflexivity.
    - intros c k n a m. unfold toy_open, toy_seal.
      rewrite lenN_app, toy_tag_len. replace (lenN m + 16 - 16) with (lenN m) by lia.
      destruct (N.leb_spec 16 (lenN m + 16)); [|lia].
      rewrite dropN_app_exact, takeN_app_exact, bytes_eqb_refl. reflexivity.
    - intros c k n a m. unfold toy_seal. rewrite lenN_app, toy_tag_len. reflexivity.
    - intros c k n a ct m. unfold toy_open.
      destruct (N.leb_spec 16 (lenN ct)) as [Hle|]; [|discriminate].
      destruct (bytes_eqb _ _); [|discriminate]. cbn [andb]. intros [= <-].
      rewrite lenN_takeN by lia. unfold TAG. lia.
  Qed.

  Lemma toy_b3_len : forall c m, lenN (p_b3derive toyP c m) = 32.
  Proof. intros c m. cbn [toyP p_b3derive]. unfold toy_b3derive. apply lenN_takeN. rewrite lenN_app, lenN_repeat. lia. Qed.
  Lemma toy_hkdf_len : forall i s info n, lenN (p_hkdf_sha1 toyP i s info n) = n.
  Proof.
    intros i s info n. cbn [toyP p_hkdf_sha1]. unfold toy_hkdf. apply lenN_takeN.
    rewrite !lenN_app, lenN_repeat. lia.
  Qed.

  (* the theorems instantiated: their premises on the primitives are jointly satisfiable *)
  Definition toy_request_roundtrip_legacy := request_roundtrip_legacy toyP toy_laws toy_b3_len toy_hkdf_len.
  Definition toy_request_roundtrip_2022 := request_roundtrip_2022 toyP toy_laws toy_b3_len toy_hkdf_len.
  Definition toy_request_roundtrip_2022_general := request_roundtrip_2022_general toyP toy_laws toy_b3_len toy_hkdf_len.
  Definition toy_second_write_roundtrip := second_write_roundtrip toyP toy_laws.
  Definition toy_response_roundtrip_2022 := response_roundtrip_2022 toyP toy_laws toy_b3_len toy_hkdf_len.
  Definition toy_response_wrong_echo_refused := response_wrong_echo_refused toyP toy_laws toy_b3_len toy_hkdf_len.
  Definition toy_legacy_segmentation := legacy_server_segmentation_independent toyP toy_laws toy_b3_len toy_hkdf_len.

  (* ---- concrete exchanges ---- *)
  Definition key16 : bytes := repeat 9 16.
  Definition salt16 : bytes := [1;2;3;4;5;6;7;8;9;10;11;12;13;14;15;16].
  Definition salt16' : bytes := [21;22;23;24;25;26;27;28;29;30;31;32;33;34;35;36].
  Definition target : addr := ADom [101;120;46;111;114;103] 443.      (* "ex.org":443 *)
  Definition hello : bytes := [104;101;108;108;111].
  Definition world : bytes := [119;111;114;108;100;33].

  Definition client_cx (k : kind) := {| c_kind := k; c_key := key16; c_ikeys := []; c_users := None |}.
  Definition server_cx (k : kind) := {| c_kind := k; c_key := key16; c_ikeys := []; c_users := Some [] |}.
  Definition client_s := {| s_mode := Client; s_salt := salt16; s_req_salt := None; s_user := None; s_addr := Some target |}.
  Definition server_s := {| s_mode := Server; s_salt := salt16'; s_req_salt := None; s_user := None; s_addr := None |}.

  (* legacy request: first write, then a second write, both decoded by the server; lockstep both times *)
  Example toy_legacy_exchange :
    match ss_encode toyP (client_cx K_A128) 0 [] client_s codec_new hello with
    | Ok (cd1, wire) =>
      match ss_decode toyP (server_cx K_A128) 0 [] server_s codec_new wire with
      | (cache, Ok (ss', cds', rest, it)) =>
        cache = [] /\ s_addr ss' = Some target /\ rest = [] /\ it = Some hello /\
        option_map fst (cd_dec cds') = cd_enc cd1 /\ lenN wire = 16 + (2 + 16) + (lenN (s5_encode target) + 5 + 16) /\
        match ss_encode toyP (client_cx K_A128) 0 [] client_s cd1 world with
        | Ok (cd2, wire2) =>
          match ss_decode toyP (server_cx K_A128) 0 cache ss' cds' wire2 with
          | (_, Ok (_, cds'', rest2, it2)) => rest2 = [] /\ it2 = Some world /\ option_map fst (cd_dec cds'') = cd_enc cd2
          | _ => False
          end
        | _ => False
        end
      | _ => False
      end
    | _ => False
    end.
  Proof. vm_compute. repeat split. Qed.

  (* a decoder that is NOT in lockstep (fresh codec state, wrong position) rejects the second write *)
  Example toy_out_of_lockstep_rejected :
    match ss_encode toyP (client_cx K_A128) 0 [] client_s codec_new hello with
    | Ok (cd1, wire) =>
      match ss_encode toyP (client_cx K_A128) 0 [] client_s cd1 world with
      | Ok (_, wire2) => snd (ss_decode toyP (server_cx K_A128) 0 [] server_s codec_new (salt16 ++ wire2)) = Err EAead
      | _ => False
      end
    | _ => False
    end.
  Proof. vm_compute. reflexivity. Qed.

  (* legacy segmentation: the same wire (two writes) cut at awkward places (inside the salt, inside the length
     chunk, inside the address, an empty segment) gives the same address and the same bytes *)
  Example toy_legacy_segmented :
    match ss_encode_all toyP (client_cx K_A128) 0 client_s codec_new [hello; world] with
    | Ok (_, w) =>
      let segs := [firstn 5 w; firstn 20 (skipn 5 w); []; firstn 22 (skipn 25 w); firstn 1 (skipn 47 w); skipn 48 w] in
      concat segs = w /\
      match Framed.run _ _ (fdec toyP (server_cx K_A128) 0) ([], server_s, codec_new) [] segs [] with
      | ((_, s', _), buf, items, Waiting) => s_addr s' = Some target /\ buf = [] /\ concat items = hello ++ world
      | _ => False
      end
    | _ => False
    end.
  Proof. vm_compute. repeat split. Qed.

  (* 2022 request with padding, then the response; replay of the same request is refused;
     a response echoing another request salt is refused *)
  Definition pad3 : bytes := [0;0;0].
  Example toy_2022_exchange :
    match ss_encode toyP (client_cx K22_A128) 1000 pad3 client_s codec_new hello with
    | Ok (cd1, wire) =>
      match ss_decode toyP (server_cx K22_A128) 1010 [] server_s codec_new wire with
      | (cache, Ok (ss', cds', rest, it)) =>
        cache = [salt16] /\ s_addr ss' = Some target /\ s_req_salt ss' = Some salt16 /\ rest = [] /\ it = Some hello /\
        option_map fst (cd_dec cds') = cd_enc cd1 /\
        (* replay *)
        snd (ss_decode toyP (server_cx K22_A128) 1010 cache server_s codec_new wire) = Err EReplay /\
        (* too old *)
        snd (ss_decode toyP (server_cx K22_A128) 1031 [] server_s codec_new wire) = Err EBadTime /\
        (* response *)
        match ss_encode toyP (server_cx K22_A128) 1011 [] ss' cds' world with
        | Ok (cds1, rwire) =>
          match ss_decode toyP (client_cx K22_A128) 1012 [] client_s cd1 rwire with
          | (ccache, Ok (_, cdc', rrest, rit)) =>
            ccache = [salt16'] /\ rrest = [] /\ rit = Some world /\ option_map fst (cd_dec cdc') = cd_enc cds1
          | _ => False
          end /\
          snd (ss_decode toyP (client_cx K22_A128) 1012 []
                 {| s_mode := Client; s_salt := salt16'; s_req_salt := None; s_user := None; s_addr := Some target |}
                 cd1 rwire) = Err EBadAuth
        | _ => False
        end
      | _ => False
      end
    | _ => False
    end.
  Proof. vm_compute. repeat split. Qed.
End ToyPrims.

Print Assumptions ToyPrims.toy_laws.
Print Assumptions ToyPrims.toy_legacy_segmentation.
