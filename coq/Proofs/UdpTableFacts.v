(* Facts about Model/UdpTables.v:
     reply_goes_to_owner       client: a reply read on binding k goes to the local address that created k,
                               labelled with the address of the packet (label source LabelFromServer) or the
                               target in the key k (LabelBindingTarget, allowed only where the key contains it)
     datagram_preserved_*      content and target address of a forwarded datagram are those of the incoming one
     assoc_owned_by_one_user   server: a datagram of user u / session sid is handled by the association of (sid, u)
                               only; two users with the same session id have different associations; a legacy
                               datagram is keyed by its client address; replies are sealed for the user of the key
     one_in_one_out            an event produces at most one forwarded datagram
     flows_commute             events of different keys commute (table up to lookup, actions up to permutation)
     flow_alone                the entry and the actions of key k are what the k-events alone produce
   The client lemmas are proved for ANY adapter shape (s_* : Model/UdpAdapters.v) and read at shape_of p, the shape
   regenerated from the source; what the shapes must satisfy, and what that means for histories:
   Proofs/UdpAdapterFacts.v, Proofs/UdpAdapterTableFacts.v. *)
From Coq Require Import NArith List Bool Lia Permutation.
From Octo Require Import Model.UdpTables Proofs.UdpAdapterFacts.
Import ListNotations.
Open Scope N_scope.

(* ---------------- generic: tables and one-entry-per-event loops ---------------- *)
Section TableFacts.
  Context {K V : Type}.
  Variable eqb : K -> K -> bool.
  Hypothesis eqb_spec : forall a b, eqb a b = true <-> a = b.

  Lemma eqb_refl a : eqb a a = true.
  Proof. apply eqb_spec; reflexivity. Qed.

  Lemma eqb_false a b : eqb a b = false <-> a <> b.
  Proof.
    split.
    - intros H E. apply eqb_spec in E. rewrite E in H; discriminate.
    - intros H. destruct (eqb a b) eqn:E; auto. apply eqb_spec in E. contradiction.
  Qed.

  Lemma tlookup_tremove k k' (t : list (K * V)) :
    tlookup eqb k (tremove eqb k' t) = if eqb k' k then None else tlookup eqb k t.
  Proof.
    induction t as [|[k0 v] r IH]; simpl.
    - destruct (eqb k' k); reflexivity.
    - destruct (eqb k0 k') eqn:E0; simpl.
      + apply eqb_spec in E0; subst k0. rewrite IH. destruct (eqb k' k); reflexivity.
      + rewrite IH. destruct (eqb k0 k) eqn:E1; auto.
        apply eqb_spec in E1; subst k0. apply eqb_false in E0.
        destruct (eqb k' k) eqn:E2; auto. apply eqb_spec in E2. subst k'. contradiction E0; reflexivity.
  Qed.

  Lemma tlookup_tput k k' o (t : list (K * V)) :
    tlookup eqb k (tput eqb k' o t) = if eqb k' k then o else tlookup eqb k t.
  Proof.
    destruct o as [v|]; simpl.
    - destruct (eqb k' k) eqn:E; auto. rewrite tlookup_tremove, E; reflexivity.
    - rewrite tlookup_tremove. destruct (eqb k' k); reflexivity.
  Qed.

  (* two tables are the same map *)
  Definition teq (t1 t2 : list (K * V)) : Prop := forall k, tlookup eqb k t1 = tlookup eqb k t2.

  Context {E A : Type}.
  Variable key_of : E -> K.
  Variable entry_step : option V -> E -> option V * list A.
  Notation kstep := (kstep eqb key_of entry_step).
  Notation krun := (krun eqb key_of entry_step).

  Lemma kstep_lookup t e k :
    tlookup eqb k (fst (kstep t e)) =
      if eqb (key_of e) k then fst (entry_step (tlookup eqb (key_of e) t) e) else tlookup eqb k t.
  Proof.
    unfold UdpTables.kstep. destruct (entry_step (tlookup eqb (key_of e) t) e) as [o a]; simpl.
    apply tlookup_tput.
  Qed.

  Lemma kstep_actions t e : snd (kstep t e) = snd (entry_step (tlookup eqb (key_of e) t) e).
  Proof. unfold UdpTables.kstep. destruct (entry_step (tlookup eqb (key_of e) t) e); reflexivity. Qed.

  Lemma kstep_teq t1 t2 e : teq t1 t2 ->
    teq (fst (kstep t1 e)) (fst (kstep t2 e)) /\ snd (kstep t1 e) = snd (kstep t2 e).
  Proof.
    intros H. split.
    - intros k. rewrite !kstep_lookup, (H (key_of e)), (H k); reflexivity.
    - rewrite !kstep_actions, (H (key_of e)); reflexivity.
  Qed.

  (* events of two different keys commute *)
  Theorem kstep_commute t e1 e2 : key_of e1 <> key_of e2 ->
    let t1 := fst (kstep t e1) in let t2 := fst (kstep t e2) in
    teq (fst (kstep t1 e2)) (fst (kstep t2 e1)) /\
    snd (kstep t e1) = snd (kstep t2 e1) /\ snd (kstep t1 e2) = snd (kstep t e2).
  Proof.
    intros Hne t1 t2. subst t1 t2.
    assert (N12 : eqb (key_of e1) (key_of e2) = false) by (apply eqb_false; exact Hne).
    assert (N21 : eqb (key_of e2) (key_of e1) = false) by (apply eqb_false; intros X; apply Hne; symmetry; exact X).
    assert (L1 : tlookup eqb (key_of e1) (fst (kstep t e2)) = tlookup eqb (key_of e1) t)
      by (rewrite kstep_lookup, N21; reflexivity).
    assert (L2 : tlookup eqb (key_of e2) (fst (kstep t e1)) = tlookup eqb (key_of e2) t)
      by (rewrite kstep_lookup, N12; reflexivity).
    split; [|split].
    - intros k. rewrite !kstep_lookup, ?N12, ?N21.
      destruct (eqb (key_of e2) k) eqn:E2; destruct (eqb (key_of e1) k) eqn:E1; auto.
      apply eqb_spec in E1, E2. exfalso; apply Hne; congruence.
    - rewrite !kstep_actions, L1; reflexivity.
    - rewrite !kstep_actions, L2; reflexivity.
  Qed.

  (* each flow's result is what it would have been alone *)
  Theorem krun_flow_alone k evs : forall t t',
    tlookup eqb k t = tlookup eqb k t' ->
    let only := filter (fun e => eqb (key_of e) k) evs in
    tlookup eqb k (fst (krun t evs)) = tlookup eqb k (fst (krun t' only)) /\
    filter (fun x => eqb (fst x) k) (snd (krun t evs)) = snd (krun t' only).
  Proof.
    induction evs as [|e r IH]; simpl; intros t t' H; [auto|].
    destruct (eqb (key_of e) k) eqn:Ek; simpl.
    - apply eqb_spec in Ek.
      pose proof (kstep_lookup t e k) as L1. pose proof (kstep_lookup t' e k) as L2.
      pose proof (kstep_actions t e) as A1. pose proof (kstep_actions t' e) as A2.
      rewrite Ek in L1, L2, A1, A2. rewrite eqb_refl in L1, L2. rewrite H in L1, A1.
      destruct (kstep t e) as [t1 a1]; destruct (kstep t' e) as [t1' a1']; simpl in *.
      assert (Hl : tlookup eqb k t1 = tlookup eqb k t1') by congruence.
      destruct (IH t1 t1' Hl) as [I1 I2].
      destruct (krun t1 r) as [t2 b]; destruct (krun t1' (filter (fun e0 => eqb (key_of e0) k) r)) as [t2' b']; simpl in *.
      split; [exact I1|].
      rewrite filter_app, I2. f_equal.
      assert (a1 = a1') by congruence. subst a1'. rewrite Ek.
      assert (G : forall l : list A, filter (fun x : K * A => eqb (fst x) k) (map (fun x => (k, x)) l)
                                     = map (fun x => (k, x)) l).
      { clear - eqb_spec. induction l as [|x a IHa]; simpl; auto. rewrite eqb_refl, IHa; reflexivity. }
      rewrite G. congruence.
    - pose proof (kstep_lookup t e k) as L1. rewrite Ek in L1.
      destruct (kstep t e) as [t1 a1]; simpl in *.
      assert (Hl : tlookup eqb k t1 = tlookup eqb k t') by congruence.
      destruct (IH t1 t' Hl) as [I1 I2].
      destruct (krun t1 r) as [t2 b]; simpl in *.
      split; [exact I1|].
      rewrite filter_app, I2.
      assert (Z : forall l : list A, filter (fun x : K * A => eqb (fst x) k) (map (fun x => (key_of e, x)) l) = []).
      { clear - Ek. induction l as [|x a IHa]; simpl; auto. rewrite Ek; exact IHa. }
      rewrite Z; reflexivity.
  Qed.

  Lemma krun_snoc evs : forall t e,
    krun t (evs ++ [e]) =
      (fst (kstep (fst (krun t evs)) e),
       snd (krun t evs) ++ map (fun x => (key_of e, x)) (snd (kstep (fst (krun t evs)) e))).
  Proof.
    induction evs as [|e0 r IH]; simpl; intros t e.
    - destruct (kstep t e) as [t1 a]; simpl. rewrite app_nil_r; reflexivity.
    - destruct (kstep t e0) as [t1 a]. rewrite IH. destruct (krun t1 r) as [t2 b]; simpl.
      rewrite app_assoc; reflexivity.
  Qed.
End TableFacts.
Arguments kstep_lookup {K V} eqb eqb_spec {E A} key_of entry_step t e k.
Arguments kstep_actions {K V} eqb {E A} key_of entry_step t e.
Arguments kstep_commute {K V} eqb eqb_spec {E A} key_of entry_step t e1 e2 _.
Arguments krun_flow_alone {K V} eqb eqb_spec {E A} key_of entry_step k evs t t' _.

(* ---------------- the two key types ---------------- *)
Lemma opt_eqb_spec a b : opt_eqb a b = true <-> a = b.
Proof.
  destruct a, b; simpl; split; intros H; try discriminate; auto.
  - apply N.eqb_eq in H; subst; reflexivity.
  - inversion H; apply N.eqb_refl.
Qed.

Lemma ckey_eqb_spec a b : ckey_eqb a b = true <-> a = b.
Proof.
  destruct a as [a1 a2], b as [b1 b2]. unfold ckey_eqb; simpl. rewrite andb_true_iff, N.eqb_eq, opt_eqb_spec.
  split; [intros [-> ->]; reflexivity|intros [= -> ->]; auto].
Qed.

Lemma akey_eqb_spec a b : akey_eqb a b = true <-> a = b.
Proof.
  destruct a as [[a1 a2] a3], b as [[b1 b2] b3]. unfold akey_eqb; simpl.
  rewrite !andb_true_iff, N.eqb_eq, !opt_eqb_spec.
  split; [intros [[-> ->] ->]; reflexivity|intros [= -> -> ->]; auto].
Qed.

(* goals of the form  In a l -> a = x  for a literal list l of length <= 1 *)
Ltac solve_in :=
  simpl; let H := fresh "Hin" in intros H;
  repeat match type of H with _ \/ _ => destruct H as [H|H] | False => destruct H end; subst; reflexivity.

Ltac in_hyp H :=
  simpl in H; repeat match type of H with _ \/ _ => destruct H as [H|H] | False => destruct H end; subst; try reflexivity.

Lemma s_cstep_actions s t e : snd (s_cstep s t e) = snd (s_centry_step s (tlookup ckey_eqb (s_cev_key s e) t) e).
Proof. apply (kstep_actions ckey_eqb (s_cev_key s) (s_centry_step s)). Qed.
Lemma cstep_actions p t e : snd (cstep p t e) = snd (centry_step p (tlookup ckey_eqb (cev_key p e) t) e).
Proof. apply s_cstep_actions. Qed.
Lemma sstep_actions rp t e : snd (sstep rp t e) = snd (sentry_step rp (tlookup akey_eqb (sev_key rp e) t) e).
Proof. apply (kstep_actions akey_eqb (sev_key rp) (sentry_step rp)). Qed.

(* ===================================================================================== *)
(* client binding table                                                                   *)
(* ===================================================================================== *)
(* The lemmas are proved for ANY adapter shape s (Model/UdpAdapters.v), then read at shape_of p: the shape
   tools/gen_from_source.py extracted for protocol p from the current source. *)
Lemma key_by_sender ks sender target : fst (key_by ks sender target) = sender.
Proof. destruct ks; reflexivity. Qed.

(* every binding sits under the key of the datagram that created it, and that datagram is in the history *)
Definition s_cinv (s : shape) (seen : list cevent) (t : ctable) : Prop :=
  forall k b, tlookup ckey_eqb k t = Some b ->
    k = key_by (s_key s) (b_sender b) (b_target b) /\
    exists content o s0, In (CLocal (b_sender b) (b_target b) content o s0) seen.

Lemma s_cinv_more s seen e t : s_cinv s seen t -> s_cinv s (seen ++ [e]) t.
Proof.
  intros H k b Hk. destruct (H k b Hk) as [H1 (c & o & s0 & H2)]. split; auto.
  exists c, o, s0. apply in_or_app; left; exact H2.
Qed.

Lemma s_cstep_inv s seen t e : s_cinv s seen t -> s_cinv s (seen ++ [e]) (fst (s_cstep s t e)).
Proof.
  intros H k b. unfold s_cstep. rewrite (kstep_lookup ckey_eqb ckey_eqb_spec (s_cev_key s) (s_centry_step s)).
  destruct (ckey_eqb (s_cev_key s e) k) eqn:E; [|apply (s_cinv_more s seen e t H)].
  apply ckey_eqb_spec in E. subst k.
  pose proof (s_cinv_more s seen e t H (s_cev_key s e)) as Hold.
  destruct (tlookup ckey_eqb (s_cev_key s e) t) as [b0|] eqn:L.
  - specialize (Hold b0 eq_refl).
    destruct e as [sender target content out_ok send_ok|k content carried|k|k]; simpl in *.
    + destruct b0 as [bs bt [|]]; simpl.
      * intros [= <-]. exact Hold.
      * destruct (out_ok && send_ok); simpl; intros [= <-]; [|exact Hold]. simpl. split; auto.
        exists content, out_ok, send_ok. apply in_or_app; right; left; reflexivity.
    + destruct (b_alive b0); simpl; intros [= <-]; exact Hold.
    + intros [= <-]; simpl. exact Hold.
    + discriminate.
  - destruct e as [sender target content out_ok send_ok|k content carried|k|k]; simpl in *; try discriminate.
    destruct (out_ok && send_ok); simpl; [|discriminate]. intros [= <-]; simpl. split; auto.
    exists content, out_ok, send_ok. apply in_or_app; right; left; reflexivity.
Qed.

Lemma s_crun_inv s evs : forall seen t, s_cinv s seen t -> s_cinv s (seen ++ evs) (fst (s_crun s t evs)).
Proof.
  induction evs as [|e r IH]; simpl; intros seen t H.
  - rewrite app_nil_r; exact H.
  - pose proof (s_cstep_inv s seen t e H) as H1. unfold s_cstep in H1.
    unfold s_crun; simpl. destruct (kstep ckey_eqb (s_cev_key s) (s_centry_step s) t e) as [t1 a]; simpl in *.
    specialize (IH (seen ++ [e]) t1 H1). unfold s_crun in IH.
    destruct (krun ckey_eqb (s_cev_key s) (s_centry_step s) t1 r) as [t2 b]; simpl in *.
    rewrite <- app_assoc in IH; exact IH.
Qed.

Lemma s_cinv_nil s : s_cinv s [] [].
Proof. intros k b H; discriminate. Qed.

(* the label of a reply on binding k: the address inside the packet, or -- where the adapter takes the binding's
   target -- the target in the key *)
Definition s_owner_label (s : shape) (k : ckey) (carried : address) : address :=
  match s_label s with
  | LabelFromServer => carried
  | LabelBindingTarget => match snd k with Some target => target | None => carried end
  end.
Definition owner_label (p : proto) : ckey -> address -> address := s_owner_label (shape_of p).

(* P1: a reply read on binding k is sent to the local application address that created k (the
   sender in the key, whose datagram is in the history), with the right label and its content.
   For any shape whose label source fits its key (label_ok); the current shapes do (UdpAdapterFacts.label_ok_current). *)
Theorem s_reply_goes_to_owner :
  forall s, label_ok s = true ->
  forall evs k content carried a,
    In a (snd (s_cstep s (fst (s_crun s [] evs)) (CReply k content carried))) ->
    a = ToLocalApp k (fst k) (s_owner_label s k carried) content /\
    exists target content0 o s0, In (CLocal (fst k) target content0 o s0) evs /\ key_by (s_key s) (fst k) target = k.
Proof.
  intros s Hok evs k content carried a Ha.
  pose proof (s_crun_inv s evs [] [] (s_cinv_nil s)) as Hi. simpl in Hi.
  rewrite s_cstep_actions in Ha. simpl in Ha.
  destruct (tlookup ckey_eqb k (fst (s_crun s [] evs))) as [b|] eqn:L; [|destruct Ha].
  destruct (Hi k b L) as [Hk (c0 & o & s0 & Hin)].
  destruct (b_alive b); [|destruct Ha]. destruct Ha as [<-|[]].
  assert (Hs : b_sender b = fst k) by (rewrite Hk, key_by_sender; reflexivity).
  split.
  - rewrite Hs. f_equal. unfold label_by, s_owner_label, label_ok in *.
    destruct (s_label s); auto. destruct (s_key s); [discriminate|]. rewrite Hk; reflexivity.
  - exists (b_target b), c0, o, s0. rewrite <- Hs. split; auto.
Qed.

Theorem reply_goes_to_owner :
  forall p evs k content carried a,
    In a (snd (cstep p (fst (crun p [] evs)) (CReply k content carried))) ->
    a = ToLocalApp k (fst k) (owner_label p k carried) content /\
    exists target content0 o s, In (CLocal (fst k) target content0 o s) evs /\ new_key p (fst k) target = k.
Proof. intros p. exact (s_reply_goes_to_owner (shape_of p) (label_ok_current p)). Qed.

(* ... and it IS sent whenever the binding is there and its task runs (no reply is swallowed) *)
Theorem s_reply_delivered_when_bound :
  forall s t k b content carried,
    tlookup ckey_eqb k t = Some b -> b_alive b = true ->
    snd (s_cstep s t (CReply k content carried)) = [ToLocalApp k (b_sender b) (label_by (s_label s) b carried) content].
Proof.
  intros s t k b content carried L Al. rewrite s_cstep_actions. simpl. rewrite L, Al. reflexivity.
Qed.
Theorem reply_delivered_when_bound :
  forall p t k b content carried,
    tlookup ckey_eqb k t = Some b -> b_alive b = true ->
    snd (cstep p t (CReply k content carried)) = [ToLocalApp k (b_sender b) (reply_label p b carried) content].
Proof. intros p. exact (s_reply_delivered_when_bound (shape_of p)). Qed.

(* P2 (client half): what leaves towards the server is the datagram that came in: same content,
   same target, on the binding of new_key(sender, target) *)
Theorem s_datagram_preserved_client :
  forall s t sender target content o s0 a,
    In a (snd (s_cstep s t (CLocal sender target content o s0))) ->
    a = ToServer (key_by (s_key s) sender target) target content.
Proof.
  intros s t sender target content o s0 a. rewrite s_cstep_actions. simpl.
  destruct (tlookup ckey_eqb (key_by (s_key s) sender target) t) as [[bs bt [|]]|]; simpl.
  - destruct s0; solve_in.
  - destruct (o && s0); solve_in.
  - destruct (o && s0); solve_in.
Qed.
Theorem datagram_preserved_client :
  forall p t sender target content o s a,
    In a (snd (cstep p t (CLocal sender target content o s))) ->
    a = ToServer (new_key p sender target) target content.
Proof. intros p. exact (s_datagram_preserved_client (shape_of p)). Qed.

(* ===================================================================================== *)
(* server association table                                                               *)
(* ===================================================================================== *)
Definition sinv (rp : bool) (t : stable) : Prop :=
  forall k a, tlookup akey_eqb k t = Some a -> k = associate_key rp (a_sid a) (a_user a) (a_client a).

Lemma sstep_inv rp t e : sinv rp t -> sinv rp (fst (sstep rp t e)).
Proof.
  intros H k a. unfold sstep. rewrite (kstep_lookup akey_eqb akey_eqb_spec (sev_key rp) (sentry_step rp)).
  destruct (akey_eqb (sev_key rp e) k) eqn:E; [|apply H].
  apply akey_eqb_spec in E. subst k.
  pose proof (H (sev_key rp e)) as Hold.
  destruct (tlookup akey_eqb (sev_key rp e) t) as [a0|] eqn:L.
  - specialize (Hold a0 eq_refl).
    destruct e as [g bind_ok resolvable fresh send_ok|k from content|k|k]; simpl in *.
    + destruct a0 as [s u c [|]]; simpl.
      * intros [= <-]. exact Hold.
      * destruct bind_ok; simpl; [|discriminate]. intros [= <-]; reflexivity.
    + destruct (a_alive a0); simpl; intros [= <-]; exact Hold.
    + intros [= <-]; simpl. exact Hold.
    + discriminate.
  - destruct e as [g bind_ok resolvable fresh send_ok|k from content|k|k]; simpl in *; try discriminate.
    destruct bind_ok; simpl; [|discriminate]. intros [= <-]; reflexivity.
Qed.

Lemma srun_inv rp evs : forall t, sinv rp t -> sinv rp (fst (srun rp t evs)).
Proof.
  induction evs as [|e r IH]; simpl; intros t H; auto.
  pose proof (sstep_inv rp t e H) as H1. unfold sstep in H1. unfold srun; simpl.
  destruct (kstep akey_eqb (sev_key rp) (sentry_step rp) t e) as [t1 a]; simpl in *.
  specialize (IH t1 H1). unfold srun in IH.
  destruct (krun akey_eqb (sev_key rp) (sentry_step rp) t1 r) as [t2 b]; simpl in *. exact IH.
Qed.

Lemma sinv_nil rp : sinv rp [].
Proof. intros k a H; discriminate. Qed.

(* P3a: the key separates users: the same client session id under two identities gives two keys,
   whatever the addresses; and a legacy datagram (no session, no user) is keyed by its address *)
Theorem keys_separate_users :
  forall rp sid u1 u2 c1 c2, u1 <> u2 -> associate_key rp sid u1 c1 <> associate_key rp sid u2 c2.
Proof. intros rp sid u1 u2 c1 c2 H E. inversion E. contradiction. Qed.

Theorem legacy_keyed_by_client_address :
  forall s1 s2 u1 u2 c1 c2, associate_key false s1 u1 c1 = associate_key false s2 u2 c2 -> c1 = c2.
Proof. intros s1 s2 u1 u2 c1 c2 E. inversion E. reflexivity. Qed.

Theorem replay_protected_key_ignores_address :
  forall sid u c1 c2, associate_key true sid u c1 = associate_key true sid u c2.
Proof. reflexivity. Qed.

(* P3b: a datagram authenticated as user u with session id sid is handled by the association under
   the key of (sid, u) only: what is forwarded is forwarded there, on behalf of u, with the content
   and the target of the datagram (P2, server half); and the association that handled it belongs
   to u and sid (legacy: and to the datagram's client address) *)
Theorem assoc_owned_by_one_user :
  forall rp evs g bind_ok resolvable fresh send_ok,
    let t := fst (srun rp [] evs) in
    let k := associate_key rp (g_sid g) (g_user g) (g_client g) in
    let '(t', acts) := sstep rp t (SDatagram g bind_ok resolvable fresh send_ok) in
    (forall a, In a acts -> a = ToPeer k (g_user g) (g_target g) (g_content g)) /\
    (acts <> [] -> exists a', tlookup akey_eqb k t' = Some a' /\ a_alive a' = true /\
                              a_user a' = g_user g /\ a_sid a' = g_sid g /\
                              (rp = false -> a_client a' = g_client g)) /\
    (forall k', k' <> k -> tlookup akey_eqb k' t' = tlookup akey_eqb k' t).
Proof.
  intros rp evs g bind_ok resolvable fresh send_ok t k.
  pose proof (srun_inv rp evs [] (sinv_nil rp)) as Hi. fold t in Hi.
  pose proof (kstep_lookup akey_eqb akey_eqb_spec (sev_key rp) (sentry_step rp) t
                (SDatagram g bind_ok resolvable fresh send_ok)) as HL.
  pose proof (kstep_actions akey_eqb (sev_key rp) (sentry_step rp) t
                (SDatagram g bind_ok resolvable fresh send_ok)) as HA.
  unfold sstep. destruct (kstep akey_eqb (sev_key rp) (sentry_step rp) t (SDatagram g bind_ok resolvable fresh send_ok))
    as [t' acts]. simpl fst in HL. simpl snd in HA.
  change (sev_key rp (SDatagram g bind_ok resolvable fresh send_ok)) with k in HL, HA.
  assert (Hk : k = associate_key rp (g_sid g) (g_user g) (g_client g)) by reflexivity.
  clearbody k t. simpl in HL, HA. rewrite <- ?Hk in HL, HA.
  assert (Key : forall a0, tlookup akey_eqb k t = Some a0 ->
                  a_user a0 = g_user g /\ a_sid a0 = g_sid g /\ (rp = false -> a_client a0 = g_client g)).
  { intros a0 L. pose proof (Hi k a0 L) as E. rewrite Hk in E. unfold associate_key in E.
    inversion E as [[E1 E2 E3]]. repeat split; auto. intros ->. inversion E3; reflexivity. }
  split; [|split].
  - intros a Ha. rewrite HA in Ha. simpl in Ha.
    destruct (tlookup akey_eqb k t) as [[s u c [|]]|] eqn:L; simpl in Ha.
    + destruct (Key _ eq_refl) as [Hu _]. simpl in Hu. subst u.
      destruct (resolvable && fresh && send_ok); in_hyp Ha.
    + destruct bind_ok; simpl in Ha; [|destruct Ha].
      destruct (resolvable && fresh && send_ok); in_hyp Ha.
    + destruct bind_ok; simpl in Ha; [|destruct Ha].
      destruct (resolvable && fresh && send_ok); in_hyp Ha.
  - intros Hne. specialize (HL k). rewrite (eqb_refl akey_eqb akey_eqb_spec) in HL. rewrite HL. simpl.
    rewrite HA in Hne. simpl in Hne.
    destruct (tlookup akey_eqb k t) as [[s u c [|]]|] eqn:L; simpl in *.
    + destruct (Key _ eq_refl) as (Hu & Hs & Hc). simpl in *.
      eexists; split; [reflexivity|]. simpl. auto.
    + destruct bind_ok; simpl in *; [|contradiction Hne; reflexivity].
      eexists; split; [reflexivity|]. simpl. auto.
    + destruct bind_ok; simpl in *; [|contradiction Hne; reflexivity].
      eexists; split; [reflexivity|]. simpl. auto.
  - intros k' Hk'. rewrite HL.
    assert (F : akey_eqb k k' = false) by (apply (eqb_false akey_eqb akey_eqb_spec); intros X; apply Hk'; symmetry; exact X).
    rewrite F; reflexivity.
Qed.

(* P3c: a reply received by the association of key k is sealed for the user and the session of k;
   with a legacy cipher it goes to the client address in k.  (With a 2022 cipher the key has no
   address: the reply goes to the client address of the datagram that CREATED the association.) *)
Theorem reply_sealed_for_key_owner :
  forall rp evs k from content a,
    In a (snd (sstep rp (fst (srun rp [] evs)) (SPeer k from content))) ->
    exists dst, a = ToClient k dst from (snd (fst k)) (fst (fst k)) content /\
                (rp = false -> snd k = Some dst).
Proof.
  intros rp evs k from content a Ha.
  pose proof (srun_inv rp evs [] (sinv_nil rp)) as Hi.
  rewrite sstep_actions in Ha. simpl in Ha.
  destruct (tlookup akey_eqb k (fst (srun rp [] evs))) as [a0|] eqn:L; [|destruct Ha].
  pose proof (Hi k a0 L) as E.
  destruct (a_alive a0); [|destruct Ha]. destruct Ha as [<-|[]].
  exists (a_client a0). rewrite E. simpl. split; auto. intros ->; reflexivity.
Qed.

(* ===================================================================================== *)
(* one in, at most one out                                                                *)
(* ===================================================================================== *)
Lemma s_one_out s t e : (length (snd (s_cstep s t e)) <= 1)%nat.
Proof.
  rewrite s_cstep_actions.
  destruct e as [sender target content o s0|k content carried|k|k]; simpl.
  - destruct (tlookup ckey_eqb (key_by (s_key s) sender target) t) as [[bs bt [|]]|]; simpl;
      [destruct s0|destruct (o && s0)|destruct (o && s0)]; simpl; lia.
  - destruct (tlookup ckey_eqb k t) as [b|]; simpl; [destruct (b_alive b)|]; simpl; lia.
  - destruct (tlookup ckey_eqb k t); simpl; lia.
  - lia.
Qed.

Theorem one_in_one_out :
  (forall p t e, (length (snd (cstep p t e)) <= 1)%nat) /\
  (forall rp t e, (length (snd (sstep rp t e)) <= 1)%nat).
Proof.
  split.
  - intros p. exact (s_one_out (shape_of p)).
  - intros rp t e. rewrite sstep_actions.
    destruct e as [g b r f s|k from content|k|k]; simpl.
    + destruct (tlookup akey_eqb (associate_key rp (g_sid g) (g_user g) (g_client g)) t) as [[si u c [|]]|]; simpl;
        [|destruct b; simpl|destruct b; simpl]; try destruct (r && f && s); simpl; lia.
    + destruct (tlookup akey_eqb k t) as [a|]; simpl; [destruct (a_alive a)|]; simpl; lia.
    + destruct (tlookup akey_eqb k t); simpl; lia.
    + lia.
Qed.

(* ===================================================================================== *)
(* concurrent flows are independent                                                       *)
(* ===================================================================================== *)
(* P5: two events of different keys commute: same table (as a map), same multiset of actions --
   in fact each event produces the same actions in either order *)
Lemma s_flows_commute s t e1 e2 : s_cev_key s e1 <> s_cev_key s e2 ->
  let '(t1, a1) := s_cstep s t e1 in let '(t12, a2) := s_cstep s t1 e2 in
  let '(t2, b2) := s_cstep s t e2 in let '(t21, b1) := s_cstep s t2 e1 in
  teq ckey_eqb t12 t21 /\ a1 = b1 /\ a2 = b2 /\ Permutation (a1 ++ a2) (b2 ++ b1).
Proof.
  intros H.
  pose proof (kstep_commute ckey_eqb ckey_eqb_spec (s_cev_key s) (s_centry_step s) t e1 e2 H) as (T & A1 & A2).
  unfold s_cstep. simpl in T, A1, A2.
  destruct (kstep ckey_eqb (s_cev_key s) (s_centry_step s) t e1) as [t1 a1]; simpl in *.
  destruct (kstep ckey_eqb (s_cev_key s) (s_centry_step s) t1 e2) as [t12 a2]; simpl in *.
  destruct (kstep ckey_eqb (s_cev_key s) (s_centry_step s) t e2) as [t2 b2]; simpl in *.
  destruct (kstep ckey_eqb (s_cev_key s) (s_centry_step s) t2 e1) as [t21 b1]; simpl in *.
  subst. repeat split; auto. apply Permutation_app_comm.
Qed.

Theorem flows_commute :
  (forall p t e1 e2, cev_key p e1 <> cev_key p e2 ->
     let '(t1, a1) := cstep p t e1 in let '(t12, a2) := cstep p t1 e2 in
     let '(t2, b2) := cstep p t e2 in let '(t21, b1) := cstep p t2 e1 in
     teq ckey_eqb t12 t21 /\ a1 = b1 /\ a2 = b2 /\ Permutation (a1 ++ a2) (b2 ++ b1)) /\
  (forall rp t e1 e2, sev_key rp e1 <> sev_key rp e2 ->
     let '(t1, a1) := sstep rp t e1 in let '(t12, a2) := sstep rp t1 e2 in
     let '(t2, b2) := sstep rp t e2 in let '(t21, b1) := sstep rp t2 e1 in
     teq akey_eqb t12 t21 /\ a1 = b1 /\ a2 = b2 /\ Permutation (a1 ++ a2) (b2 ++ b1)).
Proof.
  split.
  - intros p. exact (s_flows_commute (shape_of p)).
  - intros rp t e1 e2 H.
    pose proof (kstep_commute akey_eqb akey_eqb_spec (sev_key rp) (sentry_step rp) t e1 e2 H) as (T & A1 & A2).
    unfold sstep. simpl in T, A1, A2.
    destruct (kstep akey_eqb (sev_key rp) (sentry_step rp) t e1) as [t1 a1]; simpl in *.
    destruct (kstep akey_eqb (sev_key rp) (sentry_step rp) t1 e2) as [t12 a2]; simpl in *.
    destruct (kstep akey_eqb (sev_key rp) (sentry_step rp) t e2) as [t2 b2]; simpl in *.
    destruct (kstep akey_eqb (sev_key rp) (sentry_step rp) t2 e1) as [t21 b1]; simpl in *.
    subst. repeat split; auto. apply Permutation_app_comm.
Qed.

(* P5, whole histories: the entry of key k and the actions of key k after ANY interleaved history
   are those of the history restricted to the events of k -- each flow's result is what it would
   have been alone *)
Lemma s_flow_alone s k evs t :
  let only := filter (fun e => ckey_eqb (s_cev_key s e) k) evs in
  tlookup ckey_eqb k (fst (s_crun s t evs)) = tlookup ckey_eqb k (fst (s_crun s t only)) /\
  filter (fun x => ckey_eqb (fst x) k) (snd (s_crun s t evs)) = snd (s_crun s t only).
Proof. apply (krun_flow_alone ckey_eqb ckey_eqb_spec (s_cev_key s) (s_centry_step s) k evs t t eq_refl). Qed.

Theorem flow_alone :
  (forall p k evs t,
     let only := filter (fun e => ckey_eqb (cev_key p e) k) evs in
     tlookup ckey_eqb k (fst (crun p t evs)) = tlookup ckey_eqb k (fst (crun p t only)) /\
     filter (fun x => ckey_eqb (fst x) k) (snd (crun p t evs)) = snd (crun p t only)) /\
  (forall rp k evs t,
     let only := filter (fun e => akey_eqb (sev_key rp e) k) evs in
     tlookup akey_eqb k (fst (srun rp t evs)) = tlookup akey_eqb k (fst (srun rp t only)) /\
     filter (fun x => akey_eqb (fst x) k) (snd (srun rp t evs)) = snd (srun rp t only)).
Proof.
  split.
  - intros p. exact (s_flow_alone (shape_of p)).
  - intros rp k evs t. apply (krun_flow_alone akey_eqb akey_eqb_spec (sev_key rp) (sentry_step rp) k evs t t eq_refl).
Qed.

(* ---------------- non-vacuity ---------------- *)
(* two local applications (addresses 1001, 1002) use the same target 53 through a vmess client *)
Example ex_client_vmess :
  crun Vmess [] [CLocal 1001 53 [1] true true; CLocal 1002 53 [2] true true;
                 CReply (1002, Some 53) [9] 0; CReply (1001, Some 53) [8] 0;
                 CLocal 1001 54 [3] false true; CTaskEnd (1001, Some 53); CReply (1001, Some 53) [7] 0;
                 CLocal 1001 53 [4] true true; CEvict (1002, Some 53); CReply (1002, Some 53) [6] 0]
  = ([((1001, Some 53), {| b_sender := 1001; b_target := 53; b_alive := true |})],
     [((1001, Some 53), ToServer (1001, Some 53) 53 [1]); ((1002, Some 53), ToServer (1002, Some 53) 53 [2]);
      ((1002, Some 53), ToLocalApp (1002, Some 53) 1002 53 [9]); ((1001, Some 53), ToLocalApp (1001, Some 53) 1001 53 [8]);
      ((1001, Some 53), ToServer (1001, Some 53) 53 [4])]).
Proof. vm_compute. reflexivity. Qed.

(* shadowsocks client: one binding per sender whatever the target; the label is the packet's address *)
Example ex_client_ss :
  snd (crun Shadowsocks [] [CLocal 1001 53 [1] true true; CLocal 1001 54 [2] true true; CReply (1001, None) [9] 54])
  = [((1001, None), ToServer (1001, None) 53 [1]); ((1001, None), ToServer (1001, None) 54 [2]);
     ((1001, None), ToLocalApp (1001, None) 1001 54 [9])].
Proof. vm_compute. reflexivity. Qed.

(* server: users 11 and 22 both use session id 5 (from the same address 700): two associations *)
Example ex_server_two_users :
  let g u pid c := {| g_sid := 5; g_user := Some u; g_client := 700; g_pid := pid; g_target := 53; g_content := c |} in
  srun true [] [SDatagram (g 11 1 [1]) true true true true; SDatagram (g 22 1 [2]) true true true true;
                SDatagram (g 11 1 [1]) true true false true (* replay: dropped *);
                SPeer (5, Some 22, None) 53 [9]; SPeer (5, Some 11, None) 53 [8]]
  = ([((5, Some 11, None), {| a_sid := 5; a_user := Some 11; a_client := 700; a_alive := true |});
      ((5, Some 22, None), {| a_sid := 5; a_user := Some 22; a_client := 700; a_alive := true |})],
     [((5, Some 11, None), ToPeer (5, Some 11, None) (Some 11) 53 [1]);
      ((5, Some 22, None), ToPeer (5, Some 22, None) (Some 22) 53 [2]);
      ((5, Some 22, None), ToClient (5, Some 22, None) 700 53 (Some 22) 5 [9]);
      ((5, Some 11, None), ToClient (5, Some 11, None) 700 53 (Some 11) 5 [8])]).
Proof. vm_compute. reflexivity. Qed.

Print Assumptions reply_goes_to_owner.
Print Assumptions datagram_preserved_client.
Print Assumptions assoc_owned_by_one_user.
Print Assumptions reply_sealed_for_key_owner.
Print Assumptions keys_separate_users.
Print Assumptions one_in_one_out.
Print Assumptions flows_commute.
Print Assumptions flow_alone.
