(* C16: proofs.  Finite statements are decided by computation over the generated tables (a `forallb .. = true`
   obtained by vm_compute and lifted with forallb_forall: the domains are finite, so this is a proof);
   statements about ALL strings / ALL passwords are proved from the definitions. *)
From Coq Require Import String Ascii List Bool NArith Lia.
From Octo Require Import Base.Bytes Crypto.Prims Generated.Tables Generated.ConfigTables Model.Config Spec.Readme.
Import ListNotations.
Open Scope string_scope.
Open Scope list_scope.

(* ------------------------------------------------------------------------------------------ *)
(* table lookup *)
Lemma assoc_in {A} (k : string) (l : list (string * A)) v : assoc k l = Some v -> In k (map fst l).
Proof.
  induction l as [|[k' v'] t IH]; cbn [assoc map fst]; [discriminate|].
  destruct (String.eqb_spec k k') as [->|_]; [intros _; left; reflexivity|]. intros H. right. exact (IH H).
Qed.
Lemma assoc_not_in {A} (k : string) (l : list (string * A)) : ~ In k (map fst l) -> assoc k l = None.
Proof. intros H. destruct (assoc k l) eqn:E; [|reflexivity]. exfalso. exact (H (assoc_in _ _ _ E)). Qed.

Lemma parse_with_in {A} names (variants : list (string * A)) s x :
  parse_with names variants s = Some x -> In s (map fst names).
Proof. unfold parse_with. destruct (assoc s names) eqn:E; [|discriminate]. intros _. exact (assoc_in _ _ _ E). Qed.
Lemma parse_with_not_in {A} names (variants : list (string * A)) s :
  ~ In s (map fst names) -> parse_with names variants s = None.
Proof. intros H. unfold parse_with. rewrite (assoc_not_in _ _ H). reflexivity. Qed.

(* the generated tables only name variants the model knows (a new variant in the source breaks this) *)
Definition known {A} (variants : list (string * A)) (names : list (string * string)) : bool :=
  forallb (fun r => match assoc (snd r) variants with Some _ => true | None => false end) names.
Lemma tables_closed :
  known cipher_variants ConfigTables.cipher_names_all = true /\ known protocol_variants Tables.protocol_names = true
  /\ known mode_variants Tables.mode_names = true
  /\ ConfigTables.cipher_names_all = Tables.cipher_names
  /\ ConfigTables.cipher_not_deserializable = [ConfigTables.cipher_default_variant]
  /\ Tables.cipher_unknown_is_nameable = false.
Proof. vm_compute. repeat split. Qed.

(* the serde names are exactly the documented names (the #[default] variant is #[serde(skip_deserializing)]) *)
Lemma cipher_names_are_documented : map fst ConfigTables.cipher_names_all = readme_cipher_names.
Proof. reflexivity. Qed.
Lemma protocol_names_are_documented : map fst Tables.protocol_names = readme_protocol_names.
Proof. reflexivity. Qed.
Lemma mode_names_are_documented : map fst Tables.mode_names = readme_mode_names.
Proof. reflexivity. Qed.

(* ------------------------------------------------------------------------------------------ *)
(* names_complete_and_exact *)
Definition cipher_row_ok (d : doc_cipher) : bool :=
  match parse_cipher (dc_name d) with
  | Some c =>
    match kind_params c with
    | Some p => (kp_algo p =? aead_id (dc_aead d))%N && (kp_n p =? dc_key_len d)%N && Bool.eqb (kp_2022 p) (dc_2022 d)
                && (kp_tag p =? 16)%N && (cipher_key_size (kp_algo p) =? kp_n p)%N
                && match client_udp_n c, server_n c with Some a, Some b => (a =? kp_n p)%N && (b =? kp_n p)%N | _, _ => false end
    | None => false
    end
  | None => false
  end.
Lemma cipher_rows_ok : forallb cipher_row_ok readme_ciphers = true.
Proof. vm_compute. reflexivity. Qed.

Record cipher_selected (d : doc_cipher) (c : cipher) (p : params) : Prop := {
  sel_parse : parse_cipher (dc_name d) = Some c;
  sel_params : kind_params c = Some p;
  sel_algo : kp_algo p = aead_id (dc_aead d);
  sel_key_len : kp_n p = dc_key_len d;
  sel_2022 : kp_2022 p = dc_2022 d;
  sel_tag : kp_tag p = 16%N;
  sel_algo_key : cipher_key_size (kp_algo p) = kp_n p;       (* the AEAD's own key size is the dispatched N *)
  sel_n_udp : client_udp_n c = Some (dc_key_len d);         (* every `match cipher` dispatches the same N *)
  sel_n_server : server_n c = Some (dc_key_len d)
}.

Lemma names_complete_and_exact_cipher : forall d, In d readme_ciphers -> exists c p, cipher_selected d c p.
Proof.
  intros d Hd. pose proof (proj1 (forallb_forall _ _) cipher_rows_ok d Hd) as H.
  unfold cipher_row_ok in H.
  destruct (parse_cipher (dc_name d)) as [c|] eqn:Ec; [|discriminate].
  destruct (kind_params c) as [p|] eqn:Ep; [|discriminate].
  destruct (client_udp_n c) as [a|] eqn:Ea; [|rewrite andb_false_r in H; discriminate].
  destruct (server_n c) as [b|] eqn:Eb; [|rewrite andb_false_r in H; discriminate].
  repeat (apply andb_prop in H; destruct H as [H ?]).
  match goal with X : (_ =? _)%N && (_ =? _)%N = true |- _ => apply andb_prop in X; destruct X end.
  repeat match goal with X : (_ =? _)%N = true |- _ => apply N.eqb_eq in X end.
  match goal with X : Bool.eqb _ _ = true |- _ => apply eqb_prop in X end.
  exists c, p. constructor; try assumption; try congruence.
Qed.

Lemma names_complete_and_exact_protocol : forall n p, In (n, p) readme_protocols -> parse_protocol n = Some p.
Proof.
  assert (H : forallb (fun r => match parse_protocol (fst r) with Some q => String.eqb (protocol_variant q) (protocol_variant (snd r)) | None => false end) readme_protocols = true)
    by (vm_compute; reflexivity).
  intros n p Hin. pose proof (proj1 (forallb_forall _ _) H (n, p) Hin) as H1. cbn [fst snd] in H1.
  destruct (parse_protocol n) as [q|]; [|discriminate]. apply String.eqb_eq in H1. f_equal.
  destruct q, p; cbn in H1; try reflexivity; discriminate.
Qed.
Lemma names_complete_and_exact_mode : forall n m, In (n, m) readme_modes -> parse_mode n = Some m.
Proof.
  assert (H : forallb (fun r => match parse_mode (fst r) with Some q => String.eqb (mode_variant q) (mode_variant (snd r)) | None => false end) readme_modes = true)
    by (vm_compute; reflexivity).
  intros n m Hin. pose proof (proj1 (forallb_forall _ _) H (n, m) Hin) as H1. cbn [fst snd] in H1.
  destruct (parse_mode n) as [q|]; [|discriminate]. apply String.eqb_eq in H1. f_equal.
  destruct q, m; cbn in H1; try reflexivity; discriminate.
Qed.
(* `mode` left out = the documented default *)
Lemma default_mode_documented : field_mode None = parse_mode readme_default_mode /\ field_mode None = Some MTcp.
Proof. split; reflexivity. Qed.
(* the mode lists of the README are exactly the accepted mode names *)
Lemma documented_mode_lists : forall s, In s readme_client_modes \/ In s readme_server_modes <-> In s readme_mode_names.
Proof. intros s. cbn. tauto. Qed.

(* ------------------------------------------------------------------------------------------ *)
(* unknown_names_rejected: for ALL strings *)
Lemma unknown_cipher_rejected : forall s, ~ In s readme_cipher_names -> parse_cipher s = None.
Proof. intros s Hs. apply parse_with_not_in. rewrite cipher_names_are_documented. exact Hs. Qed.
Lemma unknown_protocol_rejected : forall s, ~ In s readme_protocol_names -> parse_protocol s = None.
Proof. intros s Hs. apply parse_with_not_in. rewrite protocol_names_are_documented. exact Hs. Qed.
Lemma unknown_mode_rejected : forall s, ~ In s readme_mode_names -> parse_mode s = None.
Proof. intros s Hs. apply parse_with_not_in. rewrite mode_names_are_documented. exact Hs. Qed.
(* a whole object with one undocumented name is a serde error, whatever the other fields are *)
Lemma object_with_unknown_name_rejected : forall c p m,
  (exists s, c = Some s /\ ~ In s readme_cipher_names) \/ ~ In p readme_protocol_names
  \/ (exists s, m = Some s /\ ~ In s readme_mode_names) ->
  parse_server_config c p m = None.
Proof.
  intros c p m [[s [-> H1]]|[H|[s [-> H]]]]; unfold parse_server_config.
  - cbn [field_cipher]. rewrite (unknown_cipher_rejected s H1). reflexivity.
  - rewrite (unknown_protocol_rejected p H). destruct (field_cipher c); reflexivity.
  - cbn [field_mode]. rewrite (unknown_mode_rejected s H). destruct (field_cipher c); [destruct (parse_protocol p)|]; reflexivity.
Qed.

(* ------------------------------------------------------------------------------------------ *)
(* no_silent_fallback *)
Lemma documented_name_never_unknown : forall s, In s readme_cipher_names -> parse_cipher s <> Some CUnknown /\ parse_cipher s <> None.
Proof.
  assert (H : forallb (fun s => match parse_cipher s with Some c => negb (cipher_eqb c CUnknown) | None => false end) readme_cipher_names = true)
    by (vm_compute; reflexivity).
  intros s Hs. pose proof (proj1 (forallb_forall _ _) H s Hs) as H1. cbv beta in H1.
  destruct (parse_cipher s) as [c|]; [|discriminate H1]. split; [|discriminate]. intros [= ->]. discriminate H1.
Qed.
(* NO string yields the kind `Unknown` *)
Lemma no_name_is_unknown : forall s, parse_cipher s <> Some CUnknown.
Proof.
  intros s H. destruct (in_dec string_dec s readme_cipher_names) as [I|NI].
  - exact (proj1 (documented_name_never_unknown s I) H).
  - rewrite (unknown_cipher_rejected s NI) in H. discriminate.
Qed.
(* `Unknown` is what an ABSENT cipher field becomes ... *)
Lemma absent_cipher_is_unknown : field_cipher None = Some CUnknown.
Proof. reflexivity. Qed.
(* ... and what the code does with that kind: the shadowsocks server stops with an error before any listener,
   the shadowsocks client logs the error and serves nothing, the VMess client refuses it (below), VMess / Trojan
   servers and the Trojan client never look at it *)
Lemma unknown_kind_shadowsocks_server : forall m ssl ws quic,
  exists msg, startup_server PShadowsocks CUnknown m ssl ws quic = StartupError msg.
Proof. intros [] ssl ws []; eexists; reflexivity. Qed.
Lemma unknown_kind_shadowsocks_client : forall m, exists msg, startup_client PShadowsocks CUnknown m = StartupError msg.
Proof. intros []; eexists; reflexivity. Qed.
Lemma cipher_ignored_by_other_servers : forall p c c' m ssl ws quic, p <> PShadowsocks ->
  startup_server p c m ssl ws quic = startup_server p c' m ssl ws quic.
Proof. intros [] c c' m ssl ws quic H; [congruence| |]; reflexivity. Qed.

(* ------------------------------------------------------------------------------------------ *)
(* startup outcome against the documented one *)
Definition mk (x : bool * bool * bool) : listeners := let '(t, u, q) := x in {| l_tcp := t; l_udp := u; l_quic := q |}.
Definition meets (s : startup) (e : expected) : Prop :=
  match e, s with
  | ExpectSockets t u q, Started l => l = {| l_tcp := t; l_udp := u; l_quic := q |}
  | ExpectError, StartupError _ => True
  | _, _ => False          (* in particular: serving while an error went unreported never meets the contract *)
  end.
Definition meetsb (s : startup) (e : expected) : bool :=
  match e, s with
  | ExpectSockets t u q, Started l => Bool.eqb (l_tcp l) t && Bool.eqb (l_udp l) u && Bool.eqb (l_quic l) q
  | ExpectError, StartupError _ => true
  | _, _ => false
  end.
Lemma meetsb_meets : forall s e, meetsb s e = true -> meets s e.
Proof.
  intros [l|msg|l msg] [t u q|]; cbn; try discriminate; try exact (fun _ => I).
  intros H. repeat (apply andb_prop in H; destruct H as [H ?]).
  destruct l as [a b c]. cbn in *. repeat match goal with X : Bool.eqb _ _ = true |- _ => apply eqb_prop in X end. subst. reflexivity.
Qed.

(* is this kind usable with this protocol at all (the code's own tests) *)
Definition kind_usable (p : protocol) (c : cipher) : bool :=
  match p with
  | PShadowsocks => match client_tcp_n c, client_udp_n c, server_n c with Some _, Some _, Some _ => true | _, _, _ => false end
  | PVMess => match vmess_security c with Some _ => true | None => false end
  | PTrojan => true
  end.

(* server: every (protocol, kind, mode, ssl?, ws?, quic?) -- an inconsistent one (a mode that asks for QUIC without the quic
   section) is a startup error, a consistent one listens on exactly the documented sockets *)
Lemma listeners_match_readme_server : forall p c m ssl ws quic, (p = PShadowsocks -> server_n c <> None) ->
  meets (startup_server p c m ssl ws quic) (readme_server_startup p m quic).
Proof.
  intros p c m ssl ws quic Hc. apply meetsb_meets.
  destruct p.
  - destruct (server_n c) as [n|] eqn:E; [|exfalso; exact (Hc eq_refl eq_refl)].
    unfold startup_server. rewrite E. destruct m, quic; reflexivity.
  - destruct m, quic; reflexivity.
  - destruct m, quic; reflexivity.
Qed.
Lemma listeners_server_is_startup : forall p c m ssl ws quic l, startup_server p c m ssl ws quic = Started l ->
  l = listeners_server p m ssl ws quic.
Proof.
  intros p c m ssl ws quic l. destruct p; unfold startup_server.
  - destruct (any_pred _ m && negb quic); [discriminate|]. destruct (server_n c); [|discriminate].
    destruct m, quic; vm_compute; intros [= <-]; reflexivity.
  - destruct m, quic; vm_compute; intros [= <-]; reflexivity.
  - destruct m, quic; vm_compute; intros [= <-]; reflexivity.
Qed.
(* no configuration at all ends in "serving, with an unreported error" *)
Lemma no_swallowed_startup_error : forall p c m ssl ws quic l msg, startup_server p c m ssl ws quic <> StartedDespiteError l msg.
Proof.
  intros p c m ssl ws quic l msg. destruct p; unfold startup_server.
  - destruct (server_n c); destruct m, quic; vm_compute; discriminate.
  - destruct m, quic; vm_compute; discriminate.
  - destruct m, quic; vm_compute; discriminate.
Qed.

(* client: a documented client mode listens on exactly the documented sockets and keeps running; the two server-only
   modes are startup errors -- for every protocol and every kind usable with it *)
Lemma listeners_match_readme_client : forall p c m, kind_usable p c = true ->
  meets (startup_client p c m) (readme_client_startup m)
  /\ (forall l, readme_client_listeners m = Some l -> listeners_client m = l /\ client_keeps_running m = true).
Proof.
  intros p c m Hk. split.
  - apply meetsb_meets. destruct p; cbn [kind_usable] in Hk; unfold startup_client.
    + destruct (client_tcp_n c), (client_udp_n c); try discriminate Hk. destruct m; reflexivity.
    + unfold vmess_client_security. destruct (vmess_security c); [|discriminate Hk]. destruct m; reflexivity.
    + destruct m; reflexivity.
  - destruct m; vm_compute; intros l [= <-]; split; reflexivity.
Qed.
Lemma server_mode_refused_by_client : forall p c m, readme_client_listeners m = None ->
  startup_client p c m = StartupError server_mode_msg /\ client_keeps_running m = false.
Proof. intros p c [] H; try discriminate H; split; reflexivity. Qed.

(* VMess client: the two documented ciphers select exactly their security; EVERY other kind (the five the README does not
   tick for VMess, and `Unknown` = no cipher given) is refused: on each TCP flow, on each UDP flow, and when the TCP
   listener's context is built -- never replaced by another cipher *)
Lemma vmess_cipher_exact : forall d c, In d readme_ciphers -> parse_cipher (dc_name d) = Some c ->
  forall net, In net ["tcp"; "udp"; "context"] ->
  vmess_client_security net c = if dc_vmess d then VSecurity (readme_vmess_security d) else VRefused.
Proof.
  intros d c Hd Hc net Hn. cbn in Hd, Hn.
  repeat (destruct Hd as [<-|Hd]; [vm_compute in Hc; injection Hc as <-; repeat (destruct Hn as [<-|Hn]; [reflexivity|]); destruct Hn|]).
  destruct Hd.
Qed.
Lemma vmess_other_kinds_refused : forall c, c <> CAes128Gcm -> c <> CChaCha20Poly1305 ->
  vmess_client_security "tcp" c = VRefused /\ vmess_client_security "udp" c = VRefused
  /\ forall m, fst (listeners_client m) = true -> exists msg, startup_client PVMess c m = StartupError msg.
Proof.
  intros c H1 H2. destruct c; try congruence; (split; [reflexivity|split; [reflexivity|]]);
    intros [] H; try discriminate H; eexists; reflexivity.
Qed.
Lemma documented_cipher_starts : forall d c p, In d readme_ciphers -> parse_cipher (dc_name d) = Some c ->
  kind_usable p c = readme_cipher_allowed p d.
Proof.
  intros d c p Hd Hc. cbn in Hd.
  repeat (destruct Hd as [<-|Hd]; [vm_compute in Hc; injection Hc as <-; destruct p; reflexivity|]). destruct Hd.
Qed.

(* sections other than `quic` never change the listener set *)
Lemma listeners_ignore_ssl_ws : forall p m ssl ws ssl' ws' quic,
  listeners_server p m ssl ws quic = listeners_server p m ssl' ws' quic.
Proof. intros [] [] [] [] [] [] []; reflexivity. Qed.

(* ------------------------------------------------------------------------------------------ *)
(* transports *)
Lemma transport_match_readme_tcp : forall ssl ws quic,
  transport_client ssl ws quic = Some (readme_sections_transport ssl ws quic)
  /\ transport_server_tcp ssl ws = Some (readme_sections_transport ssl ws false)
  /\ forall p, readme_tcp_transport p (readme_sections_transport ssl ws quic) = true.
Proof. intros [] [] []; repeat split; try reflexivity; intros []; reflexivity. Qed.
(* UDP: the transport used is a ticked cell of the README; the only combinations that yield no transport are a
   Trojan client without the `ssl` section (Trojan UDP exists over tls | wss | quic only): each such flow is refused
   with an error, never sent over another transport *)
Lemma transport_match_readme_udp : forall p ssl ws quic,
  match transport_client_udp p ssl ws quic with
  | UdpVia t => readme_udp_transport p t = true
                /\ (p <> PShadowsocks -> t = readme_sections_transport ssl ws quic)
  | UdpFlowError => p = PTrojan /\ ssl = false /\ quic = false
  | UdpNoArm => False
  end.
Proof. intros [] [] [] []; vm_compute; repeat split; try congruence; intros _; reflexivity. Qed.
Lemma transport_readme_udp_reachable : forall p t, readme_udp_transport p t = true ->
  exists ssl ws quic, transport_client_udp p ssl ws quic = UdpVia t.
Proof.
  intros [] [] H; try discriminate H.
  all: first [ exists false, false, false; reflexivity | exists true, false, false; reflexivity | exists false, true, false; reflexivity
             | exists true, true, false; reflexivity | exists false, false, true; reflexivity ].
Qed.

(* ------------------------------------------------------------------------------------------ *)
(* keys *)
Lemma key_size_dispatch_agrees : forall c,
  client_tcp_n c = client_udp_n c /\ client_tcp_n c = server_n c
  /\ match cipher_method c with
     | Ok a => client_tcp_n c = Some (cipher_key_size a)
     | _ => c = CUnknown /\ client_tcp_n c = None
     end.
Proof. intros []; vm_compute; repeat split. Qed.

Lemma length_refused_spec : forall len n, length_refused len n = negb (len =? n)%N.
Proof. reflexivity. Qed.
Lemma keys_separator_spec : keys_separator = ":"%char.
Proof. reflexivity. Qed.

Section KeyFacts.
  Variable P : prims.
  Variable b64 : string -> option bytes.

  (* every path calls the same function for the same kind: TCP and UDP, client and server *)
  Lemma key_path_uniform : forall c nt sd, key_path c nt sd = key_path c NetTcp OnClient.
  Proof. intros [] [] []; reflexivity. Qed.
  Lemma key_path_legacy : forall c nt sd, is_aead_2022 c = false -> key_path c nt sd = Some "openssl_bytes_to_key".
  Proof. intros [] [] [] H; try discriminate H; reflexivity. Qed.
  Lemma key_path_2022 : forall c nt sd, is_aead_2022 c = true -> key_path c nt sd = Some "config_password_to_keys".
  Proof. intros [] [] [] H; try discriminate H; reflexivity. Qed.

  Lemma legacy_key_same_on_tcp_udp : forall c sd n pw, is_aead_2022 c = false ->
    derive_key P b64 c NetTcp sd n pw = derive_key P b64 c NetUdp sd n pw
    /\ derive_key P b64 c NetUdp sd n pw =
       match openssl_bytes_to_key P n (bytes_of_string pw) with Ok k => KeyOk k [] | Err _ => KeyError | Panic => KeyPanic end.
  Proof.
    intros c sd n pw H. unfold derive_key. rewrite !(key_path_legacy c _ sd H). split; reflexivity.
  Qed.

  (* EVP_BytesToKey with a 16-byte digest: both key sizes in use are produced without a panic, for every password *)
  Hypothesis md5_len : forall m, lenN (p_md5 P m) = 16%N.
  Lemma openssl_bytes_to_key_16 : forall pw, openssl_bytes_to_key P 16 pw = Ok (p_md5 P pw).
  Proof.
    intros pw. unfold openssl_bytes_to_key. rewrite md5_len. cbn [N.min N.compare Pos.compare Pos.compare_cont N.eqb Pos.eqb].
    change (N.min 16 16) with 16%N. change (16 =? 16)%N with true. cbv iota.
    cbn [evp_loop N.to_nat]. change (16 <? 16)%N with false. reflexivity.
  Qed.
  Lemma openssl_bytes_to_key_32 : forall pw,
    openssl_bytes_to_key P 32 pw = Ok (p_md5 P pw ++ p_md5 P (p_md5 P pw ++ pw))%list.
  Proof.
    intros pw. unfold openssl_bytes_to_key. rewrite md5_len.
    change (N.min 32 16) with 16%N. change (16 =? 16)%N with true. cbv iota.
    set (d := p_md5 P pw). unfold evp_loop at 1. cbn [N.to_nat Pos.to_nat Pos.iter_op Nat.add]. fold evp_loop.
    change (16 <? 32)%N with true. cbv iota.
    change (Pos.to_nat 32) with 32%nat. cbv iota beta.
    rewrite md5_len. change (N.min 16 (32 - 16)) with 16%N. change (32 - 16 =? 16)%N with true. cbv iota.
    change (16 + 16)%N with 32%N.
    unfold evp_loop. change (32 <? 32)%N with false.
    pose proof (takeN_app_exact (p_md5 P (d ++ pw)) []) as T. rewrite app_nil_r, md5_len in T. rewrite T. reflexivity.
  Qed.
  Lemma legacy_password_never_refused : forall c sd nt n pw, is_aead_2022 c = false -> n = 16%N \/ n = 32%N ->
    exists k, derive_key P b64 c nt sd n pw = KeyOk k [] /\ lenN k = n.
  Proof.
    intros c sd nt n pw H Hn. unfold derive_key. rewrite (key_path_legacy c nt sd H). cbn [String.eqb].
    change ("openssl_bytes_to_key" =? "config_password_to_keys") with false.
    change ("openssl_bytes_to_key" =? "openssl_bytes_to_key") with true. cbv iota.
    destruct Hn as [-> | ->].
    - rewrite openssl_bytes_to_key_16. eexists; split; [reflexivity|apply md5_len].
    - rewrite openssl_bytes_to_key_32. eexists; split; [reflexivity|]. rewrite lenN_app, !md5_len. reflexivity.
  Qed.

  (* config_password_to_keys: every ':'-separated part decodes to exactly n bytes *)
  Lemma decode_keys_exact : forall n parts ks, decode_keys b64 n parts = Some ks ->
    Forall2 (fun s k => b64 s = Some k /\ lenN k = n) parts ks.
  Proof.
    intros n parts. induction parts as [|s r IH]; intros ks H; cbn [decode_keys] in H.
    - injection H as <-. constructor.
    - destruct (b64 s) as [k|] eqn:Es; [|discriminate]. rewrite length_refused_spec in H.
      destruct (lenN k =? n)%N eqn:El; [|discriminate]. cbn [negb] in H.
      destruct (decode_keys b64 n r) as [ks'|]; [|discriminate]. injection H as <-.
      constructor; [split; [exact Es|apply N.eqb_eq; exact El]|apply IH; reflexivity].
  Qed.
  Lemma key_length_exact : forall n pw k ik, config_password_to_keys b64 n pw = Some (k, ik) ->
    lenN k = n /\ Forall (fun x => lenN x = n) ik
    /\ forall s, In s (split_on ":"%char pw) -> exists k', b64 s = Some k' /\ lenN k' = n.
  Proof.
    intros n pw k ik H. unfold config_password_to_keys in H. rewrite keys_separator_spec in H.
    destruct (decode_keys b64 n (split_on ":"%char pw)) as [ks|] eqn:E; [|discriminate].
    pose proof (decode_keys_exact _ _ _ E) as F.
    assert (All : Forall (fun x => lenN x = n) ks).
    { clear -F. induction F as [|s x l l' [_ Hx] _ IH]; constructor; assumption. }
    destruct (rev ks) as [|last init_rev] eqn:Er; [discriminate|]. injection H as <- <-.
    assert (Hks : ks = (rev init_rev ++ [last])%list).
    { rewrite <- (rev_involutive ks), Er. reflexivity. }
    rewrite Hks in All. apply Forall_app in All. destruct All as [A1 A2].
    split; [inversion A2; assumption|]. split; [exact A1|].
    intros s Hs. clear -F Hs. induction F as [|s0 x l l' [H1 H2] _ IH]; [destruct Hs|].
    destruct Hs as [<-|Hs]; [exists x; split; assumption|exact (IH Hs)].
  Qed.
  (* ... so one part of the wrong length (or not base64 at all) refuses the whole password *)
  Lemma wrong_key_length_rejected : forall n pw s,
    In s (split_on ":"%char pw) -> (forall k, b64 s = Some k -> lenN k <> n) -> config_password_to_keys b64 n pw = None.
  Proof.
    intros n pw s Hs Hbad. destruct (config_password_to_keys b64 n pw) as [[k ik]|] eqn:E; [|reflexivity]. exfalso.
    destruct (key_length_exact _ _ _ _ E) as [_ [_ H]]. destruct (H s Hs) as [k' [H1 H2]]. exact (Hbad k' H1 H2).
  Qed.
  (* a 2022 kind uses exactly this function on all four paths *)
  Lemma key_2022_exact : forall c nt sd n pw k ik, is_aead_2022 c = true ->
    derive_key P b64 c nt sd n pw = KeyOk k ik -> lenN k = n /\ Forall (fun x => lenN x = n) ik.
  Proof.
    intros c nt sd n pw k ik H. unfold derive_key. rewrite (key_path_2022 c nt sd H).
    change ("config_password_to_keys" =? "config_password_to_keys") with true. cbv iota.
    destruct (config_password_to_keys b64 n pw) as [[k' ik']|] eqn:E; [|discriminate].
    intros [= <- <-]. destruct (key_length_exact _ _ _ _ E) as [A [B _]]. split; assumption.
  Qed.
  Lemma user_key_exact : forall n pw k, user_key b64 n pw = Some k -> lenN k = n.
  Proof.
    intros n pw k. unfold user_key. destruct (b64 pw) as [k'|]; [|discriminate].
    destruct (lenN k' =? n)%N eqn:E; [|discriminate]. intros [= <-]. apply N.eqb_eq. exact E.
  Qed.
End KeyFacts.

(* split_on never returns the empty list and keeps every character that is not the separator *)
Lemma split_on_nonempty : forall sep s, split_on sep s <> [].
Proof. intros sep s. induction s as [|c r IH]; cbn [split_on]; [discriminate|]. destruct (Ascii.eqb c sep); [discriminate|]. destruct (split_on sep r); [contradiction|discriminate]. Qed.

(* ------------------------------------------------------------------------------------------ *)
(* the documented credential format, per documented cipher, on every path *)
Section Credential.
  Variable P : prims.
  Variable b64 : string -> option bytes.
  Hypothesis md5_len : forall m, lenN (p_md5 P m) = 16%N.

  Lemma credential_format_exact : forall d c, In d readme_ciphers -> parse_cipher (dc_name d) = Some c ->
    forall nt sd pw,
      match dc_credential d with
      | OrdinaryPassword =>
        (* any text is accepted, and TCP and UDP derive the same key from it *)
        (exists k, derive_key P b64 c nt sd (dc_key_len d) pw = KeyOk k [] /\ lenN k = dc_key_len d)
        /\ derive_key P b64 c NetTcp sd (dc_key_len d) pw = derive_key P b64 c NetUdp sd (dc_key_len d) pw
      | Base64Key len =>
        len = dc_key_len d
        /\ (forall k ik, derive_key P b64 c nt sd len pw = KeyOk k ik -> lenN k = len /\ Forall (fun x => lenN x = len) ik)
        /\ (derive_key P b64 c nt sd len pw = KeyError \/ exists k ik, derive_key P b64 c nt sd len pw = KeyOk k ik)
      end.
  Proof.
    intros d c Hd Hc nt sd pw. destruct (names_complete_and_exact_cipher d Hd) as [c' [pr S]].
    rewrite (sel_parse _ _ _ S) in Hc. injection Hc as <-.
    assert (H22 : is_aead_2022 c' = dc_2022 d).
    { pose proof (sel_params _ _ _ S) as Hp. unfold kind_params in Hp.
      destruct (kind_n c'); [|discriminate]. destruct (tag_size c'); try discriminate. destruct (cipher_method c'); try discriminate.
      injection Hp as <-. exact (sel_2022 _ _ _ S). }
    assert (Hlen : dc_key_len d = 16%N \/ dc_key_len d = 32%N).
    { clear -Hd. cbn in Hd. repeat (destruct Hd as [<-|Hd]; [cbn; tauto|]). destruct Hd. }
    unfold dc_credential. destruct (dc_2022 d) eqn:E.
    - split; [reflexivity|]. split.
      + intros k ik Hk. exact (key_2022_exact P b64 c' nt sd _ pw k ik H22 Hk).
      + unfold derive_key. rewrite (key_path_2022 c' nt sd H22).
        change ("config_password_to_keys" =? "config_password_to_keys") with true. cbv iota.
        destruct (config_password_to_keys b64 (dc_key_len d) pw) as [[k ik]|]; [right; eauto|left; reflexivity].
    - split.
      + exact (legacy_password_never_refused P b64 md5_len c' sd nt _ pw H22 Hlen).
      + exact (proj1 (legacy_key_same_on_tcp_udp P b64 c' sd _ pw H22)).
  Qed.
End Credential.

(* ------------------------------------------------------------------------------------------ *)
(* non-vacuity: instances *)
Definition toy_prims : prims := {|
  p_seal := fun _ _ _ _ m => m; p_open := fun _ _ _ _ c => Some c; p_hkdf_sha1 := fun _ _ _ _ => [];
  p_b3derive := fun _ _ => []; p_b3hash := fun x => x; p_aes_enc := fun _ b => b; p_aes_dec := fun _ b => b;
  p_md5 := fun m => takeN 16 (m ++ repeat 7%N 16); p_sha224 := fun x => x; p_sha256 := fun x => x;
  p_shake128 := fun _ _ => []; p_crc32 := fun _ => 0%N |}.
Lemma toy_md5_len : forall m, lenN (p_md5 toy_prims m) = 16%N.
Proof.
  intros m. cbn [p_md5 toy_prims]. apply lenN_takeN. rewrite lenN_app.
  change (lenN (repeat 7%N 16)) with 16%N. lia.
Qed.
