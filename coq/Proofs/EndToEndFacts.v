(* C01 capstone: one whole TCP flow (Model/EndToEnd.v) is byte-transparent, by COMPOSITION of the codec, transport,
   pump, exit-path and handshake facts.  Nothing here is `_partial` and nothing was refuted (see the end of this comment).

   A. transports      transport_run_segments      a WebSocket delivery = a stream delivery of the message payloads
                                                  (ws_run_is_framed_run); transport_ws_same_as_stream
                      run_app, run_items_prefix   what has been decoded at any time is a prefix of the final item list
                      first_read_ok_first_big     a first segment holding salt + fixed header satisfies the Shadowsocks-2022
                                                  first-read condition (first_read_ok, Model/EndToEnd.v)
   B. pumps           Pumps.pump_reads_prefix / pump_delivered_prefix / pump_closed_delivers_all: Model/Relay fed by a stream
                      that yields given items (feeds, no_stream_error); pumps_deliver packages them (delivered_exactly_once)
   C. per protocol    request_transparent / answer_transparent: any writes, any delivery
                      e2e_request_trojan, e2e_answer_trojan                          (TrojanFacts.trojan_header_segmentation)
                      e2e_request_ss2022 / _sslegacy / _ss2022_identity, e2e_answer_*  (SsTcpStreamReq / SsTcpStreamResp)
                      e2e_request_vmess, e2e_answer_vmess                              (VmessStream)
   D. whole flow      proto_ok, req_delivery_ok, ans_delivery_ok, info_of; proto_request_transparent, proto_answer_transparent
                      own_ws_request_delivery_ok / own_ws_answer_delivery_ok   (the encoder's own WebSocket messages need no
                                                                                first-read hypothesis)
                      flow_side_ok, flow_ok, c01_flow_transparent             THE summary theorem
                      e2e_ws_same_as_stream                                   the transport does not matter
                      flow_request_exact, flow_answer_exact                   codecs + pumps
                      e2e_target_exact_<p>, e2e_request_bytes_exact_<p>, e2e_response_bytes_exact_<p>
                                                                              p = trojan | vmess | sslegacy | ss2022 | ss2022_identity
                      e2e_target_closes_after_answering                       + ExitPathFacts
                      c01_socks5_connect_flow, c01_http_connect_flow (+ _host_port), c01_plain_http_flow (+ _default_port)
                      handshake_target_acceptable, c01_flow_transparent_bytes
                      *_meaning                                               the bundled hypotheses spelled out (for the pins)
   E. Module E2EExamples   one concrete flow per protocol family (toy primitives): every hypothesis of flow_ok discharged,
                      the flow evaluated by vm_compute; ss22_first_read_needed: the first-read condition is a genuine hypothesis.

   Composition steps that were checked for refutation and hold for the faithful models: the EMPTY first message of
   relay_tcp_then yields ConnectTcp [] target in every protocol (Shadowsocks: header with an empty payload and padding;
   VMess: the sealed header alone; Trojan: the head alone) and an empty payload0 is what the server sends first to the
   target; early data behind the local handshake stays in the stream and is relayed; VMess TCP flows are in stream mode
   (rh_cmd = CmdTcp) in both directions; the two directions of a Shadowsocks connection share only the codec RECORD. *)
From Coq Require Import NArith List Bool Lia Arith ZifyBool ZifyN ZifyNat.
From Octo Require Import Base.Bytes Crypto.Prims Lib.Framed Lib.WsFramed Model.Address Model.SsChunk Model.SsTcp
                         Model.Trojan Model.Vmess Model.Handshake Model.EndToEnd.
From Octo Require Import Model.Socks5 Model.Http Proofs.AddressFacts Proofs.WsFramedFacts Proofs.TrojanFacts Proofs.SsTcpSafety Proofs.VmessRoundtrip
                         Proofs.HttpFacts Proofs.HandshakeFacts.
From Octo Require Import Proofs.SsTcpStreamReq Proofs.SsTcpStreamResp Proofs.VmessStream.
From Octo Require Model.Relay Proofs.RelayFacts Generated.ExitPaths Model.ExitPaths Proofs.ExitPathFacts.
From Octo Require Proofs.SsTcpRoundtrip Proofs.VmessSafety Proofs.VmessFacts.
Import ListNotations.
Open Scope N_scope.

(* ============================================================================================= *)
(* A. transports                                                                                   *)
(* ============================================================================================= *)
Section Transport.
  Variables St Item : Type.
  Variable dec : St -> bytes -> res (St * bytes * option Item).

  (* every delivery is a FramedRead run over its segments: for a WebSocket the message payloads (control messages
     and empty messages count as empty segments) *)
  Theorem transport_run_segments : (forall s, dec s [] = Ok (s, [], None)) ->
    forall s0 d, transport_run dec s0 d = Framed.run St Item dec s0 [] (delivered_segments d) [].
  Proof.
    intros He s0 [segs|msgs]; cbn [transport_run delivered_segments]; [reflexivity|].
    apply ws_run_is_framed_run. exact He.
  Qed.

  (* the same result whichever transport carries the same segments *)
  Corollary transport_ws_same_as_stream : (forall s, dec s [] = Ok (s, [], None)) ->
    forall s0 msgs, transport_run dec s0 (DWs msgs) = transport_run dec s0 (DStream (map ws_payload msgs)).
  Proof. intros He s0 msgs. rewrite (transport_run_segments He). reflexivity. Qed.

  Lemma run_acc : forall segs s buf acc,
    Framed.run St Item dec s buf segs acc =
    let '(s', b', items, st) := Framed.run St Item dec s buf segs [] in (s', b', acc ++ items, st).
  Proof.
    induction segs as [|seg t IH]; intros s buf acc; cbn [Framed.run].
    - rewrite app_nil_r. reflexivity.
    - destruct (Framed.feed St Item dec s buf seg) as [[[s1 b1] i1] [| | |]]; cbn [app]; try reflexivity.
      rewrite (IH s1 b1 (acc ++ i1)), (IH s1 b1 i1).
      destruct (Framed.run St Item dec s1 b1 t []) as [[[s2 b2] i2] st2]. rewrite app_assoc. reflexivity.
  Qed.

  (* arrival in two instalments *)
  Lemma run_app : forall segs1 segs2 s buf acc,
    Framed.run St Item dec s buf (segs1 ++ segs2) acc =
    match Framed.run St Item dec s buf segs1 acc with
    | (s1, b1, items1, Waiting) => Framed.run St Item dec s1 b1 segs2 items1
    | r => r
    end.
  Proof.
    induction segs1 as [|seg t IH]; intros segs2 s buf acc; cbn [app Framed.run]; [reflexivity|].
    destruct (Framed.feed St Item dec s buf seg) as [[[s1 b1] i1] [| | |]]; try reflexivity. apply IH.
  Qed.

  (* at any time: what has been released after the first segments is a prefix of what is released in the end *)
  Theorem run_items_prefix : forall segs1 segs2 s buf sf bf items st,
    Framed.run St Item dec s buf (segs1 ++ segs2) [] = (sf, bf, items, st) ->
    exists s1 b1 items1 st1 more,
      Framed.run St Item dec s buf segs1 [] = (s1, b1, items1, st1) /\ items = items1 ++ more.
  Proof.
    intros segs1 segs2 s buf sf bf items st H. rewrite run_app in H.
    destruct (Framed.run St Item dec s buf segs1 []) as [[[s1 b1] items1] st1] eqn:E1.
    exists s1, b1, items1, st1.
    destruct st1.
    - rewrite run_acc in H. destruct (Framed.run St Item dec s1 b1 segs2 []) as [[[s2 b2] i2] st2].
      injection H as _ _ <- _. exists i2. auto.
    - injection H as _ _ <- _. exists []. rewrite app_nil_r. auto.
    - injection H as _ _ <- _. exists []. rewrite app_nil_r. auto.
    - injection H as _ _ <- _. exists []. rewrite app_nil_r. auto.
  Qed.
End Transport.

(* ---- the Shadowsocks-2022 first-read condition ---- *)
Lemma arrivals_ge : forall segs acc, Forall (fun m => acc <= m) (arrivals acc segs).
Proof.
  induction segs as [|s t IH]; intros acc; cbn [arrivals]; constructor; [lia|].
  eapply Forall_impl; [|apply (IH (acc + lenN s))]. cbn beta. intros m Hm. lia.
Qed.

(* a sufficient condition: leading empty segments, then ONE segment that holds salt and fixed header
   (the encoder's first message does: a WebSocket delivers it whole; on a stream it is the usual first read) *)
Lemma first_read_ok_first_big : forall n hl pre big rest,
  0 < n -> Forall (fun s => s = []) pre -> n + hl <= lenN big -> first_read_ok n hl (pre ++ big :: rest).
Proof.
  intros n hl pre big rest Hn Hpre Hbig. unfold first_read_ok.
  assert (G : forall acc, acc = 0 -> Forall (fun m => m < n \/ n + hl <= m) (arrivals acc (pre ++ big :: rest))).
  { induction Hpre as [|s pre Hs Hpre IH]; intros acc ->.
    - cbn [app arrivals]. constructor; [right; lia|].
      eapply Forall_impl; [|apply arrivals_ge]. cbn beta. intros m Hm. right. lia.
    - subst s. cbn [app arrivals]. rewrite lenN_nil. constructor; [left; lia|]. apply IH. lia. }
  apply G. reflexivity.
Qed.
Lemma first_read_ok_all_empty : forall n hl segs, 0 < n -> Forall (fun s => s = []) segs -> first_read_ok n hl segs.
Proof.
  intros n hl segs Hn H. unfold first_read_ok.
  assert (G : forall acc, acc = 0 -> Forall (fun m => m < n \/ n + hl <= m) (arrivals acc segs)).
  { induction H as [|s t Hs Ht IH]; intros acc ->; cbn [arrivals]; [constructor|].
    subst s. rewrite lenN_nil. constructor; [left; lia|]. apply IH. lia. }
  apply G. reflexivity.
Qed.
Lemma first_read_okb_ok n hl segs : first_read_okb n hl segs = true -> first_read_ok n hl segs.
Proof.
  unfold first_read_okb, first_read_ok. rewrite forallb_forall, Forall_forall. intros H m Hm.
  specialize (H m Hm). apply orb_true_iff in H. destruct H as [H|H]; [left; apply N.ltb_lt, H|right; apply N.leb_le, H].
Qed.

(* the encoder's own messages over a WebSocket (noise in between allowed): the payload list *)
Lemma concat_map_ws_data msgs : concat (map ws_payload (map WsData msgs)) = concat msgs.
Proof. rewrite map_map. cbn [ws_payload]. rewrite map_id. reflexivity. Qed.
Lemma delivered_ws_of_msgs msgs : delivered_bytes (ws_of_msgs msgs) = concat msgs.
Proof. unfold delivered_bytes, ws_of_msgs, delivered_segments. apply concat_map_ws_data. Qed.
Lemma delivered_segments_ws_of_msgs msgs : delivered_segments (ws_of_msgs msgs) = msgs.
Proof. unfold ws_of_msgs, delivered_segments. rewrite map_map. cbn [ws_payload]. apply map_id. Qed.

(* ============================================================================================= *)
(* B. the pumps of Model/Relay.v fed by a stream of given items                                    *)
(* ============================================================================================= *)
Module Pumps.
  Import Relay RelayFacts.

  Definition opening_part (d : dir) (first : bytes) : bytes := match d with AB => first | BA => [] end.

  Lemma feeds_firstn : forall les items j, feeds items les -> feeds items (firstn j les).
  Proof.
    induction les as [|e t IH]; intros items j H; [destruct j; exact I|].
    destruct j as [|j]; [exact I|]. cbn [firstn].
    destruct e; cbn [feeds] in *; try (apply IH; exact H); try exact H.
    destruct items as [|i rest]; [contradiction|]. destruct H as [-> H]. split; [reflexivity|]. apply IH, H.
  Qed.
  Lemma no_stream_error_firstn : forall les j, no_stream_error les -> no_stream_error (firstn j les).
  Proof.
    unfold no_stream_error. induction les as [|e t IH]; intros j H; [destruct j; constructor|].
    destruct j as [|j]; [constructor|]. cbn [firstn]. inversion H; subst. constructor; [assumption|apply IH; assumption].
  Qed.

  Lemma proj_firstn : forall d evs k, exists j, proj d (firstn k evs) = firstn j (proj d evs).
  Proof.
    intros d evs. induction evs as [|e t IH]; intros k.
    - exists O. destruct k; reflexivity.
    - destruct k as [|k]; [exists O; reflexivity|]. cbn [firstn]. destruct (IH k) as [j Hj].
      destruct e as [| |d' le]; cbn [proj]; try (exists j; exact Hj).
      destruct (dir_eqb d d'); [exists (S j); cbn [firstn]; rewrite Hj; reflexivity|exists j; exact Hj].
  Qed.

  (* a lane in Closing never reads again *)
  Lemma lrun_closing_rd : forall les l, pump l = Closing -> rd (lrun l les) = rd l /\ pump (lrun l les) = Closing.
  Proof.
    induction les as [|e t IH]; intros l Hc; [auto|].
    cbn [lrun fold_left]. destruct (lstep_closing_rd l e Hc) as [H1 H2].
    destruct (IH (fst (lstep l e)) H2) as [H3 H4]. unfold lrun in H3, H4. rewrite H3, H4, H1. auto.
  Qed.

  (* one pump step, as far as `rd` and `pump` are concerned *)
  Lemma lstep_running l e : pump l = Running ->
    rd (fst (lstep l e)) = match e with LRead bs => rd l ++ bs | _ => rd l end /\
    pump (fst (lstep l e)) = match e with LEof | LFilteredErr true => Closing | _ => Running end.
  Proof. intros Pl. destruct e as [bs| | |[|]|n| |]; unfold lstep; rewrite ?Pl; cbn [fst rd pump]; auto. Qed.

  (* what a pump has read is the concatenation of the first k items *)
  Lemma lrun_reads_prefix : forall les l items, feeds items les ->
    exists k, rd (lrun l les) = rd l ++ concat (firstn k items).
  Proof.
    induction les as [|e t IH]; intros l items H.
    - exists O. cbn. rewrite app_nil_r. reflexivity.
    - destruct (pump l) eqn:Pl.
      2:{ exists O. cbn [firstn concat]. rewrite app_nil_r. apply (lrun_closing_rd (e :: t) l Pl). }
      change (lrun l (e :: t)) with (lrun (fst (lstep l e)) t).
      destruct (lstep_running l e Pl) as [Hr Hp].
      destruct e as [bs| | |ends|n| |]; cbn [feeds] in H.
      + destruct items as [|i rest]; [contradiction|]. destruct H as [-> H].
        destruct (IH (fst (lstep l (LRead i))) rest H) as [k Hk].
        exists (S k). rewrite Hk, Hr. cbn [firstn concat]. rewrite <- app_assoc. reflexivity.
      + exists O. cbn [firstn concat]. rewrite app_nil_r.
        destruct (lrun_closing_rd t _ Hp) as [H1 _]. rewrite H1, Hr. reflexivity.
      + destruct (IH (fst (lstep l LStreamErr)) items H) as [k Hk]. exists k. rewrite Hk, Hr. reflexivity.
      + destruct ends.
        * exists O. cbn [firstn concat]. rewrite app_nil_r.
          destruct (lrun_closing_rd t _ Hp) as [H1 _]. rewrite H1, Hr. reflexivity.
        * destruct (IH (fst (lstep l (LFilteredErr false))) items H) as [k Hk]. exists k. rewrite Hk, Hr. reflexivity.
      + destruct (IH (fst (lstep l (LWrite n))) items H) as [k Hk]. exists k. rewrite Hk, Hr. reflexivity.
      + destruct (IH (fst (lstep l LShut)) items H) as [k Hk]. exists k. rewrite Hk, Hr. reflexivity.
      + destruct (IH (fst (lstep l LWriteErr)) items H) as [k Hk]. exists k. rewrite Hk, Hr. reflexivity.
  Qed.

  (* a pump that reached Closing without a stream error has read ALL items *)
  Lemma lrun_closing_reads_all : forall les l items, feeds items les -> no_stream_error les ->
    pump l = Running -> pump (lrun l les) = Closing -> rd (lrun l les) = rd l ++ concat items.
  Proof.
    induction les as [|e t IH]; intros l items H He Pl Hc.
    - cbn in Hc. congruence.
    - change (lrun l (e :: t)) with (lrun (fst (lstep l e)) t) in *.
      inversion He as [|e' t' He1 He2]; subst.
      destruct (lstep_running l e Pl) as [Hr Hp].
      destruct e as [bs| | |ends|n| |]; cbn [feeds] in H; try contradiction.
      + destruct items as [|i rest]; [contradiction|]. destruct H as [-> H].
        rewrite (IH _ rest H He2 Hp Hc), Hr. cbn [concat]. rewrite <- app_assoc. reflexivity.
      + subst items. cbn [concat]. rewrite app_nil_r.
        destruct (lrun_closing_rd t _ Hp) as [H1 _]. rewrite H1, Hr. reflexivity.
      + rewrite (IH _ items H He2 Hp Hc), Hr. reflexivity.
      + rewrite (IH _ items H He2 Hp Hc), Hr. reflexivity.
      + rewrite (IH _ items H He2 Hp Hc), Hr. reflexivity.
  Qed.

  Definition lane_opened (d : dir) (first : bytes) : lane :=
    {| rd := opening_part d first; inf := []; del := opening_part d first; shut := false; pump := Running |}.
  Lemma lane_after_open first d : lane_of d (step (init first) OpenOk) = lane_opened d first.
  Proof. destruct d; reflexivity. Qed.

  Lemma run_open first evs : run (init first) (OpenOk :: evs) = run (step (init first) OpenOk) evs.
  Proof. reflexivity. Qed.

  (* P-B1: at any time, what the pump of direction d has taken from its stream is the opening message (AB) followed by
     the first k items the stream yields *)
  Theorem pump_reads_prefix : forall first evs d items,
    feeds items (proj d evs) ->
    exists k, rd (lane_of d (run (init first) (OpenOk :: evs))) = opening_part d first ++ concat (firstn k items).
  Proof.
    intros first evs d items H. rewrite run_open.
    destruct (directions_independent_upto_end evs (step (init first) OpenOk) d eq_refl) as (k & _ & Hk & _).
    rewrite Hk, lane_after_open. destruct (proj_firstn d evs k) as [j Hj]. rewrite Hj.
    destruct (lrun_reads_prefix (firstn j (proj d evs)) (lane_opened d first) items (feeds_firstn _ _ j H)) as [k' Hk'].
    exists k'. exact Hk'.
  Qed.

  (* P-B2: ... and what has been delivered to the other side is a prefix of that *)
  Theorem pump_delivered_prefix : forall first evs d items,
    feeds items (proj d evs) ->
    exists rest, opening_part d first ++ concat items = del (lane_of d (run (init first) (OpenOk :: evs))) ++ rest.
  Proof.
    intros first evs d items H. destruct (pump_reads_prefix first evs d items H) as [k Hk].
    pose proof (delivered_plus_inflight first (OpenOk :: evs) d) as Hd. cbv zeta in Hd.
    exists (inf (lane_of d (run (init first) (OpenOk :: evs))) ++ concat (skipn k items)).
    rewrite app_assoc, <- Hd, Hk, <- app_assoc, <- concat_app, firstn_skipn. reflexivity.
  Qed.

  (* P-B3: the flow ended because the pump of direction d completed (its stream ended without an error): everything
     the stream yielded was delivered, in order, once, and the destination was shut down in order afterwards *)
  Theorem pump_closed_delivers_all : forall first evs d items,
    feeds items (proj d evs) -> no_stream_error (proj d evs) ->
    let f := run (init first) (OpenOk :: evs) in
    ph f = Done (Some d) Closed ->
    del (lane_of d f) = opening_part d first ++ concat items /\ inf (lane_of d f) = [] /\ shut (lane_of d f) = true.
  Proof.
    intros first evs d items H He f Hd.
    destruct (eof_delivers_all first (OpenOk :: evs) d Hd) as (H1 & H2 & H3 & _). fold f in H1, H2, H3.
    split; [|auto]. rewrite H1.
    pose proof (run_eof (OpenOk :: evs) [] (init first) (init_eof first) d) as (_ & Hs & _).
    fold f in Hs. destruct (Hs H3) as (Hp & _).
    unfold f in *. rewrite run_open in *.
    destruct (directions_independent_upto_end evs (step (init first) OpenOk) d eq_refl) as (k & _ & Hk & _).
    rewrite Hk in *. rewrite lane_after_open in *. destruct (proj_firstn d evs k) as [j Hj]. rewrite Hj in *.
    exact (lrun_closing_reads_all (firstn j (proj d evs)) (lane_opened d first) items (feeds_firstn _ _ j H)
             (no_stream_error_firstn _ j He) eq_refl Hp).
  Qed.
End Pumps.

Print Assumptions transport_run_segments.
Print Assumptions run_items_prefix.
Print Assumptions Pumps.pump_reads_prefix.
Print Assumptions Pumps.pump_delivered_prefix.
Print Assumptions Pumps.pump_closed_delivers_all.

(* ============================================================================================= *)
(* C. per protocol: both directions of the tunnel, any writes, any delivery                        *)
(* ============================================================================================= *)
(* what a direction has to deliver.  okd = the protocol's condition on the delivery (Shadowsocks 2022: first read) *)
Definition request_transparent (P : prims) (cfg : proto_cfg) (target : addr) (ws : list bytes) (info : srv_info)
           (okd : delivery -> Prop) : Prop :=
  exists msgs, req_msgs P cfg target ws = Ok msgs /\
    forall d, delivered_bytes d = concat msgs -> okd d ->
      exists ps, req_serve P cfg d = Some (target, ps, info) /\ concat ps = concat ws.
Definition answer_transparent (P : prims) (cfg : proto_cfg) (target : addr) (info : srv_info) (ts : list bytes)
           (okd : delivery -> Prop) : Prop :=
  exists msgs, ans_msgs P cfg info ts = Ok msgs /\
    forall d, delivered_bytes d = concat msgs -> okd d ->
      exists items, ans_recv P cfg target d = Some items /\ concat items = concat ts.

Lemma relay_payloads_map relays : relay_payloads (map RelayTcp relays) = Some relays.
Proof. induction relays as [|r t IH]; [reflexivity|]. cbn [map relay_payloads]. rewrite IH. reflexivity. Qed.

Lemma server_view_connect {St : Type} (st : St) first a relays :
  server_view (st, [], ConnectTcp first a :: map RelayTcp relays, Waiting) = Some (a, first :: relays).
Proof. cbn [server_view]. rewrite relay_payloads_map. reflexivity. Qed.

Lemma encode_msgs_ok_inv {E : Type} (enc : E -> bytes -> res (E * bytes)) e ws e' ms :
  encode_msgs enc e ws = Ok (e', ms) -> length ms = length ws.
Proof.
  revert e e' ms. induction ws as [|w t IH]; intros e e' ms H; cbn [encode_msgs] in H.
  - injection H as <- <-. reflexivity.
  - destruct (enc e w) as [[e1 m]|er|]; cbn [bind] in H; try discriminate.
    destruct (encode_msgs enc e1 t) as [[e2 ms2]|er|] eqn:Hrec; cbn [bind] in H; try discriminate.
    injection H as <- <-. cbn [length]. f_equal. eapply IH. exact Hrec.
Qed.

(* ---------------------------------------- Trojan ---------------------------------------- *)
Section TrojanFlow.
  Variable P : prims.
  Variable c : tj_cfg.
  Hypothesis sha_wf : wf_bytes (p_sha224 P (tj_pw c)).
  Hypothesis sha_len : lenN (p_sha224 P (tj_pw c)) = 28.
  Hypothesis key_ok : tj_key c = trojan_key P (tj_pw c).      (* the server is configured with the client's password *)

  Lemma tj_client_msgs target : forall ws in_body,
    encode_msgs (tj_client_enc P c target) in_body ws =
    Ok (match ws with [] => in_body | _ => true end,
        match ws with
        | [] => []
        | w :: t => (if in_body then w else trojan_client_head P (tj_pw c) 1 target ++ w) :: t
        end).
  Proof.
    induction ws as [|w t IH]; intros in_body; [reflexivity|].
    cbn [encode_msgs tj_client_enc bind]. rewrite IH. cbn [bind]. destruct t; reflexivity.
  Qed.

  Theorem e2e_request_trojan : forall target ws, addr_wf target -> representable target -> ws <> [] ->
    request_transparent P (CTrojan c) target ws SiTrojan (fun _ => True).
  Proof.
    intros target ws Hwf Hrep Hne. destruct ws as [|w t]; [contradiction|].
    unfold request_transparent, req_msgs. rewrite tj_client_msgs. cbn [bind].
    eexists. split; [reflexivity|]. intros d Hd _. cbn [concat] in Hd. rewrite <- app_assoc in Hd.
    unfold req_serve. rewrite (transport_run_segments _ _ _ (trojan_server_decode_empty (tj_key c))).
    rewrite key_ok.
    destruct (trojan_header_segmentation P (tj_pw c) sha_wf sha_len target (w ++ concat t) (delivered_segments d) Hwf Hrep Hd)
      as (first & relays & HR & Hb).
    rewrite HR, server_view_connect. exists (first :: relays). split; [reflexivity|]. exact Hb.
  Qed.

  Lemma tj_server_msgs : forall ts e, encode_msgs tj_server_enc e ts = Ok (e, ts).
  Proof. induction ts as [|w t IH]; intros e; [reflexivity|]. cbn [encode_msgs tj_server_enc bind]. rewrite IH. reflexivity. Qed.

  Lemma tj_client_run : forall segs acc,
    Framed.run _ _ tj_client_dec tt [] segs acc = (tt, [], acc ++ filter nonnil segs, Waiting).
  Proof.
    induction segs as [|seg t IH]; intros acc.
    - cbn [Framed.run filter]. rewrite app_nil_r. reflexivity.
    - cbn [Framed.run]. unfold Framed.feed. cbn [app]. destruct seg as [|x xs].
      + cbn [length Nat.add Framed.drain tj_client_dec]. rewrite app_nil_r. cbn [filter nonnil]. apply IH.
      + cbn [length Nat.add Framed.drain tj_client_dec app]. rewrite IH. cbn [filter nonnil]. rewrite <- app_assoc. reflexivity.
  Qed.

  Theorem e2e_answer_trojan : forall target ts, answer_transparent P (CTrojan c) target SiTrojan ts (fun _ => True).
  Proof.
    intros target ts. unfold answer_transparent, ans_msgs. rewrite tj_server_msgs. cbn [bind].
    exists ts. split; [reflexivity|]. intros d Hd _. unfold ans_recv.
    rewrite (transport_run_segments _ _ tj_client_dec); [|intros []; reflexivity].
    rewrite tj_client_run. cbn [client_view app]. eexists. split; [reflexivity|].
    rewrite concat_filter_nonnil. exact Hd.
  Qed.
End TrojanFlow.

(* ---------------------------------------- Shadowsocks ---------------------------------------- *)
Lemma ss_sdec_empty P cx now st : ss_sdec P cx now st [] = Ok (st, [], None).
Proof. destruct st as [[[cache s] cd] ib]. unfold ss_sdec. rewrite server_decode_empty. reflexivity. Qed.
Lemma ss_cdec_empty P cx now st : ss_cdec P cx now st [] = Ok (st, [], None).
Proof. destruct st as [[cache s] cd]. reflexivity. Qed.

Section ShadowsocksFlow.
  Variable P : prims.
  Hypothesis HL : prim_laws P.
  Hypothesis Hb3 : forall c m, lenN (p_b3derive P c m) = 32.
  Hypothesis Hhk : forall i s info n, lenN (p_hkdf_sha1 P i s info n) = n.

  (* the session the server holds once it has decoded the request header *)
  Definition ss_info_2022 (c : ss_cfg) (target : addr) : srv_info :=
    SiSs (set_addr (set_req_salt (ss_server_session c) (Some (ss_csalt c))) (Some target)).
  Definition ss_info_legacy (c : ss_cfg) (target : addr) : srv_info :=
    SiSs (set_addr (ss_server_session c) (Some target)).

  (* the two ends are configured alike: same cipher kind, same key, no identity keys, no (or an empty) user table *)
  Definition ss_plain_cfg (c : ss_cfg) (k : kind) (key : bytes) : Prop :=
    ss_cxc c = {| c_kind := k; c_key := key; c_ikeys := []; c_users := None |} /\
    exists cu, ss_cxs c = {| c_kind := k; c_key := key; c_ikeys := []; c_users := cu |} /\ (cu = None \/ cu = Some []).

  Theorem e2e_request_ss2022 : forall (c : ss_cfg) k key target ws,
    ss_plain_cfg c k key -> is_2022 k = true -> lenN (ss_csalt c) = kind_n k ->
    addr_wf target -> representable target -> lenN (ss_cpad c) <= 900 -> ss_cnow c < 2^64 ->
    abs_diff (ss_snow c) (ss_cnow c) <= 30 -> mem_salt (ss_scache c) (ss_csalt c) = false -> ws <> [] ->
    request_transparent P (CShadowsocks c) target ws (ss_info_2022 c target)
                        (fun d => first_read_ok (kind_n k) 27 (delivered_segments d)).
  Proof.
    intros c k key target ws (Hc & cu & Hs & Hcu) Hk Hsalt Hwf Hrep Hpad Hnow Hclk Hfresh Hne.
    destruct (ss2022_request_stream P HL Hb3 Hhk k key (ss_csalt c) target (ss_cpad c) (ss_cnow c) (ss_snow c) (ss_scache c)
                (ss_ssalt c) None None cu ws Hk Hsalt Hwf Hrep Hpad Hnow Hclk Hfresh Hcu Hne)
      as (cdf & msgs & Henc & _ & Hrun).
    unfold request_transparent, req_msgs. exists msgs. split.
    { unfold ss_client_enc, ss_client_session. rewrite Hc. rewrite Henc. reflexivity. }
    intros d Hd Hfr. unfold req_serve. rewrite (transport_run_segments _ _ _ (ss_sdec_empty P (ss_cxs c) (ss_snow c))).
    rewrite Hs. destruct (Hrun (delivered_segments d) Hd Hfr) as (first & relays & stf & HR & Hb & Hsess).
    unfold ss_server_session. rewrite HR, server_view_connect. unfold run_state. cbn [fst].
    exists (first :: relays). split; [|exact Hb]. unfold ss_info_2022, ss_server_session. rewrite Hsess. reflexivity.
  Qed.

  Theorem e2e_request_sslegacy : forall (c : ss_cfg) k key target ws,
    ss_plain_cfg c k key -> is_2022 k = false -> lenN (ss_csalt c) = kind_n k ->
    addr_wf target -> representable target -> ws <> [] ->
    request_transparent P (CShadowsocks c) target ws (ss_info_legacy c target) (fun _ => True).
  Proof.
    intros c k key target ws (Hc & cu & Hs & Hcu) Hk Hsalt Hwf Hrep Hne.
    destruct (sslegacy_request_stream P HL Hb3 Hhk k key (ss_csalt c) target (ss_cpad c) (ss_cnow c) (ss_snow c) (ss_scache c)
                (ss_ssalt c) None None cu ws Hk Hsalt Hwf Hrep Hne)
      as (cdf & msgs & Henc & Hrun).
    unfold request_transparent, req_msgs. exists msgs. split.
    { unfold ss_client_enc, ss_client_session. rewrite Hc. rewrite Henc. reflexivity. }
    intros d Hd _. unfold req_serve. rewrite (transport_run_segments _ _ _ (ss_sdec_empty P (ss_cxs c) (ss_snow c))).
    rewrite Hs. destruct (Hrun (delivered_segments d) Hd) as (first & relays & stf & HR & Hb & Hsess).
    unfold ss_server_session. rewrite HR, server_view_connect. unfold run_state. cbn [fst].
    exists (first :: relays). split; [|exact Hb]. unfold ss_info_legacy, ss_server_session. rewrite Hsess. reflexivity.
  Qed.

  Theorem e2e_answer_ss2022 : forall (c : ss_cfg) k key target ts,
    ss_plain_cfg c k key -> is_2022 k = true -> lenN (ss_ssalt c) = kind_n k -> lenN (ss_csalt c) = kind_n k ->
    ss_snow2 c < 2^64 -> abs_diff (ss_cnow2 c) (ss_snow2 c) <= 30 -> mem_salt (ss_ccache c) (ss_ssalt c) = false ->
    answer_transparent P (CShadowsocks c) target (ss_info_2022 c target) ts
                       (fun d => first_read_ok (kind_n k) (1 + 8 + kind_n k + 2 + 16) (delivered_segments d)).
  Proof.
    intros c k key target ts (Hc & cu & Hs & Hcu) Hk Hss Hcs Hnow Hclk Hfresh.
    destruct (ss2022_response_stream P HL Hb3 Hhk k key (ss_ssalt c) (ss_csalt c) (ss_snow2 c) (ss_cnow2 c) (ss_ccache c)
                [] [] cu None None (Some target) (Some target) None None ts Hk Hss Hcs Hnow Hclk Hfresh)
      as (cdf & msgs & Henc & _ & Hrun).
    unfold answer_transparent, ans_msgs, ss_info_2022. exists msgs. split.
    { unfold ss_server_enc, ss_server_session. rewrite Hs. unfold set_addr, set_req_salt. cbn [s_mode s_salt s_req_salt s_user s_addr].
      rewrite Henc. reflexivity. }
    intros d Hd Hfr. unfold ans_recv. rewrite (transport_run_segments _ _ _ (ss_cdec_empty P (ss_cxc c) (ss_cnow2 c))).
    rewrite Hc. destruct (Hrun (delivered_segments d) Hd Hfr) as (items & stf & HR & Hb).
    unfold ss_client_session. rewrite HR. cbn [client_view]. exists items. auto.
  Qed.

  Theorem e2e_answer_sslegacy : forall (c : ss_cfg) k key target ts,
    ss_plain_cfg c k key -> is_2022 k = false -> lenN (ss_ssalt c) = kind_n k ->
    answer_transparent P (CShadowsocks c) target (ss_info_legacy c target) ts (fun _ => True).
  Proof.
    intros c k key target ts (Hc & cu & Hs & Hcu) Hk Hss.
    destruct (sslegacy_response_stream P HL Hb3 Hhk k key (ss_ssalt c) (ss_snow2 c) (ss_cnow2 c) (ss_ccache c)
                [] [] cu None None None (Some target) (ss_client_session c target) ts Hk Hss eq_refl)
      as (cdf & msgs & Henc & Hrun).
    unfold answer_transparent, ans_msgs, ss_info_legacy. exists msgs. split.
    { unfold ss_server_enc, ss_server_session. rewrite Hs. unfold set_addr. cbn [s_mode s_salt s_req_salt s_user s_addr].
      rewrite Henc. reflexivity. }
    intros d Hd _. unfold ans_recv. rewrite (transport_run_segments _ _ _ (ss_cdec_empty P (ss_cxc c) (ss_cnow2 c))).
    rewrite Hc. destruct (Hrun (delivered_segments d) Hd) as (items & stf & HR & Hb).
    rewrite HR. cbn [client_view]. exists items. auto.
  Qed.
  (* the encoder's first message always holds salt, fixed header and variable header: delivered as WebSocket messages
     (or read whole by the first read) the first-read condition holds by itself *)
  Lemma first_read_ok_own_msgs n hl (msgs : list bytes) : 0 < n ->
    (msgs <> [] -> n + hl <= lenN (hd [] msgs)) -> first_read_ok n hl msgs.
  Proof.
    intros Hn H. destruct msgs as [|m rest]; [constructor|].
    apply (first_read_ok_first_big n hl [] m rest Hn (Forall_nil _)). apply H. discriminate.
  Qed.

  Lemma ss2022_request_own_msgs : forall (c : ss_cfg) k key target ws msgs,
    ss_plain_cfg c k key -> is_2022 k = true -> lenN (ss_csalt c) = kind_n k ->
    addr_wf target -> representable target -> lenN (ss_cpad c) <= 900 -> ss_cnow c < 2^64 ->
    abs_diff (ss_snow c) (ss_cnow c) <= 30 -> mem_salt (ss_scache c) (ss_csalt c) = false -> ws <> [] ->
    req_msgs P (CShadowsocks c) target ws = Ok msgs -> first_read_ok (kind_n k) 27 msgs.
  Proof.
    intros c k key target ws msgs (Hc & cu & Hs & Hcu) Hk Hsalt Hwf Hrep Hpad Hnow Hclk Hfresh Hne.
    destruct (ss2022_request_stream P HL Hb3 Hhk k key (ss_csalt c) target (ss_cpad c) (ss_cnow c) (ss_snow c) (ss_scache c)
                (ss_ssalt c) None None cu ws Hk Hsalt Hwf Hrep Hpad Hnow Hclk Hfresh Hcu Hne)
      as (cdf & msgs' & Henc & Hbig & _).
    unfold req_msgs, ss_client_enc, ss_client_session. rewrite Hc, Henc. cbn [bind]. intros [= <-].
    apply first_read_ok_own_msgs; [apply kind_n_pos|]. intros _. exact Hbig.
  Qed.
  Lemma ss2022_answer_own_msgs : forall (c : ss_cfg) k key target ts msgs,
    ss_plain_cfg c k key -> is_2022 k = true -> lenN (ss_ssalt c) = kind_n k -> lenN (ss_csalt c) = kind_n k ->
    ss_snow2 c < 2^64 -> abs_diff (ss_cnow2 c) (ss_snow2 c) <= 30 -> mem_salt (ss_ccache c) (ss_ssalt c) = false ->
    ans_msgs P (CShadowsocks c) (ss_info_2022 c target) ts = Ok msgs ->
    first_read_ok (kind_n k) (1 + 8 + kind_n k + 2 + 16) msgs.
  Proof.
    intros c k key target ts msgs (Hc & cu & Hs & Hcu) Hk Hss Hcs Hnow Hclk Hfresh.
    destruct (ss2022_response_stream P HL Hb3 Hhk k key (ss_ssalt c) (ss_csalt c) (ss_snow2 c) (ss_cnow2 c) (ss_ccache c)
                [] [] cu None None (Some target) (Some target) None None ts Hk Hss Hcs Hnow Hclk Hfresh)
      as (cdf & msgs' & Henc & Hbig & _).
    unfold ans_msgs, ss_info_2022, ss_server_enc, ss_server_session. rewrite Hs. unfold set_addr, set_req_salt.
    cbn [s_mode s_salt s_req_salt s_user s_addr]. rewrite Henc. cbn [bind]. intros [= <-].
    apply first_read_ok_own_msgs; [apply kind_n_pos|]. intros Hm. apply Hbig. intros ->.
    cbn [encode_msgs] in Henc. injection Henc as _ <-. apply Hm. reflexivity.
  Qed.

  (* Shadowsocks 2022 with an identity header (one identity key, AES kinds): the client holds the user's key and, as
     identity key, the server's key; the server holds its key and a user table in which the hash of the user's key finds
     the user.  Two more length facts about the primitives are needed (the identity header is one AES block). *)
  Definition ss_identity_cfg (c : ss_cfg) (k : kind) (ukey ipsk : bytes) (users : list user) (u : user) : Prop :=
    ss_cxc c = {| c_kind := k; c_key := ukey; c_ikeys := [ipsk]; c_users := None |} /\
    ss_cxs c = {| c_kind := k; c_key := ipsk; c_ikeys := []; c_users := Some users |} /\
    support_eih k = true /\ users <> [] /\ find_user users (takeN 16 (p_b3hash P ukey)) = Some u /\ u_key u = ukey.
  Definition ss_info_identity (c : ss_cfg) (target : addr) (u : user) : srv_info :=
    SiSs (set_addr (set_user (set_req_salt (ss_server_session c) (Some (ss_csalt c))) (Some u)) (Some target)).

  Section Identity.
    Hypothesis Haes : forall key b, lenN b = 16 -> lenN (p_aes_enc P key b) = 16.
    Hypothesis Hb3h : forall x, 16 <= lenN (p_b3hash P x).

    Theorem e2e_request_ss2022_identity : forall (c : ss_cfg) k ukey ipsk users u target ws,
      ss_identity_cfg c k ukey ipsk users u -> lenN (ss_csalt c) = kind_n k ->
      addr_wf target -> representable target -> lenN (ss_cpad c) <= 900 -> ss_cnow c < 2^64 ->
      abs_diff (ss_snow c) (ss_cnow c) <= 30 -> mem_salt (ss_scache c) (ss_csalt c) = false -> ws <> [] ->
      request_transparent P (CShadowsocks c) target ws (ss_info_identity c target u)
                          (fun d => first_read_ok (kind_n k) 43 (delivered_segments d)).
    Proof.
      intros c k ukey ipsk users u target ws (Hc & Hs & Hk & Hus & Hfind & Huk) Hsalt Hwf Hrep Hpad Hnow Hclk Hfresh Hne.
      destruct (ss2022_identity_request_stream P HL Hb3 Hhk k ukey ipsk (ss_csalt c) target (ss_cpad c) (ss_cnow c) (ss_snow c)
                  (ss_scache c) (ss_ssalt c) None None users u ws Hk Hsalt Hwf Hrep Hpad Hnow Hclk Hfresh Hus Hfind Huk Haes Hb3h Hne)
        as (cdf & msgs & Henc & _ & Hrun).
      unfold request_transparent, req_msgs. exists msgs. split.
      { unfold ss_client_enc, ss_client_session. rewrite Hc. rewrite Henc. reflexivity. }
      intros d Hd Hfr. unfold req_serve. rewrite (transport_run_segments _ _ _ (ss_sdec_empty P (ss_cxs c) (ss_snow c))).
      rewrite Hs. destruct (Hrun (delivered_segments d) Hd Hfr) as (first & relays & stf & HR & Hb & Hsess).
      unfold ss_server_session. rewrite HR, server_view_connect. unfold run_state. cbn [fst].
      exists (first :: relays). split; [|exact Hb]. unfold ss_info_identity, ss_server_session. rewrite Hsess. reflexivity.
    Qed.
    Lemma ss2022_identity_request_own_msgs : forall (c : ss_cfg) k ukey ipsk users u target ws msgs,
      ss_identity_cfg c k ukey ipsk users u -> lenN (ss_csalt c) = kind_n k ->
      addr_wf target -> representable target -> lenN (ss_cpad c) <= 900 -> ss_cnow c < 2^64 ->
      abs_diff (ss_snow c) (ss_cnow c) <= 30 -> mem_salt (ss_scache c) (ss_csalt c) = false -> ws <> [] ->
      req_msgs P (CShadowsocks c) target ws = Ok msgs -> first_read_ok (kind_n k) 43 msgs.
    Proof.
      intros c k ukey ipsk users u target ws msgs (Hc & Hs & Hk & Hus & Hfind & Huk) Hsalt Hwf Hrep Hpad Hnow Hclk Hfresh Hne.
      destruct (ss2022_identity_request_stream P HL Hb3 Hhk k ukey ipsk (ss_csalt c) target (ss_cpad c) (ss_cnow c) (ss_snow c)
                  (ss_scache c) (ss_ssalt c) None None users u ws Hk Hsalt Hwf Hrep Hpad Hnow Hclk Hfresh Hus Hfind Huk Haes Hb3h Hne)
        as (cdf & msgs' & Henc & Hbig & _).
      unfold req_msgs, ss_client_enc, ss_client_session. rewrite Hc, Henc. cbn [bind]. intros [= <-].
      apply first_read_ok_own_msgs; [apply kind_n_pos|]. intros _. exact Hbig.
    Qed.
  End Identity.

  (* the answer is sealed under the USER's key (the session remembers the user the identity header named) *)
  Theorem e2e_answer_ss2022_identity : forall (c : ss_cfg) k ukey ipsk users u target ts,
    ss_identity_cfg c k ukey ipsk users u -> lenN (ss_ssalt c) = kind_n k -> lenN (ss_csalt c) = kind_n k ->
    ss_snow2 c < 2^64 -> abs_diff (ss_cnow2 c) (ss_snow2 c) <= 30 -> mem_salt (ss_ccache c) (ss_ssalt c) = false ->
    answer_transparent P (CShadowsocks c) target (ss_info_identity c target u) ts
                       (fun d => first_read_ok (kind_n k) (1 + 8 + kind_n k + 2 + 16) (delivered_segments d)).
  Proof.
    intros c k ukey ipsk users u target ts (Hc & Hs & Hk & Hus & Hfind & Huk) Hss Hcs Hnow Hclk Hfresh. subst ukey.
    destruct (ss2022_response_stream P HL Hb3 Hhk k ipsk (ss_ssalt c) (ss_csalt c) (ss_snow2 c) (ss_cnow2 c) (ss_ccache c)
                [] [ipsk] (Some users) None (Some u) (Some target) (Some target) None None ts
                (support_eih_2022 k Hk) Hss Hcs Hnow Hclk Hfresh)
      as (cdf & msgs & Henc & _ & Hrun).
    unfold answer_transparent, ans_msgs, ss_info_identity. exists msgs. split.
    { unfold ss_server_enc, ss_server_session. rewrite Hs. unfold set_addr, set_user, set_req_salt.
      cbn [s_mode s_salt s_req_salt s_user s_addr]. rewrite Henc. reflexivity. }
    intros d Hd Hfr. unfold ans_recv. rewrite (transport_run_segments _ _ _ (ss_cdec_empty P (ss_cxc c) (ss_cnow2 c))).
    rewrite Hc. destruct (Hrun (delivered_segments d) Hd Hfr) as (items & stf & HR & Hb).
    unfold ss_client_session. rewrite HR. cbn [client_view]. exists items. auto.
  Qed.
  Lemma ss2022_identity_answer_own_msgs : forall (c : ss_cfg) k ukey ipsk users u target ts msgs,
    ss_identity_cfg c k ukey ipsk users u -> lenN (ss_ssalt c) = kind_n k -> lenN (ss_csalt c) = kind_n k ->
    ss_snow2 c < 2^64 -> abs_diff (ss_cnow2 c) (ss_snow2 c) <= 30 -> mem_salt (ss_ccache c) (ss_ssalt c) = false ->
    ans_msgs P (CShadowsocks c) (ss_info_identity c target u) ts = Ok msgs ->
    first_read_ok (kind_n k) (1 + 8 + kind_n k + 2 + 16) msgs.
  Proof.
    intros c k ukey ipsk users u target ts msgs (Hc & Hs & Hk & Hus & Hfind & Huk) Hss Hcs Hnow Hclk Hfresh. subst ukey.
    destruct (ss2022_response_stream P HL Hb3 Hhk k ipsk (ss_ssalt c) (ss_csalt c) (ss_snow2 c) (ss_cnow2 c) (ss_ccache c)
                [] [ipsk] (Some users) None (Some u) (Some target) (Some target) None None ts
                (support_eih_2022 k Hk) Hss Hcs Hnow Hclk Hfresh)
      as (cdf & msgs' & Henc & Hbig & _).
    unfold ans_msgs, ss_info_identity, ss_server_enc, ss_server_session. rewrite Hs. unfold set_addr, set_user, set_req_salt.
    cbn [s_mode s_salt s_req_salt s_user s_addr]. rewrite Henc. cbn [bind]. intros [= <-].
    apply first_read_ok_own_msgs; [apply kind_n_pos|]. intros Hm. apply Hbig. intros ->.
    cbn [encode_msgs] in Henc. injection Henc as _ <-. apply Hm. reflexivity.
  Qed.
End ShadowsocksFlow.

(* ---------------------------------------- VMess ---------------------------------------- *)
Section VmessFlow.
  Variable P : prims.
  Hypothesis HL : prim_laws P.
  Hypothesis shake_len : forall seed n, lenN (p_shake128 P seed n) = n.
  Hypothesis shake_wf : forall seed n, wf_bytes (p_shake128 P seed n).
  Hypothesis aes_block_len : forall k b, lenN b = 16 -> lenN (p_aes_enc P k b) = 16.

  Definition vm_info (c : vm_cfg) (target : addr) : srv_info := SiVmess (vm_header c target) (vm_sess c).

  Theorem e2e_request_vmess : forall (c : vm_cfg) target ws,
    hdr_ok (vm_header c target) -> sess_ok (vm_sess c) -> lenN (vm_hpad c) < 16 -> lenN (vm_rnd4 c) = 4 ->
    lenN (vm_cnonce c) = 8 ->
    auth_id_matching P (vm_snow c) (auth_id_create P (vm_id c) (vm_ts c) (vm_rnd4 c)) (vm_keys c) = Some (vm_id c) ->
    ws <> [] ->
    request_transparent P (CVmess c) target ws (vm_info c target) (fun _ => True).
  Proof.
    intros c target ws Hh Hs Hp Hr Hn Hm Hne.
    destruct (vmess_request_stream P HL shake_len shake_wf aes_block_len c target ws Hh Hs Hp Hr Hn Hm Hne)
      as (e & msgs & Henc & Hrun).
    unfold request_transparent, req_msgs. exists msgs. split; [rewrite Henc; reflexivity|].
    intros d Hd _. unfold req_serve.
    rewrite (transport_run_segments _ _ _ (server_vdecode_empty P (vm_snow c) (vm_keys c))).
    destruct (Hrun (delivered_segments d) Hd) as (first & relays & bf & HR & Hb).
    rewrite HR, server_view_connect. unfold run_state. cbn [fst].
    exists (first :: relays). split; [reflexivity|exact Hb].
  Qed.

  Theorem e2e_answer_vmess : forall (c : vm_cfg) target ts,
    answer_transparent P (CVmess c) target (vm_info c target) ts (fun _ => True).
  Proof.
    intros c target ts.
    destruct (vmess_response_stream P HL shake_len shake_wf aes_block_len (vm_header c target) (vm_sess c) (vm_spads c) ts eq_refl)
      as (e & msgs & Henc & Hrun).
    unfold answer_transparent, ans_msgs, vm_info. exists msgs. split; [rewrite Henc; reflexivity|].
    intros d Hd _. unfold ans_recv.
    rewrite (transport_run_segments _ _ (client_vdecode P (vm_header c target) (vm_sess c)));
      [|intros s; apply client_vdecode_empty].
    destruct (Hrun (delivered_segments d) Hd) as (items & stf & HR & Hb).
    rewrite HR. cbn [client_view]. exists items. auto.
  Qed.
End VmessFlow.

(* ============================================================================================= *)
(* D. the whole flow                                                                               *)
(* ============================================================================================= *)
(* ---- per protocol family: the hypotheses, the delivery conditions, what the server keeps ---- *)
Definition ss_kind (c : ss_cfg) : kind := c_kind (ss_cxc c).

Definition proto_ok (P : prims) (cfg : proto_cfg) (target : addr) : Prop :=
  match cfg with
  | CShadowsocks c =>
      prim_laws P /\ (forall x m, lenN (p_b3derive P x m) = 32) /\ (forall i s info n, lenN (p_hkdf_sha1 P i s info n) = n) /\
      (* the two ends are configured alike: plainly (legacy or 2022), or (2022, AES kinds) with one identity key *)
      ((exists key, ss_plain_cfg c (ss_kind c) key) \/
       (exists ukey ipsk users u, ss_identity_cfg P c (ss_kind c) ukey ipsk users u /\
          (forall key b, lenN b = 16 -> lenN (p_aes_enc P key b) = 16) /\ (forall x, 16 <= lenN (p_b3hash P x)))) /\
      lenN (ss_csalt c) = kind_n (ss_kind c) /\ lenN (ss_ssalt c) = kind_n (ss_kind c) /\
      (is_2022 (ss_kind c) = true ->
         (* request: padding, client clock, server clock within 30 s, salt not seen before *)
         lenN (ss_cpad c) <= 900 /\ ss_cnow c < 2^64 /\ abs_diff (ss_snow c) (ss_cnow c) <= 30 /\
         mem_salt (ss_scache c) (ss_csalt c) = false /\
         (* answer *)
         ss_snow2 c < 2^64 /\ abs_diff (ss_cnow2 c) (ss_snow2 c) <= 30 /\ mem_salt (ss_ccache c) (ss_ssalt c) = false)
  | CVmess c =>
      prim_laws P /\ (forall seed n, lenN (p_shake128 P seed n) = n) /\ (forall seed n, wf_bytes (p_shake128 P seed n)) /\
      (forall k b, lenN b = 16 -> lenN (p_aes_enc P k b) = 16) /\
      hdr_ok (vm_header c target) /\ sess_ok (vm_sess c) /\ lenN (vm_hpad c) < 16 /\ lenN (vm_rnd4 c) = 4 /\
      lenN (vm_cnonce c) = 8 /\
      auth_id_matching P (vm_snow c) (auth_id_create P (vm_id c) (vm_ts c) (vm_rnd4 c)) (vm_keys c) = Some (vm_id c)
  | CTrojan c =>
      wf_bytes (p_sha224 P (tj_pw c)) /\ lenN (p_sha224 P (tj_pw c)) = 28 /\ tj_key c = trojan_key P (tj_pw c)
  end.

(* Shadowsocks 2022 only: no poll sees the salt complete and the fixed header (27 bytes; 43 with an identity header)
   incomplete (first-read exemption) *)
Definition req_delivery_ok (cfg : proto_cfg) (d : delivery) : Prop :=
  match cfg with
  | CShadowsocks c => is_2022 (ss_kind c) = true ->
                      first_read_ok (kind_n (ss_kind c)) (ss_req_header_len (ss_cxs c)) (delivered_segments d)
  | _ => True
  end.
Definition ans_delivery_ok (cfg : proto_cfg) (d : delivery) : Prop :=
  match cfg with
  | CShadowsocks c => is_2022 (ss_kind c) = true ->
                      first_read_ok (kind_n (ss_kind c)) (1 + 8 + kind_n (ss_kind c) + 2 + 16) (delivered_segments d)
  | _ => True
  end.
(* the user an identity header of this client names in the server's table *)
Definition ss_expected_user (P : prims) (c : ss_cfg) : option user :=
  match c_ikeys (ss_cxc c), c_users (ss_cxs c) with
  | _ :: _, Some users => find_user users (takeN 16 (p_b3hash P (c_key (ss_cxc c))))
  | _, _ => None
  end.
(* what the server holds once it has decoded the request header *)
Definition info_of (P : prims) (cfg : proto_cfg) (target : addr) : srv_info :=
  match cfg with
  | CShadowsocks c =>
      if is_2022 (ss_kind c) then
        match ss_expected_user P c with
        | Some u => ss_info_identity c target u
        | None => ss_info_2022 c target
        end
      else ss_info_legacy c target
  | CVmess c => vm_info c target
  | CTrojan _ => SiTrojan
  end.

Lemma request_transparent_weaken P cfg target ws info (okd okd' : delivery -> Prop) :
  (forall d, okd' d -> okd d) -> request_transparent P cfg target ws info okd -> request_transparent P cfg target ws info okd'.
Proof. intros Hi (msgs & H1 & H2). exists msgs. split; [exact H1|]. intros d Hd Hok. apply H2; [exact Hd|apply Hi, Hok]. Qed.
Lemma answer_transparent_weaken P cfg target info ts (okd okd' : delivery -> Prop) :
  (forall d, okd' d -> okd d) -> answer_transparent P cfg target info ts okd -> answer_transparent P cfg target info ts okd'.
Proof. intros Hi (msgs & H1 & H2). exists msgs. split; [exact H1|]. intros d Hd Hok. apply H2; [exact Hd|apply Hi, Hok]. Qed.

Lemma ss_plain_facts P c k key : ss_plain_cfg c k key ->
  ss_kind c = k /\ ss_expected_user P c = None /\ ss_req_header_len (ss_cxs c) = 27.
Proof.
  intros (Hc & cu & Hs & Hcu). unfold ss_kind, ss_expected_user, ss_req_header_len. rewrite Hc, Hs. cbn [c_kind c_ikeys c_users].
  repeat split. destruct Hcu as [-> | ->]; rewrite andb_false_r; reflexivity.
Qed.
Lemma ss_identity_facts P c k ukey ipsk users u : ss_identity_cfg P c k ukey ipsk users u ->
  ss_kind c = k /\ is_2022 k = true /\ ss_expected_user P c = Some u /\ ss_req_header_len (ss_cxs c) = 43.
Proof.
  intros (Hc & Hs & Hk & Hus & Hfind & Huk). unfold ss_kind, ss_expected_user, ss_req_header_len. rewrite Hc, Hs.
  cbn [c_kind c_ikeys c_users c_key]. split; [reflexivity|]. split; [apply support_eih_2022, Hk|]. split; [exact Hfind|].
  rewrite Hk. destruct users as [|x xs]; [contradiction|]. reflexivity.
Qed.

(* every protocol family, one statement per direction *)
Theorem proto_request_transparent : forall P cfg target ws,
  proto_ok P cfg target -> addr_wf target -> representable target -> ws <> [] ->
  request_transparent P cfg target ws (info_of P cfg target) (req_delivery_ok cfg).
Proof.
  intros P [c|c|c] target ws Hok Hwf Hrep Hne; cbn [proto_ok] in Hok.
  - destruct Hok as (HL & Hb3 & Hhk & Hcfg & Hcs & Hss & H22). unfold info_of, req_delivery_ok.
    destruct Hcfg as [(key & Hcfg) | (ukey & ipsk & users & u & Hcfg & Haes & Hb3h)].
    + destruct (ss_plain_facts P c _ key Hcfg) as (_ & Hu & Hhl). rewrite Hu, Hhl.
      destruct (is_2022 (ss_kind c)) eqn:Hk.
      * destruct (H22 eq_refl) as (Hpad & Hnow & Hclk & Hfresh & _).
        eapply request_transparent_weaken; [|apply (e2e_request_ss2022 P HL Hb3 Hhk c (ss_kind c) key target ws); assumption].
        intros d Hd. apply Hd. reflexivity.
      * eapply request_transparent_weaken; [|apply (e2e_request_sslegacy P HL Hb3 Hhk c (ss_kind c) key target ws); assumption].
        intros d _. exact I.
    + destruct (ss_identity_facts P c _ ukey ipsk users u Hcfg) as (_ & Hk & Hu & Hhl). rewrite Hu, Hhl, Hk.
      destruct (H22 Hk) as (Hpad & Hnow & Hclk & Hfresh & _).
      eapply request_transparent_weaken;
        [|apply (e2e_request_ss2022_identity P HL Hb3 Hhk Haes Hb3h c (ss_kind c) ukey ipsk users u target ws); assumption].
      intros d Hd. apply Hd. reflexivity.
  - destruct Hok as (HL & Hsl & Hsw & Hab & Hh & Hs & Hp & Hr & Hn & Hm).
    apply (e2e_request_vmess P HL Hsl Hsw Hab c target ws); assumption.
  - destruct Hok as (H1 & H2 & H3). apply (e2e_request_trojan P c H1 H2 H3 target ws); assumption.
Qed.

Theorem proto_answer_transparent : forall P cfg target ts,
  proto_ok P cfg target -> answer_transparent P cfg target (info_of P cfg target) ts (ans_delivery_ok cfg).
Proof.
  intros P [c|c|c] target ts Hok; cbn [proto_ok] in Hok.
  - destruct Hok as (HL & Hb3 & Hhk & Hcfg & Hcs & Hss & H22). unfold info_of, ans_delivery_ok.
    destruct Hcfg as [(key & Hcfg) | (ukey & ipsk & users & u & Hcfg & Haes & Hb3h)].
    + destruct (ss_plain_facts P c _ key Hcfg) as (_ & Hu & _). rewrite Hu.
      destruct (is_2022 (ss_kind c)) eqn:Hk.
      * destruct (H22 eq_refl) as (_ & _ & _ & _ & Hnow & Hclk & Hfresh).
        eapply answer_transparent_weaken; [|apply (e2e_answer_ss2022 P HL Hb3 Hhk c (ss_kind c) key target ts); assumption].
        intros d Hd. apply Hd. reflexivity.
      * eapply answer_transparent_weaken; [|apply (e2e_answer_sslegacy P HL Hb3 Hhk c (ss_kind c) key target ts); assumption].
        intros d _. exact I.
    + destruct (ss_identity_facts P c _ ukey ipsk users u Hcfg) as (_ & Hk & Hu & _). rewrite Hu, Hk.
      destruct (H22 Hk) as (_ & _ & _ & _ & Hnow & Hclk & Hfresh).
      eapply answer_transparent_weaken;
        [|apply (e2e_answer_ss2022_identity P HL Hb3 Hhk c (ss_kind c) ukey ipsk users u target ts); assumption].
      intros d Hd. apply Hd. reflexivity.
  - destruct Hok as (HL & Hsl & Hsw & Hab & _). apply (e2e_answer_vmess P HL Hsl Hsw Hab c target ts).
  - apply (e2e_answer_trojan P c target ts).
Qed.

(* over a WebSocket that delivers the encoder's own messages (any number of empty or control messages in front is
   harmless too, first_read_ok_first_big) the Shadowsocks-2022 first-read condition holds by itself *)
Theorem own_ws_request_delivery_ok : forall P cfg target ws msgs,
  proto_ok P cfg target -> addr_wf target -> representable target -> ws <> [] ->
  req_msgs P cfg target ws = Ok msgs -> req_delivery_ok cfg (ws_of_msgs msgs).
Proof.
  intros P [c|c|c] target ws msgs Hok Hwf Hrep Hne Hm; cbn [proto_ok] in Hok; cbn [req_delivery_ok]; try exact I.
  destruct Hok as (HL & Hb3 & Hhk & Hcfg & Hcs & Hss & H22). intros Hk. rewrite delivered_segments_ws_of_msgs.
  destruct (H22 Hk) as (Hpad & Hnow & Hclk & Hfresh & _).
  destruct Hcfg as [(key & Hcfg) | (ukey & ipsk & users & u & Hcfg & Haes & Hb3h)].
  - destruct (ss_plain_facts P c _ key Hcfg) as (_ & _ & ->).
    apply (ss2022_request_own_msgs P HL Hb3 Hhk c (ss_kind c) key target ws msgs); assumption.
  - destruct (ss_identity_facts P c _ ukey ipsk users u Hcfg) as (_ & _ & _ & ->).
    apply (ss2022_identity_request_own_msgs P HL Hb3 Hhk Haes Hb3h c (ss_kind c) ukey ipsk users u target ws msgs); assumption.
Qed.
Theorem own_ws_answer_delivery_ok : forall P cfg target ts msgs,
  proto_ok P cfg target -> ans_msgs P cfg (info_of P cfg target) ts = Ok msgs -> ans_delivery_ok cfg (ws_of_msgs msgs).
Proof.
  intros P [c|c|c] target ts msgs Hok Hm; cbn [proto_ok] in Hok; cbn [ans_delivery_ok]; try exact I.
  destruct Hok as (HL & Hb3 & Hhk & Hcfg & Hcs & Hss & H22). intros Hk. rewrite delivered_segments_ws_of_msgs.
  destruct (H22 Hk) as (_ & _ & _ & _ & Hnow & Hclk & Hfresh). unfold info_of in Hm. rewrite Hk in Hm.
  destruct Hcfg as [(key & Hcfg) | (ukey & ipsk & users & u & Hcfg & Haes & Hb3h)].
  - destruct (ss_plain_facts P c _ key Hcfg) as (_ & Hu & _). rewrite Hu in Hm.
    apply (ss2022_answer_own_msgs P HL Hb3 Hhk c (ss_kind c) key target ts msgs); assumption.
  - destruct (ss_identity_facts P c _ ukey ipsk users u Hcfg) as (_ & _ & Hu & _). rewrite Hu in Hm.
    apply (ss2022_identity_answer_own_msgs P HL Hb3 Hhk c (ss_kind c) ukey ipsk users u target ts msgs); assumption.
Qed.

(* ---- the hypotheses of a whole flow, bundled ---- *)
(* everything but the handshake: target, protocol, reads, the two wires *)
Record flow_side_ok (P : prims) (cfg : proto_cfg) (i : flow_in) (target : addr) (consumed : N) : Prop := {
  (* the target is one a codec is handed (client-side guard accept_addr) *)
  fo_target_wf : addr_wf target;
  fo_target_rep : representable target;
  (* the protocol's own hypotheses: laws of the primitives, matching credentials, lengths, clocks, fresh salts *)
  fo_proto : proto_ok P cfg target;
  (* the client's pump reads the rest of the application's stream, cut anywhere *)
  fo_reads : reads_split i consumed;
  (* the request wire carries exactly the client's messages (empty first message, then one per read), cut anywhere *)
  fo_req_wire : carries (fi_req i) (req_msgs P cfg target ([] :: fi_reads i));
  fo_req_first : req_delivery_ok cfg (fi_req i);
  (* the answer wire carries exactly the server's messages (one per read from the target), cut anywhere *)
  fo_ans_wire : carries (fi_ans i) (ans_msgs P cfg (info_of P cfg target) (fi_target i));
  fo_ans_first : ans_delivery_ok cfg (fi_ans i)
}.
Record flow_ok (P : prims) (cfg : proto_cfg) (i : flow_in)
               (k : hkind) (target : addr) (reply : bytes) (consumed : N) : Prop := {
  (* the local handshake produced a tunnel to `target`, wrote `reply`, took `consumed` bytes off the stream *)
  fo_handshake : handshake (fi_app i) (fi_local i) (fi_hist i) = Tunnel k target reply consumed;
  fo_side : flow_side_ok P cfg i target consumed
}.

(* C01, one flow: for every protocol family, transport (fi_req / fi_ans are stream or WebSocket deliveries, independently),
   handshake kind, application stream, arrival history, read splitting, segmentation, keys, salts: the server dials
   exactly the target of the handshake, what it sends to the target is exactly the rest of the application's stream,
   what the application receives (after the handshake reply) is exactly what the target wrote *)
Theorem c01_flow_transparent : forall P cfg i k target reply consumed,
  flow_ok P cfg i k target reply consumed ->
  exists to_target to_app,
    e2e_flow P cfg i = FRelayed k target reply consumed target to_target to_app /\
    concat to_target = dropN consumed (fi_app i) /\
    concat to_app = concat (fi_target i).
Proof.
  intros P cfg i k target reply consumed [Hh [Hwf Hrep Hp Hr Hq Hqf Ha Haf]].
  destruct (proto_request_transparent P cfg target ([] :: fi_reads i) Hp Hwf Hrep ltac:(discriminate)) as (msgs & Hm & Hserve).
  unfold carries in Hq. rewrite Hm in Hq.
  destruct (Hserve (fi_req i) Hq Hqf) as (ps & Hps & Hc).
  destruct (proto_answer_transparent P cfg target (fi_target i) Hp) as (amsgs & Ham & Hrecv).
  unfold carries in Ha. rewrite Ham in Ha.
  destruct (Hrecv (fi_ans i) Ha Haf) as (items & Hit & Hci).
  exists ps, items. unfold e2e_flow. rewrite Hh, Hm, Hps, Ham, Hit.
  split; [reflexivity|]. split; [|exact Hci]. rewrite Hc. cbn [concat app]. exact Hr.
Qed.

(* the transport does not matter: the same segments over a WebSocket (as messages, with any empty or control messages
   in between) give the very same result of every stage *)
Lemma req_serve_segments P cfg d : req_serve P cfg d = req_serve P cfg (DStream (delivered_segments d)).
Proof.
  destruct cfg as [c|c|c]; unfold req_serve.
  - rewrite !(transport_run_segments _ _ _ (ss_sdec_empty P (ss_cxs c) (ss_snow c))). reflexivity.
  - rewrite !(transport_run_segments _ _ _ (server_vdecode_empty P (vm_snow c) (vm_keys c))). reflexivity.
  - rewrite !(transport_run_segments _ _ _ (trojan_server_decode_empty (tj_key c))). reflexivity.
Qed.
Lemma ans_recv_segments P cfg target d : ans_recv P cfg target d = ans_recv P cfg target (DStream (delivered_segments d)).
Proof.
  destruct cfg as [c|c|c]; unfold ans_recv.
  - rewrite !(transport_run_segments _ _ _ (ss_cdec_empty P (ss_cxc c) (ss_cnow2 c))). reflexivity.
  - rewrite !(transport_run_segments _ _ (client_vdecode P (vm_header c target) (vm_sess c)) (client_vdecode_empty P _ _)).
    reflexivity.
  - assert (He : forall s, tj_client_dec s [] = Ok (s, [], None)) by (intros []; reflexivity).
    rewrite !(transport_run_segments _ _ tj_client_dec He). reflexivity.
Qed.

Theorem e2e_ws_same_as_stream : forall P cfg i,
  e2e_flow P cfg i =
  e2e_flow P cfg {| fi_app := fi_app i; fi_hist := fi_hist i; fi_local := fi_local i; fi_reads := fi_reads i;
                    fi_req := DStream (delivered_segments (fi_req i)); fi_target := fi_target i;
                    fi_ans := DStream (delivered_segments (fi_ans i)) |}.
Proof.
  intros P cfg i. unfold e2e_flow. cbn [fi_app fi_hist fi_local fi_reads fi_req fi_target fi_ans].
  rewrite <- req_serve_segments.
  destruct (handshake (fi_app i) (fi_local i) (fi_hist i)) as [k target reply consumed| |]; try reflexivity.
  rewrite <- ans_recv_segments. reflexivity.
Qed.

(* ---- the pumps around the codecs ---- *)
(* `data` passes the pump of direction d exactly once, in order, unmodified: whatever the event history, what the
   destination has received is a prefix of it, and it has received all of it - followed by an orderly shutdown, i.e.
   end-of-stream - once the pump has returned because its source ended *)
Definition delivered_exactly_once (first : bytes) (items : list bytes) (d : Relay.dir) (data : bytes) : Prop :=
  forall evs, feeds items (Relay.proj d evs) ->
    let f := Relay.run (Relay.init first) (Relay.OpenOk :: evs) in
    (exists rest, data = Relay.del (Relay.lane_of d f) ++ rest) /\
    (no_stream_error (Relay.proj d evs) -> Relay.ph f = Relay.Done (Some d) Relay.Closed ->
     Relay.del (Relay.lane_of d f) = data /\ Relay.inf (Relay.lane_of d f) = [] /\ Relay.shut (Relay.lane_of d f) = true).

Theorem pumps_deliver : forall first items d,
  delivered_exactly_once first items d (Pumps.opening_part d first ++ concat items).
Proof.
  intros first items d evs Hf. cbv zeta. split.
  - apply Pumps.pump_delivered_prefix. exact Hf.
  - intros He Hd. apply Pumps.pump_closed_delivers_all; assumption.
Qed.

Lemma server_view_cons {St : Type} (r : St * bytes * list inbound * fstatus) a ps :
  server_view r = Some (a, ps) -> exists p0 chunks, ps = p0 :: chunks.
Proof.
  destruct r as [[[st buf] items] fs]. cbn [server_view].
  destruct fs; try discriminate. destruct buf; try discriminate. destruct items as [|[p0 a0|p|p a0] rest]; try discriminate.
  destruct (relay_payloads rest) as [ps'|]; [|discriminate]. intros [= <- <-]. eauto.
Qed.
Lemma req_serve_cons P cfg d a ps info : req_serve P cfg d = Some (a, ps, info) -> exists p0 chunks, ps = p0 :: chunks.
Proof.
  destruct cfg as [c|c|c]; unfold req_serve.
  - destruct (server_view _) as [[a' ps']|] eqn:E; [|discriminate]. intros [= <- <- <-]. eapply server_view_cons, E.
  - destruct (server_view _) as [[a' ps']|] eqn:E; [|discriminate]. destruct (run_state _); [discriminate|].
    intros [= <- <- <-]. eapply server_view_cons, E.
  - destruct (server_view _) as [[a' ps']|] eqn:E; [|discriminate]. intros [= <- <- <-]. eapply server_view_cons, E.
Qed.

(* request direction of a flow, from the handshake to the target's socket *)
Theorem flow_request_exact : forall P cfg s consumed target rs info okd,
  request_transparent P cfg target ([] :: rs) info okd -> concat rs = dropN consumed s ->
  forall d, carries d (req_msgs P cfg target ([] :: rs)) -> okd d ->
    exists p0 chunks,
      req_serve P cfg d = Some (target, p0 :: chunks, info) /\
      p0 ++ concat chunks = dropN consumed s /\
      delivered_exactly_once p0 chunks Relay.AB (dropN consumed s).
Proof.
  intros P cfg s consumed target rs info okd (msgs & Hm & Hserve) Hr d Hc Hok.
  unfold carries in Hc. rewrite Hm in Hc. destruct (Hserve d Hc Hok) as (ps & Hps & Hcc).
  destruct (req_serve_cons P cfg d target ps info Hps) as (p0 & chunks & ->).
  cbn [concat app] in Hcc. exists p0, chunks. split; [exact Hps|]. split; [congruence|].
  rewrite <- Hr, <- Hcc. apply (pumps_deliver p0 chunks Relay.AB).
Qed.

(* answer direction of a flow, from the target's socket to the application's *)
Theorem flow_answer_exact : forall P cfg target info ts okd p0,
  answer_transparent P cfg target info ts okd ->
  forall d, carries d (ans_msgs P cfg info ts) -> okd d ->
    exists items,
      ans_recv P cfg target d = Some items /\ concat items = concat ts /\
      (* server: everything read from the target is handed to the link; the link is shut when the target has closed *)
      delivered_exactly_once p0 ts Relay.BA (concat ts) /\
      (* client: everything decoded is handed to the application; its socket is shut when the link has ended *)
      delivered_exactly_once [] items Relay.BA (concat ts).
Proof.
  intros P cfg target info ts okd p0 (msgs & Hm & Hrecv) d Hc Hok.
  unfold carries in Hc. rewrite Hm in Hc. destruct (Hrecv d Hc Hok) as (items & Hit & Hci).
  exists items. split; [exact Hit|]. split; [exact Hci|]. split.
  - apply (pumps_deliver p0 ts Relay.BA).
  - rewrite <- Hci. apply (pumps_deliver [] items Relay.BA).
Qed.

(* ---------------------------------------------------------------------------------------------- *)
(* per protocol, with every hypothesis spelled out:                                                 *)
(*   e2e_target_exact_<p>          the server's ConnectTcp names exactly the target of the handshake *)
(*   e2e_request_bytes_exact_<p>   payload0 ++ chunks = what the handshake left in the stream, whatever the reads and  *)
(*                                 the delivery; through the server's pump: prefix at any time, all of it at the end   *)
(*   e2e_response_bytes_exact_<p>  the same for the answer, through the server's and the client's pump               *)
(* ---------------------------------------------------------------------------------------------- *)
Section PerProtocol.
  Variable P : prims.
  (* the local handshake of this flow *)
  Variables (s : bytes) (local : addr) (hist : list N) (k : hkind) (target : addr) (reply : bytes) (consumed : N).
  Hypothesis Hhs : handshake s local hist = Tunnel k target reply consumed.
  Hypothesis Hwf : addr_wf target.
  Hypothesis Hrep : representable target.
  (* how the client's pump reads the rest of the stream *)
  Variable rs : list bytes.
  Hypothesis Hrs : concat rs = dropN consumed s.

  Lemma ws_ne : [] :: rs <> []. Proof. discriminate. Qed.

  (* ---- Trojan ---- *)
  Section Tj.
    Variable c : tj_cfg.
    Hypothesis sha_wf : wf_bytes (p_sha224 P (tj_pw c)).
    Hypothesis sha_len : lenN (p_sha224 P (tj_pw c)) = 28.
    Hypothesis key_ok : tj_key c = trojan_key P (tj_pw c).

    Theorem e2e_request_bytes_exact_trojan : forall d, carries d (req_msgs P (CTrojan c) target ([] :: rs)) ->
      exists p0 chunks,
        req_serve P (CTrojan c) d = Some (target, p0 :: chunks, SiTrojan) /\
        p0 ++ concat chunks = dropN consumed s /\ delivered_exactly_once p0 chunks Relay.AB (dropN consumed s).
    Proof using Hhs Hwf Hrep Hrs sha_wf sha_len key_ok.
      intros d Hd. apply (flow_request_exact P (CTrojan c) s consumed target rs SiTrojan (fun _ => True)); auto.
      apply e2e_request_trojan; auto. apply ws_ne.
    Qed.
    Theorem e2e_target_exact_trojan : forall d, carries d (req_msgs P (CTrojan c) target ([] :: rs)) ->
      exists ps, req_serve P (CTrojan c) d = Some (target, ps, SiTrojan).
    Proof using Hhs Hwf Hrep Hrs sha_wf sha_len key_ok. intros d Hd. destruct (e2e_request_bytes_exact_trojan d Hd) as (p0 & chunks & H & _). eauto. Qed.
    Theorem e2e_response_bytes_exact_trojan : forall ts p0 d, carries d (ans_msgs P (CTrojan c) SiTrojan ts) ->
      exists items, ans_recv P (CTrojan c) target d = Some items /\ concat items = concat ts /\
        delivered_exactly_once p0 ts Relay.BA (concat ts) /\ delivered_exactly_once [] items Relay.BA (concat ts).
    Proof using Hhs.
      intros ts p0 d Hd. apply (flow_answer_exact P (CTrojan c) target SiTrojan ts (fun _ => True)); auto.
      apply e2e_answer_trojan.
    Qed.
  End Tj.

  (* ---- VMess (every option mask < 32, both securities: whatever vm_opt / vm_sec say) ---- *)
  Section Vm.
    Variable c : vm_cfg.
    Hypothesis HL : prim_laws P.
    Hypothesis shake_len : forall seed n, lenN (p_shake128 P seed n) = n.
    Hypothesis shake_wf : forall seed n, wf_bytes (p_shake128 P seed n).
    Hypothesis aes_block_len : forall key b, lenN b = 16 -> lenN (p_aes_enc P key b) = 16.
    Hypothesis Hh : hdr_ok (vm_header c target).
    Hypothesis Hs : sess_ok (vm_sess c).
    Hypothesis Hp : lenN (vm_hpad c) < 16.
    Hypothesis Hr : lenN (vm_rnd4 c) = 4.
    Hypothesis Hn : lenN (vm_cnonce c) = 8.
    Hypothesis Hm : auth_id_matching P (vm_snow c) (auth_id_create P (vm_id c) (vm_ts c) (vm_rnd4 c)) (vm_keys c) = Some (vm_id c).

    Theorem e2e_request_bytes_exact_vmess : forall d, carries d (req_msgs P (CVmess c) target ([] :: rs)) ->
      exists p0 chunks,
        req_serve P (CVmess c) d = Some (target, p0 :: chunks, vm_info c target) /\
        p0 ++ concat chunks = dropN consumed s /\ delivered_exactly_once p0 chunks Relay.AB (dropN consumed s).
    Proof using Hhs Hwf Hrep Hrs HL shake_len shake_wf aes_block_len Hh Hs Hp Hr Hn Hm.
      intros d Hd. apply (flow_request_exact P (CVmess c) s consumed target rs (vm_info c target) (fun _ => True)); auto.
      apply e2e_request_vmess; auto. apply ws_ne.
    Qed.
    Theorem e2e_target_exact_vmess : forall d, carries d (req_msgs P (CVmess c) target ([] :: rs)) ->
      exists ps, req_serve P (CVmess c) d = Some (target, ps, vm_info c target).
    Proof using Hhs Hwf Hrep Hrs HL shake_len shake_wf aes_block_len Hh Hs Hp Hr Hn Hm. intros d Hd. destruct (e2e_request_bytes_exact_vmess d Hd) as (p0 & chunks & H & _). eauto. Qed.
    Theorem e2e_response_bytes_exact_vmess : forall ts p0 d, carries d (ans_msgs P (CVmess c) (vm_info c target) ts) ->
      exists items, ans_recv P (CVmess c) target d = Some items /\ concat items = concat ts /\
        delivered_exactly_once p0 ts Relay.BA (concat ts) /\ delivered_exactly_once [] items Relay.BA (concat ts).
    Proof using Hhs HL shake_len shake_wf aes_block_len.
      intros ts p0 d Hd. apply (flow_answer_exact P (CVmess c) target (vm_info c target) ts (fun _ => True)); auto.
      apply e2e_answer_vmess; auto.
    Qed.
  End Vm.

  (* ---- Shadowsocks ---- *)
  Section Ss.
    Variable c : ss_cfg.
    Variables (kd : kind) (key : bytes).
    Hypothesis HL : prim_laws P.
    Hypothesis Hb3 : forall x m, lenN (p_b3derive P x m) = 32.
    Hypothesis Hhk : forall i sl info n, lenN (p_hkdf_sha1 P i sl info n) = n.
    Hypothesis Hcfg : ss_plain_cfg c kd key.
    Hypothesis Hcs : lenN (ss_csalt c) = kind_n kd.
    Hypothesis Hss : lenN (ss_ssalt c) = kind_n kd.

    (* legacy AEAD ciphers *)
    Section Legacy.
      Hypothesis Hk : is_2022 kd = false.
      Theorem e2e_request_bytes_exact_sslegacy : forall d, carries d (req_msgs P (CShadowsocks c) target ([] :: rs)) ->
        exists p0 chunks,
          req_serve P (CShadowsocks c) d = Some (target, p0 :: chunks, ss_info_legacy c target) /\
          p0 ++ concat chunks = dropN consumed s /\ delivered_exactly_once p0 chunks Relay.AB (dropN consumed s).
      Proof using Hhs Hwf Hrep Hrs HL Hb3 Hhk Hcfg Hcs Hk.
        intros d Hd.
        apply (flow_request_exact P (CShadowsocks c) s consumed target rs (ss_info_legacy c target) (fun _ => True)); auto.
        apply (e2e_request_sslegacy P HL Hb3 Hhk c kd key); auto. apply ws_ne.
      Qed.
      Theorem e2e_target_exact_sslegacy : forall d, carries d (req_msgs P (CShadowsocks c) target ([] :: rs)) ->
        exists ps, req_serve P (CShadowsocks c) d = Some (target, ps, ss_info_legacy c target).
      Proof using Hhs Hwf Hrep Hrs HL Hb3 Hhk Hcfg Hcs Hk. intros d Hd. destruct (e2e_request_bytes_exact_sslegacy d Hd) as (p0 & chunks & H & _). eauto. Qed.
      Theorem e2e_response_bytes_exact_sslegacy : forall ts p0 d,
        carries d (ans_msgs P (CShadowsocks c) (ss_info_legacy c target) ts) ->
        exists items, ans_recv P (CShadowsocks c) target d = Some items /\ concat items = concat ts /\
          delivered_exactly_once p0 ts Relay.BA (concat ts) /\ delivered_exactly_once [] items Relay.BA (concat ts).
      Proof using Hhs HL Hb3 Hhk Hcfg Hss Hk.
        intros ts p0 d Hd.
        apply (flow_answer_exact P (CShadowsocks c) target (ss_info_legacy c target) ts (fun _ => True)); auto.
        apply (e2e_answer_sslegacy P HL Hb3 Hhk c kd key); auto.
      Qed.
    End Legacy.

    (* Shadowsocks 2022 without identity header.  First-read exemption: the delivery must not let a poll see the salt
       complete and the fixed header incomplete (first_read_ok; true when the first non-empty segment holds both). *)
    Section S2022.
      Hypothesis Hk : is_2022 kd = true.
      Hypothesis Hpad : lenN (ss_cpad c) <= 900.
      Hypothesis Hnow : ss_cnow c < 2^64.
      Hypothesis Hclk : abs_diff (ss_snow c) (ss_cnow c) <= 30.
      Hypothesis Hfresh : mem_salt (ss_scache c) (ss_csalt c) = false.
      Theorem e2e_request_bytes_exact_ss2022 : forall d, carries d (req_msgs P (CShadowsocks c) target ([] :: rs)) ->
        first_read_ok (kind_n kd) 27 (delivered_segments d) ->
        exists p0 chunks,
          req_serve P (CShadowsocks c) d = Some (target, p0 :: chunks, ss_info_2022 c target) /\
          p0 ++ concat chunks = dropN consumed s /\ delivered_exactly_once p0 chunks Relay.AB (dropN consumed s).
      Proof using Hhs Hwf Hrep Hrs HL Hb3 Hhk Hcfg Hcs Hk Hpad Hnow Hclk Hfresh.
        intros d Hd Hfr.
        apply (flow_request_exact P (CShadowsocks c) s consumed target rs (ss_info_2022 c target)
                 (fun d => first_read_ok (kind_n kd) 27 (delivered_segments d))); auto.
        apply (e2e_request_ss2022 P HL Hb3 Hhk c kd key); auto. apply ws_ne.
      Qed.
      Theorem e2e_target_exact_ss2022 : forall d, carries d (req_msgs P (CShadowsocks c) target ([] :: rs)) ->
        first_read_ok (kind_n kd) 27 (delivered_segments d) ->
        exists ps, req_serve P (CShadowsocks c) d = Some (target, ps, ss_info_2022 c target).
      Proof using Hhs Hwf Hrep Hrs HL Hb3 Hhk Hcfg Hcs Hk Hpad Hnow Hclk Hfresh. intros d Hd Hfr. destruct (e2e_request_bytes_exact_ss2022 d Hd Hfr) as (p0 & chunks & H & _). eauto. Qed.

      Hypothesis Hnow2 : ss_snow2 c < 2^64.
      Hypothesis Hclk2 : abs_diff (ss_cnow2 c) (ss_snow2 c) <= 30.
      Hypothesis Hfresh2 : mem_salt (ss_ccache c) (ss_ssalt c) = false.
      Theorem e2e_response_bytes_exact_ss2022 : forall ts p0 d,
        carries d (ans_msgs P (CShadowsocks c) (ss_info_2022 c target) ts) ->
        first_read_ok (kind_n kd) (1 + 8 + kind_n kd + 2 + 16) (delivered_segments d) ->
        exists items, ans_recv P (CShadowsocks c) target d = Some items /\ concat items = concat ts /\
          delivered_exactly_once p0 ts Relay.BA (concat ts) /\ delivered_exactly_once [] items Relay.BA (concat ts).
      Proof using Hhs HL Hb3 Hhk Hcfg Hcs Hss Hk Hnow2 Hclk2 Hfresh2.
        intros ts p0 d Hd Hfr.
        apply (flow_answer_exact P (CShadowsocks c) target (ss_info_2022 c target) ts
                 (fun d => first_read_ok (kind_n kd) (1 + 8 + kind_n kd + 2 + 16) (delivered_segments d))); auto.
        apply (e2e_answer_ss2022 P HL Hb3 Hhk c kd key); auto.
      Qed.
    End S2022.

    (* Shadowsocks 2022 with an identity header (one identity key); the fixed header is 16 bytes longer *)
    Section S2022Identity.
      Variables (ukey ipsk : bytes) (users : list user) (u : user).
      Hypothesis Hid : ss_identity_cfg P c kd ukey ipsk users u.
      Hypothesis Haes : forall ky b, lenN b = 16 -> lenN (p_aes_enc P ky b) = 16.
      Hypothesis Hb3h : forall x, 16 <= lenN (p_b3hash P x).
      Hypothesis Hpad : lenN (ss_cpad c) <= 900.
      Hypothesis Hnow : ss_cnow c < 2^64.
      Hypothesis Hclk : abs_diff (ss_snow c) (ss_cnow c) <= 30.
      Hypothesis Hfresh : mem_salt (ss_scache c) (ss_csalt c) = false.
      Theorem e2e_request_bytes_exact_ss2022_identity : forall d, carries d (req_msgs P (CShadowsocks c) target ([] :: rs)) ->
        first_read_ok (kind_n kd) 43 (delivered_segments d) ->
        exists p0 chunks,
          req_serve P (CShadowsocks c) d = Some (target, p0 :: chunks, ss_info_identity c target u) /\
          p0 ++ concat chunks = dropN consumed s /\ delivered_exactly_once p0 chunks Relay.AB (dropN consumed s).
      Proof using Hhs Hwf Hrep Hrs HL Hb3 Hhk Hid Haes Hb3h Hcs Hpad Hnow Hclk Hfresh.
        intros d Hd Hfr.
        apply (flow_request_exact P (CShadowsocks c) s consumed target rs (ss_info_identity c target u)
                 (fun d => first_read_ok (kind_n kd) 43 (delivered_segments d))); auto.
        apply (e2e_request_ss2022_identity P HL Hb3 Hhk Haes Hb3h c kd ukey ipsk users u); auto. apply ws_ne.
      Qed.
      Theorem e2e_target_exact_ss2022_identity : forall d, carries d (req_msgs P (CShadowsocks c) target ([] :: rs)) ->
        first_read_ok (kind_n kd) 43 (delivered_segments d) ->
        exists ps, req_serve P (CShadowsocks c) d = Some (target, ps, ss_info_identity c target u).
      Proof using Hhs Hwf Hrep Hrs HL Hb3 Hhk Hid Haes Hb3h Hcs Hpad Hnow Hclk Hfresh.
        intros d Hd Hfr. destruct (e2e_request_bytes_exact_ss2022_identity d Hd Hfr) as (p0 & chunks & H & _). eauto.
      Qed.

      Hypothesis Hnow2 : ss_snow2 c < 2^64.
      Hypothesis Hclk2 : abs_diff (ss_cnow2 c) (ss_snow2 c) <= 30.
      Hypothesis Hfresh2 : mem_salt (ss_ccache c) (ss_ssalt c) = false.
      Theorem e2e_response_bytes_exact_ss2022_identity : forall ts p0 d,
        carries d (ans_msgs P (CShadowsocks c) (ss_info_identity c target u) ts) ->
        first_read_ok (kind_n kd) (1 + 8 + kind_n kd + 2 + 16) (delivered_segments d) ->
        exists items, ans_recv P (CShadowsocks c) target d = Some items /\ concat items = concat ts /\
          delivered_exactly_once p0 ts Relay.BA (concat ts) /\ delivered_exactly_once [] items Relay.BA (concat ts).
      Proof using Hhs HL Hb3 Hhk Hid Hcs Hss Hnow2 Hclk2 Hfresh2.
        intros ts p0 d Hd Hfr.
        apply (flow_answer_exact P (CShadowsocks c) target (ss_info_identity c target u) ts
                 (fun d => first_read_ok (kind_n kd) (1 + 8 + kind_n kd + 2 + 16) (delivered_segments d))); auto.
        apply (e2e_answer_ss2022_identity P HL Hb3 Hhk c kd ukey ipsk users u); auto.
      Qed.
    End S2022Identity.
  End Ss.
End PerProtocol.

(* ---- "when the target closes after answering, the application receives the complete answer followed by
        end-of-stream": codecs + pumps (Model/Relay) + exit paths (Model/ExitPaths over the generated tables) ---- *)
Theorem e2e_target_closes_after_answering : forall P cfg target info ts okd p0 d,
  answer_transparent P cfg target info ts okd -> carries d (ans_msgs P cfg info ts) -> okd d ->
  (* the server's target->link pump read exactly ts, then end-of-stream, and returned Close(Peer, Server) *)
  forall evsS, feeds ts (Relay.proj Relay.BA evsS) -> no_stream_error (Relay.proj Relay.BA evsS) ->
  let fS := Relay.run (Relay.init p0) (Relay.OpenOk :: evsS) in
  Relay.ph fS = Relay.Done (Some Relay.BA) Relay.Closed ->
  exists items,
    ans_recv P cfg target d = Some items /\ concat items = concat ts /\
    (* server: the whole answer went to the link, nothing in flight, the link was shut in order ... *)
    Relay.del (Relay.ba fS) = concat ts /\ Relay.inf (Relay.ba fS) = [] /\ Relay.shut (Relay.ba fS) = true /\
    (* ... and on every exit path (transport, first item, environment) the proxy client sees end-of-stream promptly *)
    (forall t kf env acks tr,
       ExitPaths.server_trace ExitPaths.current
         {| ExitPaths.s_t := t; ExitPaths.s_first := kf; ExitPaths.s_env := env;
            ExitPaths.s_end := (Some Relay.BA, Relay.Closed); ExitPaths.s_acks := acks |} = Some tr ->
       ExitPaths.prompt_before ExitPaths.PeerSeesEnd tr = true) /\
    (* client: its link->application pump reads the decoded items, then end-of-stream, and returns Close(Server, Client):
       the application has received the complete answer, its socket is shut down (end-of-stream) ... *)
    (forall evsC, feeds items (Relay.proj Relay.BA evsC) -> no_stream_error (Relay.proj Relay.BA evsC) ->
       let fC := Relay.run (Relay.init []) (Relay.OpenOk :: evsC) in
       Relay.ph fC = Relay.Done (Some Relay.BA) Relay.Closed ->
       Relay.del (Relay.ba fC) = concat ts /\ Relay.inf (Relay.ba fC) = [] /\ Relay.shut (Relay.ba fC) = true) /\
    (* ... and on every exit path of the client the application observes end-of-stream before the task waits *)
    (forall sc tr, ExitPaths.client_trace ExitPaths.current sc = Some tr ->
                   ExitPaths.prompt_before ExitPaths.AppSeesEnd tr = true).
Proof.
  intros P cfg target info ts okd p0 d Ht Hc Hok evsS HfS HeS fS HdS.
  destruct (flow_answer_exact P cfg target info ts okd p0 Ht d Hc Hok) as (items & Hit & Hci & HS & HC).
  exists items. split; [exact Hit|]. split; [exact Hci|].
  destruct (HS evsS HfS) as (_ & HS2). destruct (HS2 HeS HdS) as (D1 & D2 & D3). cbn [Relay.lane_of] in D1, D2, D3.
  split; [exact D1|]. split; [exact D2|]. split; [exact D3|]. split.
  - intros t kf env acks tr Htr.
    destruct (ExitPathFacts.target_closes_first_delivered_then_peer_sees_end p0 (Relay.OpenOk :: evsS) t kf env acks tr HdS Htr)
      as (_ & _ & _ & Hp). exact Hp.
  - split.
    + intros evsC HfC HeC fC HdC. destruct (HC evsC HfC) as (_ & HC2). exact (HC2 HeC HdC).
    + intros sc tr Htr. exact (ExitPathFacts.app_sees_end_promptly sc tr Htr).
Qed.

(* ---- down to the bytes of the application's request: exactly the host and port written there ---- *)
(* SOCKS5: greeting (any offered methods) and a CONNECT request for `a`, anything behind it *)
Theorem c01_socks5_connect_flow : forall P cfg i ms rsv a tail,
  let hs := ([5; lenN ms] ++ ms) ++ [5; 1; rsv] ++ s5_encode a in
  fi_app i = hs ++ tail -> forallb auth_method_ok ms = true ->
  flow_side_ok P cfg i a (lenN hs) ->
  exists to_target to_app,
    e2e_flow P cfg i = FRelayed KSocks5 a ([5; 0] ++ [5; 0; 0] ++ s5_encode (fi_local i)) (lenN hs) a to_target to_app /\
    concat to_target = tail /\ concat to_app = concat (fi_target i).
Proof.
  intros P cfg i ms rsv a tail hs Happ Hms Hside.
  assert (Hh : handshake (fi_app i) (fi_local i) (fi_hist i)
               = Tunnel KSocks5 a ([5; 0] ++ [5; 0; 0] ++ s5_encode (fi_local i)) (lenN hs)).
  { rewrite Happ. apply socks5_connect_exact; [exact Hms|apply Hside|apply Hside]. }
  destruct (c01_flow_transparent P cfg i _ _ _ _ (Build_flow_ok _ _ _ _ _ _ _ Hh Hside)) as (tt & ta & H1 & H2 & H3).
  exists tt, ta. split; [exact H1|]. split; [|exact H3]. rewrite H2, Happ. apply dropN_app_exact.
Qed.

(* HTTP CONNECT: optional empty lines, request line with method m and target u recognised as the tunnel target a,
   further head lines h2, the empty line; `rest` is what the application sends through the tunnel *)
Theorem c01_http_connect_flow : forall P cfg i bl m u h2 rest a,
  let head := request_line_bytes [] m u ++ h2 in
  fi_app i = bl ++ head ++ CRLFCRLF ++ rest ->
  blank_lines bl -> method_form m -> target_form u -> lenN (request_line_bytes bl m u) <= RECOGNIZE_WINDOW ->
  recognize_http m u = Ok (PHttps a) -> head_form head -> lenN bl + lenN head + 4 <= HEAD_WINDOW ->
  flow_side_ok P cfg i a (lenN bl + lenN head + 4) ->
  exists to_target to_app,
    e2e_flow P cfg i = FRelayed KHttps a REPLY_200 (lenN bl + lenN head + 4) a to_target to_app /\
    concat to_target = rest /\ concat to_app = concat (fi_target i).
Proof.
  intros P cfg i bl m u h2 rest a head Happ Hb Hm Hu Hl Hr Hh Hhl Hside.
  assert (Hhs : handshake (fi_app i) (fi_local i) (fi_hist i) = Tunnel KHttps a REPLY_200 (lenN bl + lenN head + 4)).
  { rewrite Happ. apply (connect_yields_exact_target bl m u h2 rest a); assumption. }
  destruct (c01_flow_transparent P cfg i _ _ _ _ (Build_flow_ok _ _ _ _ _ _ _ Hhs Hside)) as (tt & ta & H1 & H2 & H3).
  exists tt, ta. split; [exact H1|]. split; [|exact H3]. rewrite H2, Happ.
  replace (bl ++ head ++ CRLFCRLF ++ rest) with ((bl ++ head ++ CRLFCRLF) ++ rest) by (rewrite <- !app_assoc; reflexivity).
  replace (lenN bl + lenN head + 4) with (lenN (bl ++ head ++ CRLFCRLF)) by (rewrite !lenN_app; change (lenN CRLFCRLF) with 4; lia).
  apply dropN_app_exact.
Qed.
(* ... in particular CONNECT host:port names exactly that host and that port *)
Corollary c01_http_connect_host_port_flow : forall P cfg i bl h ds v h2 rest,
  let u := h ++ [ch_colon] ++ ds in
  let head := request_line_bytes [] CONNECT u ++ h2 in
  fi_app i = bl ++ head ++ CRLFCRLF ++ rest ->
  blank_lines bl -> target_form u -> lenN (request_line_bytes bl CONNECT u) <= RECOGNIZE_WINDOW ->
  host_form h -> host_ok h = true -> port_form ds v -> head_form head -> lenN bl + lenN head + 4 <= HEAD_WINDOW ->
  flow_side_ok P cfg i (ADom h v) (lenN bl + lenN head + 4) ->
  exists to_target to_app,
    e2e_flow P cfg i = FRelayed KHttps (ADom h v) REPLY_200 (lenN bl + lenN head + 4) (ADom h v) to_target to_app /\
    concat to_target = rest /\ concat to_app = concat (fi_target i).
Proof.
  intros P cfg i bl h ds v h2 rest u head Happ Hb Hu Hl Hh Hok Hp Hhf Hhl Hside.
  apply (c01_http_connect_flow P cfg i bl CONNECT u h2 rest (ADom h v)); try assumption.
  - split; [discriminate|reflexivity].
  - apply connect_exact; assumption.
Qed.

(* plain HTTP proxy request (absolute-URI): nothing is consumed, nothing is answered by the client: the request itself,
   from its first byte, is what the target receives *)
Theorem c01_plain_http_flow : forall P cfg i bl m u rest a,
  fi_app i = request_line_bytes bl m u ++ rest ->
  blank_lines bl -> method_form m -> target_form u -> lenN (request_line_bytes bl m u) <= RECOGNIZE_WINDOW ->
  recognize_http m u = Ok (PHttp a) ->
  flow_side_ok P cfg i a 0 ->
  exists to_target to_app,
    e2e_flow P cfg i = FRelayed KHttp a [] 0 a to_target to_app /\
    concat to_target = fi_app i /\ concat to_app = concat (fi_target i).
Proof.
  intros P cfg i bl m u rest a Happ Hb Hm Hu Hl Hr Hside.
  assert (Hhs : handshake (fi_app i) (fi_local i) (fi_hist i) = Tunnel KHttp a [] 0).
  { rewrite Happ. apply (plain_http_forwarded_untouched bl m u rest a); assumption. }
  destruct (c01_flow_transparent P cfg i _ _ _ _ (Build_flow_ok _ _ _ _ _ _ _ Hhs Hside)) as (tt & ta & H1 & H2 & H3).
  exists tt, ta. split; [exact H1|]. split; [|exact H3]. rewrite H2. reflexivity.
Qed.
(* ... in particular scheme://host/path without a port goes to that host, port 80 *)
Corollary c01_plain_http_default_port_flow : forall P cfg i bl m sc h p q rest,
  let u := sc ++ SEP ++ h ++ p ++ q in
  fi_app i = request_line_bytes bl m u ++ rest ->
  blank_lines bl -> method_form m -> target_form u -> lenN (request_line_bytes bl m u) <= RECOGNIZE_WINDOW ->
  bytes_eqb m CONNECT = false -> scheme_form sc -> host_form h -> host_ok h = true -> path_form p -> query_form q ->
  flow_side_ok P cfg i (ADom h 80) 0 ->
  exists to_target to_app,
    e2e_flow P cfg i = FRelayed KHttp (ADom h 80) [] 0 (ADom h 80) to_target to_app /\
    concat to_target = fi_app i /\ concat to_app = concat (fi_target i).
Proof.
  intros P cfg i bl m sc h p q rest u Happ Hb Hm Hu Hl Hnc Hsc Hh Hok Hp Hq Hside.
  apply (c01_plain_http_flow P cfg i bl m u rest (ADom h 80)); try assumption.
  apply authority_exact_noport; assumption.
Qed.

(* ---- every target the handshake hands out is one the codecs accept (provided the stream consists of bytes):
        the two address hypotheses of flow_ok follow from the handshake's own checks ---- *)
Lemma wf_bytes_incl (a b : bytes) : (forall x, In x a -> In x b) -> wf_bytes b -> wf_bytes a.
Proof. unfold wf_bytes. rewrite !Forall_forall. auto. Qed.
Lemma wf_bytes_takeN n (l : bytes) : wf_bytes l -> wf_bytes (takeN n l).
Proof. apply wf_bytes_incl. intros x. apply in_firstn. Qed.
Lemma wf_bytes_dropN n (l : bytes) : wf_bytes l -> wf_bytes (dropN n l).
Proof. apply wf_bytes_incl. intros x. apply in_skipn. Qed.
Lemma be2_lt (l : bytes) : wf_bytes l -> lenN (takeN 2 l) <= 2 -> be (takeN 2 l) < 65536.
Proof.
  intros Hw Hl. pose proof (VmessFacts.be_lt (takeN 2 l) (wf_bytes_takeN 2 l Hw)) as H.
  assert (256 ^ lenN (takeN 2 l) <= 256 ^ 2) by (apply N.pow_le_mono_r; lia). change (256 ^ 2) with 65536 in *. lia.
Qed.
Lemma lenN_takeN_le' n (l : bytes) : lenN (takeN n l) <= n.
Proof. rewrite lenN_spec. unfold takeN. rewrite firstn_length. lia. Qed.

Lemma s5_decode_wf src a r : wf_bytes src -> s5_decode src = Ok (a, r) -> addr_wf a.
Proof.
  intros Hw. unfold s5_decode.
  destruct (s5_try_decode_at src 0) as [[n|]|e|]; cbn [bind]; try discriminate.
  destruct (lenN src <? n); [discriminate|].
  destruct src as [|t r0]; cbn [get_u8 bind]; [discriminate|].
  assert (Hw0 : wf_bytes r0) by (inversion Hw; assumption).
  assert (P16 : forall l, wf_bytes l -> be (takeN 2 l) < 65536) by (intros l Hl; apply be2_lt; [exact Hl|apply lenN_takeN_le']).
  destruct (t =? 1).
  - destruct (split_to 4 r0) as [[ip r1]| |] eqn:E1; cbn [bind]; try discriminate.
    apply split_to_inv in E1. destruct E1 as (H4 & -> & ->).
    destruct (get_u16 (dropN 4 r0)) as [[p r2]| |] eqn:E2; cbn [bind]; try discriminate.
    apply get_be_inv in E2. destruct E2 as (_ & -> & _). intros [= <- _].
    split; [apply lenN_takeN; exact H4|]. split; [apply wf_bytes_takeN; exact Hw0|]. apply P16, wf_bytes_dropN, Hw0.
  - destruct (t =? 3).
    + destruct r0 as [|l r1]; cbn [get_u8 bind]; [discriminate|].
      assert (Hw1 : wf_bytes r1) by (inversion Hw0; assumption).
      destruct (split_to l r1) as [[h r2]| |] eqn:E1; cbn [bind]; try discriminate.
      apply split_to_inv in E1. destruct E1 as (_ & -> & ->).
      destruct (get_u16 (dropN l r1)) as [[p r3]| |] eqn:E2; cbn [bind]; try discriminate.
      apply get_be_inv in E2. destruct E2 as (_ & -> & _). intros [= <- _].
      split; [apply wf_bytes_takeN; exact Hw1|]. apply P16, wf_bytes_dropN, Hw1.
    + destruct (split_to 16 r0) as [[ip r1]| |] eqn:E1; cbn [bind]; try discriminate.
      apply split_to_inv in E1. destruct E1 as (H4 & -> & ->).
      destruct (get_u16 (dropN 16 r0)) as [[p r2]| |] eqn:E2; cbn [bind]; try discriminate.
      apply get_be_inv in E2. destruct E2 as (_ & -> & _). intros [= <- _].
      split; [apply lenN_takeN; exact H4|]. split; [apply wf_bytes_takeN; exact Hw0|]. apply P16, wf_bytes_dropN, Hw0.
Qed.

Lemma s5_command_request_wf src r c a : wf_bytes src -> s5_command_request src = Ok (r, Some (c, a)) -> addr_wf a.
Proof.
  intros Hw. unfold s5_command_request.
  destruct (lenN src <? 4); [discriminate|].
  destruct (index src 0) as [v| |]; cbn [bind]; try discriminate. destruct (negb (v =? S5_VERSION)); [discriminate|].
  destruct (index src 1) as [c'| |]; cbn [bind]; try discriminate. destruct (negb (command_ok c')); [discriminate|].
  destruct (s5_try_decode_at src 3) as [[al|]| |]; cbn [bind]; try discriminate.
  destruct (lenN src <? 3 + al); [discriminate|].
  destruct (advance 3 src) as [r3| |] eqn:E3; cbn [bind]; try discriminate.
  destruct (s5_decode r3) as [[ad r4]| |] eqn:E4; cbn [bind]; try discriminate.
  intros [= _ _ <-]. apply (s5_decode_wf r3 ad r4); [|exact E4].
  unfold advance in E3. destruct (3 <=? lenN src); [|discriminate]. injection E3 as <-. apply wf_bytes_dropN, Hw.
Qed.

Lemma s5_initial_request_rest g bg ms : s5_initial_request g = Ok (bg, Some ms) -> forall x, In x bg -> In x g.
Proof.
  unfold s5_initial_request. destruct (lenN g <? 2); [discriminate|].
  destruct (index g 0) as [v| |]; cbn [bind]; try discriminate. destruct (negb (v =? S5_VERSION)); [discriminate|].
  destruct (index g 1) as [cnt| |]; cbn [bind]; try discriminate. destruct (lenN g <? 2 + cnt); [discriminate|].
  destruct (advance 2 g) as [r| |] eqn:E2; cbn [bind]; try discriminate.
  destruct (split_to cnt r) as [[ms' r2]| |] eqn:E3; cbn [bind]; try discriminate.
  destruct (forallb auth_method_ok ms'); [|discriminate]. intros [= <- _] x Hx.
  apply split_to_inv in E3. destruct E3 as (_ & _ & ->).
  unfold advance in E2. destruct (2 <=? lenN g); [|discriminate]. injection E2 as <-.
  apply in_skipn in Hx. apply in_skipn in Hx. exact Hx.
Qed.

Lemma s5_finish_tunnel_rep local cmd dst r k a reply n : s5_finish local cmd dst r = Tunnel k a reply n -> representable a.
Proof.
  unfold s5_finish. destruct (negb (cmd =? 1) || match dst with ADom h _ => lenN h =? 0 | _ => false end); [discriminate|].
  destruct dst as [ip p|ip p|h p].
  - intros [= _ <- _ _]. exact I.
  - intros [= _ <- _ _]. exact I.
  - destruct (host_ok h) eqn:Hh; [|discriminate]. intros [= _ <- _ _]. apply host_ok_range, Hh.
Qed.

Theorem handshake_target_acceptable : forall s local hist k a reply n,
  wf_bytes s -> handshake s local hist = Tunnel k a reply n -> addr_wf a /\ representable a.
Proof.
  intros s local hist k a reply n Hw H. destruct (is_socks5 s) eqn:Hs.
  - split.
    + destruct (socks5_tunnel_sound s local hist k a reply n Hs H) as (_ & _ & g & bg & ms & r & br & tl & Es & Hg & Hr & _).
      apply (s5_command_request_wf (bg ++ r) br 1 a); [|exact Hr].
      subst s. apply Forall_app in Hw. destruct Hw as [Hwg Hw2]. apply Forall_app in Hw2. destruct Hw2 as [Hwr _].
      apply Forall_app. split; [|exact Hwr]. apply (wf_bytes_incl bg g); [apply (s5_initial_request_rest g bg ms Hg)|exact Hwg].
    + rewrite (handshake_socks5 s local hist Hs) in H. unfold s5_handshake in H.
      destruct (s5_read_message s5_initial_request [] s) as [ms bg un| | |]; try discriminate.
      destruct (s5_read_message s5_command_request bg un) as [[cmd dst] br un'| | |]; try discriminate.
      eapply s5_finish_tunnel_rep. exact H.
  - destruct (http_tunnel_sound s local hist k a reply n Hs H) as (bl & m & u & r & Es & _ & _ & _ & _ & Hk).
    assert (Hr : recognize_http m u = Ok (PHttp a) \/ recognize_http m u = Ok (PHttps a))
      by (destruct Hk as [(_ & Hr & _)|(_ & Hr & _)]; auto).
    destruct (recognize_http_cases m u) as [[e E]|(h & v & E & Hl & Hv & Hin)].
    { rewrite E in Hr. destruct Hr; discriminate. }
    assert (Ea : a = ADom h v).
    { rewrite E in Hr. destruct (bytes_eqb m CONNECT); destruct Hr as [Hr|Hr]; try discriminate Hr; injection Hr as <-; reflexivity. }
    subst a. split; [|exact Hl]. split; [|exact Hv].
    apply (wf_bytes_incl h s); [|exact Hw]. intros x Hx. apply Hin in Hx. subst s. unfold request_line_bytes.
    apply in_or_app. left. apply in_or_app. right. apply in_or_app. right. apply in_or_app. right. apply in_or_app. left. exact Hx.
Qed.

(* C01 for a stream of bytes: the address hypotheses of flow_ok are consequences *)
Corollary c01_flow_transparent_bytes : forall P cfg i k target reply consumed,
  wf_bytes (fi_app i) ->
  handshake (fi_app i) (fi_local i) (fi_hist i) = Tunnel k target reply consumed ->
  proto_ok P cfg target -> reads_split i consumed ->
  carries (fi_req i) (req_msgs P cfg target ([] :: fi_reads i)) -> req_delivery_ok cfg (fi_req i) ->
  carries (fi_ans i) (ans_msgs P cfg (info_of P cfg target) (fi_target i)) -> ans_delivery_ok cfg (fi_ans i) ->
  exists to_target to_app,
    e2e_flow P cfg i = FRelayed k target reply consumed target to_target to_app /\
    concat to_target = dropN consumed (fi_app i) /\ concat to_app = concat (fi_target i).
Proof.
  intros P cfg i k target reply consumed Hw Hh Hp Hr Hq Hqf Ha Haf.
  destruct (handshake_target_acceptable _ _ _ _ _ _ _ Hw Hh) as [Hwf Hrep].
  apply c01_flow_transparent. constructor; [exact Hh|]. constructor; assumption.
Qed.

(* ---- what the bundled hypotheses say, spelled out (so that the pinned statements show them) ---- *)
Lemma flow_ok_meaning P cfg i k target reply consumed :
  flow_ok P cfg i k target reply consumed <->
  handshake (fi_app i) (fi_local i) (fi_hist i) = Tunnel k target reply consumed /\
  addr_wf target /\ representable target /\ proto_ok P cfg target /\
  concat (fi_reads i) = dropN consumed (fi_app i) /\
  (exists ms, req_msgs P cfg target ([] :: fi_reads i) = Ok ms /\ delivered_bytes (fi_req i) = concat ms) /\
  req_delivery_ok cfg (fi_req i) /\
  (exists ms, ans_msgs P cfg (info_of P cfg target) (fi_target i) = Ok ms /\ delivered_bytes (fi_ans i) = concat ms) /\
  ans_delivery_ok cfg (fi_ans i).
Proof.
  assert (C : forall d r, carries d r <-> exists ms, r = Ok ms /\ delivered_bytes d = concat ms).
  { intros d [ms|e|]; cbn [carries]; split.
    - intros H. exists ms. auto.
    - intros (ms' & [= <-] & H). exact H.
    - contradiction.
    - intros (ms' & H & _). discriminate H.
    - contradiction.
    - intros (ms' & H & _). discriminate H. }
  split.
  - intros [Hh [H1 H2 H3 H4 H5 H6 H7 H8]]. apply C in H5. apply C in H7. auto 10.
  - intros (Hh & H1 & H2 & H3 & H4 & H5 & H6 & H7 & H8). apply C in H5. apply C in H7.
    constructor; [exact Hh|]. constructor; assumption.
Qed.
Lemma proto_ok_shadowsocks_meaning P c target :
  proto_ok P (CShadowsocks c) target <->
  prim_laws P /\ (forall x m, lenN (p_b3derive P x m) = 32) /\ (forall i s info n, lenN (p_hkdf_sha1 P i s info n) = n) /\
  ((exists key cu,
      ss_cxc c = {| c_kind := ss_kind c; c_key := key; c_ikeys := []; c_users := None |} /\
      ss_cxs c = {| c_kind := ss_kind c; c_key := key; c_ikeys := []; c_users := cu |} /\ (cu = None \/ cu = Some [])) \/
   (exists ukey ipsk users u,
      (ss_cxc c = {| c_kind := ss_kind c; c_key := ukey; c_ikeys := [ipsk]; c_users := None |} /\
       ss_cxs c = {| c_kind := ss_kind c; c_key := ipsk; c_ikeys := []; c_users := Some users |} /\
       support_eih (ss_kind c) = true /\ users <> [] /\
       find_user users (takeN 16 (p_b3hash P ukey)) = Some u /\ u_key u = ukey) /\
      (forall key b, lenN b = 16 -> lenN (p_aes_enc P key b) = 16) /\ (forall x, 16 <= lenN (p_b3hash P x)))) /\
  lenN (ss_csalt c) = kind_n (ss_kind c) /\ lenN (ss_ssalt c) = kind_n (ss_kind c) /\
  (is_2022 (ss_kind c) = true ->
     lenN (ss_cpad c) <= 900 /\ ss_cnow c < 2^64 /\ abs_diff (ss_snow c) (ss_cnow c) <= 30 /\
     mem_salt (ss_scache c) (ss_csalt c) = false /\
     ss_snow2 c < 2^64 /\ abs_diff (ss_cnow2 c) (ss_snow2 c) <= 30 /\ mem_salt (ss_ccache c) (ss_ssalt c) = false).
Proof.
  cbn [proto_ok]. unfold ss_plain_cfg, ss_identity_cfg.
  split; intros (H1 & H2 & H3 & H4 & H5); (split; [exact H1|]; split; [exact H2|]; split; [exact H3|]; split; [|exact H5]).
  - destruct H4 as [(key & Hc & cu & Hs & Hcu) | H4]; [left; exists key, cu; auto|right; exact H4].
  - destruct H4 as [(key & cu & Hc & Hs & Hcu) | H4]; [left; exists key; split; [exact Hc|exists cu; auto]|right; exact H4].
Qed.
Lemma proto_ok_vmess_meaning P c target :
  proto_ok P (CVmess c) target <->
  prim_laws P /\ (forall seed n, lenN (p_shake128 P seed n) = n) /\ (forall seed n, wf_bytes (p_shake128 P seed n)) /\
  (forall k b, lenN b = 16 -> lenN (p_aes_enc P k b) = 16) /\
  (addr_wf target /\ representable target /\ (forall host p, target = ADom host p -> Utf8.utf8_valid host = true) /\
   vm_opt c < 32 /\ vm_sec c < 16) /\
  (lenN (vs_iv (vm_sess c)) = 16 /\ lenN (vs_key (vm_sess c)) = 16) /\
  lenN (vm_hpad c) < 16 /\ lenN (vm_rnd4 c) = 4 /\ lenN (vm_cnonce c) = 8 /\
  auth_id_matching P (vm_snow c) (auth_id_create P (vm_id c) (vm_ts c) (vm_rnd4 c)) (vm_keys c) = Some (vm_id c).
Proof. reflexivity. Qed.
Lemma proto_ok_trojan_meaning P c target :
  proto_ok P (CTrojan c) target <->
  wf_bytes (p_sha224 P (tj_pw c)) /\ lenN (p_sha224 P (tj_pw c)) = 28 /\ tj_key c = trojan_key P (tj_pw c).
Proof. reflexivity. Qed.
Lemma delivery_ok_shadowsocks_meaning c d1 d2 :
  (req_delivery_ok (CShadowsocks c) d1 <->
   (is_2022 (ss_kind c) = true ->
    Forall (fun m => m < kind_n (ss_kind c) \/ kind_n (ss_kind c) + ss_req_header_len (ss_cxs c) <= m)
           (arrivals 0 (delivered_segments d1)))) /\
  (ans_delivery_ok (CShadowsocks c) d2 <->
   (is_2022 (ss_kind c) = true ->
    Forall (fun m => m < kind_n (ss_kind c) \/ kind_n (ss_kind c) + (1 + 8 + kind_n (ss_kind c) + 2 + 16) <= m)
           (arrivals 0 (delivered_segments d2)))).
Proof. split; reflexivity. Qed.
Lemma delivery_ok_others_meaning cfg d : (forall c, cfg <> CShadowsocks c) -> req_delivery_ok cfg d /\ ans_delivery_ok cfg d.
Proof. destruct cfg as [c|c|c]; intros H; [exfalso; apply (H c); reflexivity| |]; split; exact I. Qed.
Lemma delivered_exactly_once_meaning first items d data :
  delivered_exactly_once first items d data <->
  forall evs, feeds items (Relay.proj d evs) ->
    (exists rest, data = Relay.del (Relay.lane_of d (Relay.run (Relay.init first) (Relay.OpenOk :: evs))) ++ rest) /\
    (no_stream_error (Relay.proj d evs) ->
     Relay.ph (Relay.run (Relay.init first) (Relay.OpenOk :: evs)) = Relay.Done (Some d) Relay.Closed ->
     Relay.del (Relay.lane_of d (Relay.run (Relay.init first) (Relay.OpenOk :: evs))) = data /\
     Relay.inf (Relay.lane_of d (Relay.run (Relay.init first) (Relay.OpenOk :: evs))) = [] /\
     Relay.shut (Relay.lane_of d (Relay.run (Relay.init first) (Relay.OpenOk :: evs))) = true).
Proof. reflexivity. Qed.

(* ============================================================================================= *)
(* E. non-vacuity: one concrete flow per protocol family; every hypothesis of flow_ok is discharged *)
(*    and the flow is evaluated (vm_compute) to the expected target and bytes                       *)
(* ============================================================================================= *)
Module E2EExamples.
  Definition msgs_of (r : res (list bytes)) : list bytes := match r with Ok ms => ms | _ => [] end.
  (* cut a byte string after n1, then n2, ... bytes *)
  Fixpoint cut (ns : list nat) (b : bytes) : list bytes :=
    match ns with [] => [b] | n :: t => firstn n b :: cut t (skipn n b) end.

  Module Str.
    Import String.
    Definition connect_line : bytes := HttpFacts.bs "CONNECT ex.org:443 HTTP/1.1".
    Definition host_line443 : bytes := HttpFacts.bs "Host: ex.org:443".
    Definition get_line : bytes := HttpFacts.bs "GET http://ex.org/index HTTP/1.1".
    Definition host_line : bytes := HttpFacts.bs "Host: ex.org".
  End Str.
  Definition ex_org : bytes := [101; 120; 46; 111; 114; 103].                       (* "ex.org" *)
  Definition target443 : addr := ADom ex_org 443.
  Definition target80 : addr := ADom ex_org 80.
  Definition LOCAL : addr := AV4 [127; 0; 0; 1] 1080.
  Definition hello : bytes := [104; 101; 108; 108; 111; 32].                         (* "hello " *)
  Definition world : bytes := [119; 111; 114; 108; 100; 33].                         (* "world!" *)
  Definition answer1 : bytes := [72; 84; 84; 80].                                    (* "HTTP" *)
  Definition answer2 : bytes := [47; 49; 46; 49; 32; 50; 48; 48].                    (* "/1.1 200" *)
  (* SOCKS5: greeting, CONNECT ex.org:443, then early data *)
  Definition app_socks : bytes := [5; 1; 0] ++ ([5; 1; 0] ++ s5_encode target443) ++ hello ++ world.
  (* two empty lines, "CONNECT ex.org:443 HTTP/1.1", a Host line, the empty line, then data *)
  Definition app_connect : bytes :=
    [13; 10; 13; 10] ++ Str.connect_line ++ [13; 10] ++ Str.host_line443 ++ CRLFCRLF ++ hello ++ world.
  (* "GET http://ex.org/index HTTP/1.1" ... : forwarded as it is, to port 80 *)
  Definition app_plain : bytes :=
    Str.get_line ++ [13; 10] ++ Str.host_line ++ CRLFCRLF.

  Definition mk_in (P : prims) (cfg : proto_cfg) (app : bytes) (hist : list N) (target : addr) (reads : list bytes)
             (req_cuts : option (list nat)) (treads : list bytes) (ans_cuts : option (list nat)) : flow_in :=
    let req := msgs_of (req_msgs P cfg target ([] :: reads)) in
    let ans := msgs_of (ans_msgs P cfg (info_of P cfg target) treads) in
    {| fi_app := app; fi_hist := hist; fi_local := LOCAL; fi_reads := reads;
       fi_req := match req_cuts with Some ns => DStream (cut ns (concat req)) | None => ws_of_msgs req end;
       fi_target := treads;
       fi_ans := match ans_cuts with Some ns => DStream (cut ns (concat ans)) | None => ws_of_msgs ans end |}.

  Ltac ok_side := constructor; [ | | | vm_compute; reflexivity | vm_compute; reflexivity | | vm_compute; reflexivity | ].
  Lemma target443_wf : addr_wf target443. Proof. split; [unfold wf_bytes, ex_org; repeat constructor|reflexivity]. Qed.
  Lemma target443_rep : representable target443. Proof. vm_compute. split; discriminate. Qed.
  Lemma target80_wf : addr_wf target80. Proof. split; [unfold wf_bytes, ex_org; repeat constructor|reflexivity]. Qed.
  Lemma target80_rep : representable target80. Proof. vm_compute. split; discriminate. Qed.

  (* ---------------- Trojan, SOCKS5, request over a stream cut inside the hash / CRLF / address, answer over WebSocket ---- *)
  Definition tjP := dummy_prims.
  Definition tj_c : tj_cfg := {| tj_pw := [112; 119]; tj_key := repeat 171 28 |}.
  Definition tj_in : flow_in :=
    mk_in tjP (CTrojan tj_c) app_socks [2; 9; 16; 20] target443 [hello; world] (Some [30; 27; 3; 8; 3]%nat) [answer1; answer2] None.
  Example tj_flow_ok : flow_ok tjP (CTrojan tj_c) tj_in KSocks5 target443 [5; 0; 5; 0; 0; 1; 127; 0; 0; 1; 4; 56] 16.
  Proof.
    constructor; [vm_compute; reflexivity|]. ok_side.
    - exact target443_wf.
    - exact target443_rep.
    - cbn [proto_ok]. split; [|split; reflexivity]. apply Forall_forall. intros x Hx. apply repeat_spec in Hx. subst x. reflexivity.
    - exact I.
    - exact I.
  Qed.
  Example tj_flow :
    e2e_flow tjP (CTrojan tj_c) tj_in
    = FRelayed KSocks5 target443 [5; 0; 5; 0; 0; 1; 127; 0; 0; 1; 4; 56] 16 target443 [[]; hello ++ world] [answer1; answer2].
  Proof. vm_compute. reflexivity. Qed.

  (* ---------------- Shadowsocks 2022, HTTP CONNECT, request over WebSocket (the encoder's messages), answer over a stream ---- *)
  Module T := SsTcpRoundtrip.ToyPrims.
  Definition ss22_c : ss_cfg :=
    {| ss_cxc := {| c_kind := K22_A128; c_key := T.key16; c_ikeys := []; c_users := None |};
       ss_cxs := {| c_kind := K22_A128; c_key := T.key16; c_ikeys := []; c_users := Some [] |};
       ss_csalt := T.salt16; ss_cpad := [0; 0; 0]; ss_cnow := 1000; ss_snow := 1010; ss_scache := [T.salt16'];
       ss_ssalt := T.salt16'; ss_snow2 := 1011; ss_cnow2 := 1005; ss_ccache := [] |}.
  Definition ss22_in : flow_in :=
    mk_in T.toyP (CShadowsocks ss22_c) app_connect [10; 40] target443 [hello; world] None [answer1; answer2] (Some [59; 3; 20]%nat).
  Lemma ss_toy_proto (c : ss_cfg) target :
    ((exists key, ss_plain_cfg c (ss_kind c) key) \/
     (exists ukey ipsk users u, ss_identity_cfg T.toyP c (ss_kind c) ukey ipsk users u /\
        (forall key b, lenN b = 16 -> lenN (p_aes_enc T.toyP key b) = 16) /\ (forall x, 16 <= lenN (p_b3hash T.toyP x)))) ->
    lenN (ss_csalt c) = kind_n (ss_kind c) -> lenN (ss_ssalt c) = kind_n (ss_kind c) ->
    (is_2022 (ss_kind c) = true ->
       lenN (ss_cpad c) <= 900 /\ ss_cnow c < 2^64 /\ abs_diff (ss_snow c) (ss_cnow c) <= 30 /\
       mem_salt (ss_scache c) (ss_csalt c) = false /\
       ss_snow2 c < 2^64 /\ abs_diff (ss_cnow2 c) (ss_snow2 c) <= 30 /\ mem_salt (ss_ccache c) (ss_ssalt c) = false) ->
    proto_ok T.toyP (CShadowsocks c) target.
  Proof.
    intros H1 H2 H3 H4. cbn [proto_ok].
    split; [exact T.toy_laws|]. split; [exact T.toy_b3_len|]. split; [exact T.toy_hkdf_len|]. auto.
  Qed.
  Example ss22_flow_ok : flow_ok T.toyP (CShadowsocks ss22_c) ss22_in KHttps target443 REPLY_200 53.
  Proof.
    constructor; [vm_compute; reflexivity|]. ok_side.
    - exact target443_wf.
    - exact target443_rep.
    - apply ss_toy_proto; try reflexivity.
      + left. exists T.key16. split; [reflexivity|]. exists (Some []). auto.
      + intros _. vm_compute. repeat split; discriminate.
    - intros _. apply first_read_okb_ok. vm_compute. reflexivity.
    - intros _. apply first_read_okb_ok. vm_compute. reflexivity.
  Qed.
  Example ss22_flow :
    e2e_flow T.toyP (CShadowsocks ss22_c) ss22_in
    = FRelayed KHttps target443 REPLY_200 53 target443 [[]; hello; world] [answer1; answer2].
  Proof. vm_compute. reflexivity. Qed.
  (* the first-read exemption is a genuine hypothesis: the same flow with the request wire cut after 20 bytes (salt
     complete, fixed header not) is refused by the model's server (Err EShort) *)
  Example ss22_first_read_needed :
    let i := mk_in T.toyP (CShadowsocks ss22_c) app_connect [10; 40] target443 [hello; world] (Some [20]%nat) [answer1; answer2] (Some [59]%nat) in
    first_read_okb 16 27 (delivered_segments (fi_req i)) = false /\ e2e_flow T.toyP (CShadowsocks ss22_c) i = FServerRefused.
  Proof. vm_compute. split; reflexivity. Qed.

  (* ---------------- Shadowsocks 2022 with identity header, SOCKS5, both over streams ---------------- *)
  Module TS := SsTcpStreamReq.ToyStream.
  Definition ssid_c : ss_cfg :=
    {| ss_cxc := TS.cxI; ss_cxs := TS.cxsI;
       ss_csalt := T.salt16; ss_cpad := [0; 0; 0]; ss_cnow := 1000; ss_snow := 1010; ss_scache := [];
       ss_ssalt := T.salt16'; ss_snow2 := 1011; ss_cnow2 := 1005; ss_ccache := [] |}.
  Definition ssid_in : flow_in :=
    mk_in T.toyP (CShadowsocks ssid_c) app_socks [] target443 [hello; world] (Some [5; 7; 0; 60; 3; 20; 1]%nat)
          [answer1; answer2] (Some [70; 2]%nat).
  Example ssid_flow_ok : flow_ok T.toyP (CShadowsocks ssid_c) ssid_in KSocks5 target443 [5; 0; 5; 0; 0; 1; 127; 0; 0; 1; 4; 56] 16.
  Proof.
    constructor; [vm_compute; reflexivity|]. ok_side.
    - exact target443_wf.
    - exact target443_rep.
    - apply ss_toy_proto; try reflexivity.
      + right. exists TS.ukey, TS.ipsk, [TS.bob; TS.alice], TS.alice.
        split; [|split; [exact TS.toy_aes_len|exact TS.toy_b3h_len]].
        split; [reflexivity|]. split; [reflexivity|]. split; [reflexivity|]. split; [discriminate|]. split; reflexivity.
      + intros _. vm_compute. repeat split; discriminate.
    - intros _. apply first_read_okb_ok. vm_compute. reflexivity.
    - intros _. apply first_read_okb_ok. vm_compute. reflexivity.
  Qed.
  Example ssid_flow :
    e2e_flow T.toyP (CShadowsocks ssid_c) ssid_in
    = FRelayed KSocks5 target443 [5; 0; 5; 0; 0; 1; 127; 0; 0; 1; 4; 56] 16 target443 [[]; hello ++ world] [answer1; answer2].
  Proof. vm_compute. reflexivity. Qed.

  (* ---------------- Shadowsocks legacy, plain HTTP, both over streams cut inside salt and chunks ---------------- *)
  Definition ssl_c : ss_cfg :=
    {| ss_cxc := {| c_kind := K_A128; c_key := T.key16; c_ikeys := []; c_users := None |};
       ss_cxs := {| c_kind := K_A128; c_key := T.key16; c_ikeys := []; c_users := None |};
       ss_csalt := T.salt16; ss_cpad := []; ss_cnow := 0; ss_snow := 99; ss_scache := [];
       ss_ssalt := T.salt16'; ss_snow2 := 0; ss_cnow2 := 0; ss_ccache := [] |}.
  Definition ssl_in : flow_in :=
    mk_in T.toyP (CShadowsocks ssl_c) app_plain [] target80 [firstn 20 app_plain; skipn 20 app_plain]
          (Some [7; 10; 30; 1]%nat) [answer1; answer2] (Some [3; 20; 20]%nat).
  Example ssl_flow_ok : flow_ok T.toyP (CShadowsocks ssl_c) ssl_in KHttp target80 [] 0.
  Proof.
    constructor; [vm_compute; reflexivity|]. ok_side.
    - exact target80_wf.
    - exact target80_rep.
    - apply ss_toy_proto; try reflexivity.
      + left. exists T.key16. split; [reflexivity|]. exists None. auto.
      + intros H. discriminate H.
    - intros H. discriminate H.
    - intros H. discriminate H.
  Qed.
  (* the plain HTTP request itself, from its first byte, is what the target receives *)
  Example ssl_flow :
    exists to_target to_app,
      e2e_flow T.toyP (CShadowsocks ssl_c) ssl_in = FRelayed KHttp target80 [] 0 target80 to_target to_app /\
      concat to_target = app_plain /\ concat to_app = answer1 ++ answer2.
  Proof. eexists _, _. vm_compute. repeat split. Qed.

  (* ---------------- VMess (all five option bits, chacha20-poly1305), SOCKS5, streams cut inside auth id / header ---- *)
  Module V := VmessSafety.ToyVmess.
  Definition vm_c : vm_cfg :=
    {| vm_id := V.uid; vm_keys := [V.uid2; V.uid]; vm_opt := 29; vm_sec := 4; vm_sess := V.sess; vm_ts := V.now0; vm_rnd4 := V.rnd4;
       vm_cnonce := V.cnonce; vm_hpad := [9; 9; 9]; vm_cpads := [[1; 2; 3]; [4; 5]]; vm_snow := V.now0 + 100; vm_spads := [[7]] |}.
  Definition vm_in : flow_in :=
    mk_in V.toyV (CVmess vm_c) app_socks [] target443 [hello; world] (Some [10; 20; 50; 40; 3]%nat) [answer1; answer2] (Some [17; 25; 9]%nat).
  Example vm_flow_ok : flow_ok V.toyV (CVmess vm_c) vm_in KSocks5 target443 [5; 0; 5; 0; 0; 1; 127; 0; 0; 1; 4; 56] 16.
  Proof.
    constructor; [vm_compute; reflexivity|]. ok_side.
    - exact target443_wf.
    - exact target443_rep.
    - cbn [proto_ok]. split; [exact V.toy_laws|]. split; [exact V.toy_shake_len|]. split; [exact V.toy_shake_wf|].
      split; [exact VmessRoundtrip.ToyRoundtrip.toy_aes_block_len|].
      split; [apply (VmessRoundtrip.ToyRoundtrip.toy_hdr_ok 29 4 CmdTcp); reflexivity|].
      split; [exact VmessRoundtrip.ToyRoundtrip.toy_sess_ok|].
      split; [reflexivity|]. split; [reflexivity|]. split; [reflexivity|]. vm_compute. reflexivity.
    - exact I.
    - exact I.
  Qed.
  Example vm_flow :
    e2e_flow V.toyV (CVmess vm_c) vm_in
    = FRelayed KSocks5 target443 [5; 0; 5; 0; 0; 1; 127; 0; 0; 1; 4; 56] 16 target443 [[]; hello ++ world] [answer1 ++ answer2].
  Proof. vm_compute. reflexivity. Qed.

  (* the summary theorem applied (not computed) to each of them *)
  Example tj_by_theorem := c01_flow_transparent _ _ _ _ _ _ _ tj_flow_ok.
  Example ss22_by_theorem := c01_flow_transparent _ _ _ _ _ _ _ ss22_flow_ok.
  Example ssid_by_theorem := c01_flow_transparent _ _ _ _ _ _ _ ssid_flow_ok.
  Example ssl_by_theorem := c01_flow_transparent _ _ _ _ _ _ _ ssl_flow_ok.
  Example vm_by_theorem := c01_flow_transparent _ _ _ _ _ _ _ vm_flow_ok.
End E2EExamples.

Print Assumptions pumps_deliver.
Print Assumptions e2e_request_trojan.
Print Assumptions e2e_answer_trojan.
Print Assumptions e2e_request_ss2022.
Print Assumptions e2e_request_sslegacy.
Print Assumptions e2e_request_ss2022_identity.
Print Assumptions e2e_answer_ss2022.
Print Assumptions e2e_answer_sslegacy.
Print Assumptions e2e_answer_ss2022_identity.
Print Assumptions e2e_request_vmess.
Print Assumptions e2e_answer_vmess.
Print Assumptions proto_request_transparent.
Print Assumptions proto_answer_transparent.
Print Assumptions c01_flow_transparent.
Print Assumptions handshake_target_acceptable.
Print Assumptions c01_flow_transparent_bytes.
Print Assumptions e2e_ws_same_as_stream.
Print Assumptions flow_request_exact.
Print Assumptions flow_answer_exact.
Print Assumptions e2e_target_closes_after_answering.
Print Assumptions c01_socks5_connect_flow.
Print Assumptions c01_http_connect_host_port_flow.
Print Assumptions c01_plain_http_default_port_flow.
Print Assumptions E2EExamples.tj_flow_ok.
Print Assumptions E2EExamples.ss22_flow_ok.
Print Assumptions E2EExamples.ssid_flow_ok.
Print Assumptions E2EExamples.ssl_flow_ok.
Print Assumptions E2EExamples.vm_flow_ok.
