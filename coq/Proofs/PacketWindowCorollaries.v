(* Corollaries of the one-step refinement (PacketWindowList) in the words of property C11: the ids the implementation's window
   accepts along ANY history are pairwise distinct, all below the limit, and each verdict is the specification's verdict on
   exactly the ids accepted before it. *)
From Coq Require Import NArith List Bool Lia.
From Octo Require Import Model.PacketWindow Proofs.PacketWindowList.
Import ListNotations.
Open Scope N_scope.

(* the ids whose verdict is `true`, in arrival order *)
Fixpoint select (ids : list N) (bs : list bool) : list N :=
  match ids, bs with
  | id :: t, b :: bt => if b then id :: select t bt else select t bt
  | _, _ => []
  end.

Lemma spec_accept_not_in acc id limit : spec_accept acc id limit = true -> ~ In id acc /\ id < limit.
Proof.
  unfold spec_accept. rewrite !andb_true_iff, negb_true_iff, N.ltb_lt. intros [[Hl Hn] _]. split; [|exact Hl].
  intro Hin. assert (existsb (N.eqb id) acc = true) as E.
  { apply existsb_exists. exists id. split; [exact Hin|apply N.eqb_refl]. }
  congruence.
Qed.

Lemma spec_run_fst_select : forall ids acc limit,
  fst (spec_run acc ids limit) = rev (select ids (snd (spec_run acc ids limit))) ++ acc.
Proof.
  induction ids as [|id t IH]; intros acc limit; cbn [spec_run]; [reflexivity|].
  specialize (IH (if spec_accept acc id limit then id :: acc else acc) limit).
  destruct (spec_run (if spec_accept acc id limit then id :: acc else acc) t limit) as [a2 bs] eqn:E.
  cbn [fst snd select] in *. rewrite IH.
  destruct (spec_accept acc id limit); [|reflexivity].
  cbn [rev]. rewrite <- app_assoc. reflexivity.
Qed.

Lemma spec_run_nodup : forall ids acc limit, NoDup acc -> NoDup (fst (spec_run acc ids limit)).
Proof.
  induction ids as [|id t IH]; intros acc limit Hnd; cbn [spec_run]; [exact Hnd|].
  specialize (IH (if spec_accept acc id limit then id :: acc else acc) limit).
  destruct (spec_run (if spec_accept acc id limit then id :: acc else acc) t limit) as [a2 bs] eqn:E.
  cbn [fst] in *. apply IH.
  destruct (spec_accept acc id limit) eqn:Ea; [|exact Hnd].
  constructor; [apply (spec_accept_not_in _ _ _ Ea)|exact Hnd].
Qed.

Lemma spec_run_below_limit : forall ids acc limit,
  Forall (fun id => id < limit) (select ids (snd (spec_run acc ids limit))).
Proof.
  induction ids as [|id t IH]; intros acc limit; cbn [spec_run]; [constructor|].
  specialize (IH (if spec_accept acc id limit then id :: acc else acc) limit).
  destruct (spec_run (if spec_accept acc id limit then id :: acc else acc) t limit) as [a2 bs] eqn:E.
  cbn [snd select] in *.
  destruct (spec_accept acc id limit) eqn:Ea; [|exact IH].
  constructor; [apply (spec_accept_not_in _ _ _ Ea)|exact IH].
Qed.

(* every id the implementation's window accepts is accepted once: for EVERY history *)
Theorem pw_accepted_nodup ids limit : NoDup (select ids (snd (pw_run pw_new ids limit))).
Proof.
  rewrite pw_history_correct.
  pose proof (spec_run_nodup ids [] limit (NoDup_nil _)) as H.
  rewrite spec_run_fst_select, app_nil_r in H.
  apply NoDup_rev in H. rewrite rev_involutive in H. exact H.
Qed.

Theorem pw_accepted_below_limit ids limit : Forall (fun id => id < limit) (select ids (snd (pw_run pw_new ids limit))).
Proof. rewrite pw_history_correct. apply spec_run_below_limit. Qed.

Lemma spec_run_app : forall a b acc limit,
  spec_run acc (a ++ b) limit
  = (fst (spec_run (fst (spec_run acc a limit)) b limit), snd (spec_run acc a limit) ++ snd (spec_run (fst (spec_run acc a limit)) b limit)).
Proof.
  induction a as [|id t IH]; intros b acc limit; cbn [app spec_run fst snd].
  - destruct (spec_run acc b limit); reflexivity.
  - rewrite IH. destruct (spec_run (if spec_accept acc id limit then id :: acc else acc) t limit) as [a1 bs1].
    cbn [fst snd]. reflexivity.
Qed.

Lemma spec_run_length : forall ids acc limit, length (snd (spec_run acc ids limit)) = length ids.
Proof.
  induction ids as [|id t IH]; intros acc limit; cbn [spec_run]; [reflexivity|].
  specialize (IH (if spec_accept acc id limit then id :: acc else acc) limit).
  destruct (spec_run (if spec_accept acc id limit then id :: acc else acc) t limit). cbn [snd length] in *. congruence.
Qed.

(* the property's sentence, position by position: the verdict on the id that arrives after `pre` is the specification's verdict on
   exactly the ids accepted during `pre` (newest first), whatever follows *)
Theorem pw_verdict_at ids_pre id ids_post limit :
  nth (length ids_pre) (snd (pw_run pw_new (ids_pre ++ id :: ids_post) limit)) false
  = spec_accept (rev (select ids_pre (snd (pw_run pw_new ids_pre limit)))) id limit.
Proof.
  rewrite !pw_history_correct, spec_run_app. cbn [snd].
  rewrite app_nth2; rewrite spec_run_length; [|lia]. rewrite PeanoNat.Nat.sub_diag.
  rewrite spec_run_fst_select, app_nil_r. cbn [spec_run].
  destruct (spec_run _ ids_post limit). reflexivity.
Qed.
