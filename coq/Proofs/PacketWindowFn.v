(* One-step refinement of the replay window over a function-valued ring (DESIGN.md Appendix E). *)
From Coq Require Import NArith ZArith Lia Bool ZifyBool ZifyN ZifyNat.
Ltac Zify.zify_post_hook ::= Z.div_mod_to_equations.
Open Scope N_scope.

(* constants as in packet_window.rs *)
Definition BLOCK_BIT_LOG := 6.
Definition BLOCK_BITS := 64.
Definition RING_BLOCKS := 128.
Definition WINDOW := 8128.          (* (RING_BLOCKS-1)*BLOCK_BITS *)
Definition BLOCK_MASK := 127.
Definition BIT_MASK := 63.

Record st := { last : N; ring : N -> N }.   (* ring as a total function on slot index; executable version uses a list *)
Definition init : st := {| last := 0; ring := fun _ => 0 |}.

Definition upd (f : N -> N) (i v : N) : N -> N := fun j => if j =? i then v else f j.

(* for d in 1..=diff: ring[(current+d) & MASK] = 0 *)
Fixpoint clear (f : N -> N) (current : N) (d : nat) : N -> N :=
  match d with
  | O => f
  | S k => upd (clear f current k) (N.land (current + N.of_nat (S k)) BLOCK_MASK) 0
  end.

Definition validate (s : st) (id limit : N) : st * bool :=
  if limit <=? id then (s, false) else
  let index_block := N.shiftr id BLOCK_BIT_LOG in
  let after_move :=
    if last s <? id then
      let current := N.shiftr (last s) BLOCK_BIT_LOG in
      let diff := index_block - current in
      let diff := if RING_BLOCKS <? diff then RING_BLOCKS else diff in
      Some {| last := id; ring := clear (ring s) current (N.to_nat diff) |}
    else if WINDOW <? last s - id then None
    else Some s in
  match after_move with
  | None => (s, false)
  | Some s1 =>
    let ib := N.land index_block BLOCK_MASK in
    let bit := N.land id BIT_MASK in
    let old := ring s1 ib in
    let new := N.lor old (N.shiftl 1 bit) in
    ({| last := last s1; ring := upd (ring s1) ib new |}, negb (old =? new))
  end.

(* ---------- spec ---------- *)
Definition accept (acc : N -> bool) (hi id limit : N) : bool :=
  (id <? limit) && negb (acc id) && (hi <=? id + WINDOW).

(* the block index that slot i currently stands for: the unique b in (hb-128, hb] with b mod 128 = i, as Z *)
Definition blk (hb : N) (i : N) : Z :=
  let hbz := Z.of_N hb in
  (hbz - ((hbz - Z.of_N i) mod 128))%Z.

Definition Inv (s : st) (acc : N -> bool) : Prop :=
  (forall j, acc j = true -> j <= last s) /\
  (forall i t, i < 128 -> t < 64 ->
     N.testbit (ring s i) t =
       (0 <=? blk (last s / 64) i)%Z && acc (Z.to_N (blk (last s / 64) i) * 64 + t)) /\
  (forall i t, i < 128 -> 64 <= t -> N.testbit (ring s i) t = false).

Lemma shiftr6 x : N.shiftr x 6 = x / 64.
Proof. rewrite N.shiftr_div_pow2. reflexivity. Qed.
Lemma land127 x : N.land x 127 = x mod 128.
Proof. change 127 with (N.ones 7). rewrite N.land_ones. reflexivity. Qed.
Lemma land63 x : N.land x 63 = x mod 64.
Proof. change 63 with (N.ones 6). rewrite N.land_ones. reflexivity. Qed.

Lemma blk_range hb i : i < 128 -> (Z.of_N hb - 128 < blk hb i <= Z.of_N hb)%Z /\ (blk hb i mod 128 = Z.of_N i)%Z.
Proof.
  intros Hi. unfold blk. set (h := Z.of_N hb). set (iz := Z.of_N i).
  assert (0 <= iz < 128)%Z by (subst iz; lia).
  pose proof (Z.mod_pos_bound (h - iz) 128 ltac:(lia)). split; [lia|].
  rewrite Zminus_mod. rewrite Z.mod_mod by lia. rewrite <- Zminus_mod.
  replace (h - (h - iz))%Z with iz by lia. apply Z.mod_small; lia.
Qed.

Lemma blk_unique hb i b : i < 128 -> (Z.of_N hb - 128 < b <= Z.of_N hb)%Z -> (b mod 128 = Z.of_N i)%Z -> b = blk hb i.
Proof.
  intros Hi Hr Hm. destruct (blk_range hb i Hi) as [Hr' Hm'].
  assert ((b - blk hb i) mod 128 = 0)%Z.
  { rewrite Zminus_mod, Hm, Hm', Z.sub_diag. reflexivity. }
  apply Z.mod_divide in H; [|lia]. destruct H as [k Hk]. lia.
Qed.

Lemma bit_set old t u : N.testbit (N.lor old (N.shiftl 1 t)) u = N.testbit old u || (u =? t).
Proof.
  rewrite N.lor_spec. f_equal. rewrite N.shiftl_1_l. rewrite N.pow2_bits_eqb. apply N.eqb_sym.
Qed.

Lemma changed_iff old t : negb (old =? N.lor old (N.shiftl 1 t)) = negb (N.testbit old t).
Proof.
  f_equal. destruct (N.testbit old t) eqn:Hb.
  - apply N.eqb_eq. apply N.bits_inj. intro u. rewrite bit_set.
    destruct (N.eqb_spec u t); subst; rewrite ?Hb, ?orb_false_r; reflexivity.
  - apply N.eqb_neq. intro E. assert (N.testbit (N.lor old (N.shiftl 1 t)) t = true).
    { rewrite bit_set, N.eqb_refl, orb_true_r. reflexivity. }
    rewrite <- E in H. congruence.
Qed.

Definition cleared (cur : N) (d : nat) (j : N) : bool :=
  ((Z.of_N j - Z.of_N cur - 1) mod 128 <? Z.of_nat d)%Z.

Lemma clear_spec f cur d j : (d <= 128)%nat -> j < 128 ->
  clear f cur d j = if cleared cur d j then 0 else f j.
Proof.
  induction d as [|k IH]; intros Hd Hj.
  - cbn [clear]. unfold cleared.
    destruct (Z.ltb_spec ((Z.of_N j - Z.of_N cur - 1) mod 128) (Z.of_nat 0)); [lia|reflexivity].
  - cbn [clear]. unfold upd. rewrite land127.
    destruct (N.eqb_spec j ((cur + N.of_nat (S k)) mod 128)) as [E|NE].
    + unfold cleared.
      destruct (Z.ltb_spec ((Z.of_N j - Z.of_N cur - 1) mod 128) (Z.of_nat (S k))); [reflexivity|lia].
    + rewrite IH by lia. unfold cleared.
      destruct (Z.ltb_spec ((Z.of_N j - Z.of_N cur - 1) mod 128) (Z.of_nat k)),
               (Z.ltb_spec ((Z.of_N j - Z.of_N cur - 1) mod 128) (Z.of_nat (S k))); try reflexivity; lia.
Qed.

Definition Inv2 (s : st) (acc : N -> bool) : Prop :=
  (forall j, acc j = true -> j <= last s) /\
  (forall i t, i < 128 -> t < 64 ->
     N.testbit (ring s i) t =
       (0 <=? blk (last s / 64) i)%Z && acc (Z.to_N (blk (last s / 64) i) * 64 + t)).

Definition add (acc : N -> bool) (id : N) : N -> bool := fun j => (j =? id) || acc j.

Lemma blk_self hb : blk hb (hb mod 128) = Z.of_N hb.
Proof. symmetry. apply blk_unique; lia. Qed.

Definition setbit (s : st) (id : N) : st :=
  {| last := last s;
     ring := upd (ring s) ((id / 64) mod 128)
                 (N.lor (ring s ((id / 64) mod 128)) (N.shiftl 1 (id mod 64))) |}.

Lemma set_bit_inv s acc id :
  Inv2 s acc -> id <= last s -> Z.of_N (id / 64) = blk (last s / 64) ((id / 64) mod 128) ->
  Inv2 (setbit s id) (add acc id) /\
  negb (ring s ((id / 64) mod 128) =? N.lor (ring s ((id / 64) mod 128)) (N.shiftl 1 (id mod 64))) = negb (acc id).
Proof.
  intros [Hle Hbits] Hid Hblk. split; [split|].
  - cbn [last setbit]. intros j Hj. unfold add in Hj. apply orb_true_iff in Hj as [E|Hj]; [apply N.eqb_eq in E; lia|auto].
  - cbn [last ring setbit]. intros i t Hi Ht. unfold upd.
    destruct (N.eqb_spec i ((id / 64) mod 128)) as [E|NE].
    + subst i. rewrite bit_set, Hbits by lia. rewrite <- Hblk.
      rewrite N2Z.id. assert ((0 <=? Z.of_N (id / 64))%Z = true) as -> by lia. cbn [andb].
      unfold add. destruct (N.eqb_spec t (id mod 64)) as [Et|Nt].
      * subst t. replace (id / 64 * 64 + id mod 64) with id by lia. rewrite N.eqb_refl, orb_true_r. reflexivity.
      * assert ((id / 64 * 64 + t =? id) = false) as -> by lia. rewrite orb_false_r. reflexivity.
    + rewrite Hbits by assumption. unfold add.
      destruct (Z.leb_spec 0 (blk (last s / 64) i)); [|reflexivity]. cbn [andb].
      assert ((Z.to_N (blk (last s / 64) i) * 64 + t =? id) = false) as ->; [|reflexivity].
      apply N.eqb_neq. intro E. apply NE.
      assert (Z.to_N (blk (last s / 64) i) = id / 64) by lia.
      destruct (blk_range (last s / 64) i Hi) as [_ Hm]. lia.
  - rewrite changed_iff. f_equal. rewrite Hbits by lia.
    rewrite <- Hblk, N2Z.id. assert ((0 <=? Z.of_N (id / 64))%Z = true) as -> by lia. cbn [andb].
    f_equal. lia.
Qed.

(* moving the window forward *)
Definition move (s : st) (id : N) : st :=
  let current := last s / 64 in
  let diff := id / 64 - current in
  let diff := if 128 <? diff then 128 else diff in
  {| last := id; ring := clear (ring s) current (N.to_nat diff) |}.

Lemma move_inv s acc id : Inv2 s acc -> last s < id -> Inv2 (move s id) acc.
Proof.
  intros [Hle Hbits] Hlt. split.
  - cbn [last move]. intros j Hj. specialize (Hle j Hj). lia.
  - cbn [last ring move]. intros i t Hi Ht.
    set (hb := last s / 64). set (hb' := id / 64).
    assert (Hhb : hb <= hb') by (subst hb hb'; lia).
    set (d := if 128 <? hb' - hb then 128 else hb' - hb).
    assert (Hd : (N.to_nat d <= 128)%nat) by (subst d; destruct (N.ltb_spec 128 (hb' - hb)); lia).
    rewrite clear_spec by assumption.
    destruct (blk_range hb i Hi) as [Hr Hm]. destruct (blk_range hb' i Hi) as [Hr' Hm'].
    destruct (cleared hb (N.to_nat d) i) eqn:Hc; unfold cleared in Hc.
    + (* cleared: new block is beyond the old last, so nothing accepted there *)
      rewrite N.bits_0. symmetry.
      destruct (Z.leb_spec 0 (blk hb' i)); [|reflexivity]. cbn [andb].
      destruct (acc (Z.to_N (blk hb' i) * 64 + t)) eqn:Ha; [|reflexivity].
      specialize (Hle _ Ha). exfalso.
      assert (Z.of_N hb < blk hb' i)%Z; [|subst hb; lia].
      subst d. destruct (N.ltb_spec 128 (hb' - hb)); unfold blk in *; lia.
    + (* kept: same block *)
      rewrite Hbits by assumption. fold hb.
      assert (blk hb i = blk hb' i) as ->; [|reflexivity].
      apply blk_unique; [assumption| |assumption].
      subst d. destruct (N.ltb_spec 128 (hb' - hb)); unfold blk in *; lia.
Qed.

Lemma validate_unfold s id limit :
  validate s id limit =
  if limit <=? id then (s, false)
  else if last s <? id then
         (setbit (move s id) id,
          negb (ring (move s id) ((id/64) mod 128) =? N.lor (ring (move s id) ((id/64) mod 128)) (N.shiftl 1 (id mod 64))))
  else if 8128 <? last s - id then (s, false)
  else (setbit s id,
        negb (ring s ((id/64) mod 128) =? N.lor (ring s ((id/64) mod 128)) (N.shiftl 1 (id mod 64)))).
Proof.
  unfold validate, move, setbit, BLOCK_BIT_LOG, BLOCK_MASK, BIT_MASK, RING_BLOCKS, WINDOW.
  rewrite !shiftr6, !land127, !land63.
  destruct (limit <=? id); [reflexivity|].
  destruct (last s <? id); [cbn [last ring]; reflexivity|].
  destruct (8128 <? last s - id); reflexivity.
Qed.

Definition Hi (s : st) (acc : N -> bool) : Prop :=
  acc (last s) = true \/ (last s = 0 /\ forall j, acc j = false).

Definition spec_accept (acc : N -> bool) (id limit : N) : Prop :=
  id < limit /\ acc id = false /\ forall j, acc j = true -> j <= id + 8128.

Theorem validate_refines s acc id limit s' b :
  Inv2 s acc -> Hi s acc -> validate s id limit = (s', b) ->
  (b = true <-> spec_accept acc id limit) /\
  (b = true -> Inv2 s' (add acc id) /\ Hi s' (add acc id)) /\
  (b = false -> last s' = last s /\ forall i, ring s' i = ring s i).
Proof.
  intros HI HH. rewrite validate_unfold.
  destruct (N.leb_spec limit id) as [Hlim|Hlim].
  { cbv iota. intros Heq; apply pair_equal_spec in Heq; destruct Heq as [<- <-].
    split; [|split]; [|discriminate|intros _; split; reflexivity].
    split; [discriminate|]. intros [H _]. lia. }
  destruct (N.ltb_spec (last s) id) as [Hgt|Hle].
  - pose proof (move_inv s acc id HI Hgt) as HI1.
    assert (Hblk : Z.of_N (id / 64) = blk (last (move s id) / 64) ((id / 64) mod 128))
      by (cbn [last move]; symmetry; apply blk_self).
    destruct (set_bit_inv (move s id) acc id HI1 ltac:(cbn [last move]; lia) Hblk) as [HI2 Hb].
    cbv iota. intros Heq; apply pair_equal_spec in Heq; destruct Heq as [<- <-]. rewrite Hb.
    assert (Hacc : acc id = false).
    { destruct (acc id) eqn:E; [|reflexivity]. destruct HI as [Hle _]. specialize (Hle _ E). lia. }
    rewrite Hacc. cbn [negb]. split; [|split]; [|intros _|discriminate].
    + split; [intros _|reflexivity]. split; [lia|split; [assumption|]].
      intros j Hj. destruct HI as [Hle _]. specialize (Hle _ Hj). lia.
    + split; [assumption|]. unfold Hi. left. cbn [last setbit move]. unfold add. rewrite N.eqb_refl. reflexivity.
  - destruct (N.ltb_spec 8128 (last s - id)) as [Hold|Hin].
    + cbv iota. intros Heq; apply pair_equal_spec in Heq; destruct Heq as [<- <-].
      split; [|split]; [|discriminate|intros _; split; reflexivity].
      split; [discriminate|]. intros (_ & _ & Hall).
      destruct HH as [Hl|[Hz _]]; [specialize (Hall _ Hl); lia|lia].
    + assert (Hblk : Z.of_N (id / 64) = blk (last s / 64) ((id / 64) mod 128)).
      { apply blk_unique; lia. }
      destruct (set_bit_inv s acc id HI Hle Hblk) as [HI2 Hb].
      cbv iota. intros Heq; apply pair_equal_spec in Heq; destruct Heq as [<- <-]. rewrite Hb. split; [|split].
      * destruct (acc id) eqn:E; cbn [negb].
        -- split; [discriminate|]. intros (_ & H & _). congruence.
        -- split; [intros _|reflexivity]. split; [lia|split; [assumption|]].
           intros j Hj. destruct HI as [Hle' _]. specialize (Hle' _ Hj). lia.
      * intros _. split; [assumption|]. unfold Hi. cbn [last setbit]. unfold add.
        destruct HH as [Hl|[Hz Hall]]; [left; rewrite Hl; apply orb_true_r|].
        left. assert (id = 0) by lia. subst id. rewrite Hz. reflexivity.
      * intros Hf. cbn [last setbit ring]. split; [reflexivity|]. intro i. unfold upd.
        destruct (N.eqb_spec i ((id / 64) mod 128)) as [->|]; [|reflexivity].
        rewrite Hf in Hb. apply negb_false_iff in Hb. apply N.eqb_eq in Hb. symmetry; exact Hb.
Qed.

Lemma init_inv : Inv2 init (fun _ => false) /\ Hi init (fun _ => false).
Proof.
  split; [split|].
  - discriminate.
  - intros i t _ _. cbn [ring init]. rewrite N.bits_0. destruct (0 <=? blk (last init / 64) i)%Z; reflexivity.
  - right. split; reflexivity.
Qed.
