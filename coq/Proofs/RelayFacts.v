(* Facts about Model/Relay.v:
     delivered_is_prefix      bytes delivered to B are a prefix of the bytes read from A (and B->A)
     eof_delivers_all         a flow that ended with Close(d) delivered everything of direction d
                              and closed the destination in order, after an end of stream
     first_exit_ends_flow     once a pump has returned nothing is processed any more
     resources_freed          a returned flow owns nothing; a running flow owns all four
     directions_independent   the lane of direction d is a function of the d-events alone *)
From Coq Require Import NArith List Bool Lia.
From Octo Require Import Model.Relay.
Import ListNotations.

(* ---------------- the lane invariant: read = delivered ++ in flight ---------------- *)
Definition lane_ok (l : lane) : Prop := rd l = del l ++ inf l.

Lemma lstep_ok l e : lane_ok l -> lane_ok (fst (lstep l e)).
Proof.
  unfold lane_ok; intros H.
  destruct e as [bs| | |ends|n| |]; destruct (pump l) eqn:P; simpl; rewrite ?P; simpl; auto.
  - rewrite H, <- app_assoc; reflexivity.
  - destruct ends; simpl; auto.
  - destruct ends; simpl; auto.
  - rewrite <- app_assoc, firstn_skipn; exact H.
  - rewrite <- app_assoc, firstn_skipn; exact H.
  - destruct (inf l) eqn:I; simpl; auto. rewrite H, I; reflexivity.
Qed.

Definition flow_ok (f : flow) : Prop := lane_ok (ab f) /\ lane_ok (ba f).

Lemma lane_of_set_same d l f : lane_of d (set_lane d l f) = l.
Proof. destruct d; reflexivity. Qed.
Lemma lane_of_set_other d d' l f : d <> d' -> lane_of d (set_lane d' l f) = lane_of d f.
Proof. destruct d, d'; try reflexivity; intros H; exfalso; apply H; reflexivity. Qed.
Lemma ph_set_lane d l f : ph (set_lane d l f) = ph f.
Proof. destruct d; reflexivity. Qed.
Lemma res_set_lane d l f : res (set_lane d l f) = res f.
Proof. destruct d; reflexivity. Qed.

Lemma set_lane_ok d l f : flow_ok f -> lane_ok l -> flow_ok (set_lane d l f).
Proof. unfold flow_ok; destruct d; simpl; intuition. Qed.

Lemma step_ok f e : flow_ok f -> flow_ok (step f e).
Proof.
  intros H. unfold step. destruct (ph f).
  - destruct e; simpl; auto.
    + destruct H as [_ Hb]. split; simpl; auto. unfold lane_ok; simpl. rewrite app_nil_r; reflexivity.
  - destruct e as [| |d le]; auto.
    pose proof (lstep_ok (lane_of d f) le) as Hl.
    destruct (lstep (lane_of d f) le) as [l' r]; simpl in Hl.
    assert (Hd : lane_ok (lane_of d f)) by (destruct H; destruct d; assumption).
    specialize (Hl Hd).
    destruct r; [unfold finish, flow_ok; simpl|]; apply (set_lane_ok d l' f H Hl).
  - exact H.
Qed.

Lemma run_ok evs : forall f, flow_ok f -> flow_ok (run f evs).
Proof. induction evs as [|e t IH]; simpl; intros f H; auto. apply IH, step_ok, H. Qed.

Lemma init_ok first : flow_ok (init first).
Proof. split; reflexivity. Qed.

(* P1: whatever happened, what B received is a prefix of what was read from A, and symmetrically *)
Theorem delivered_is_prefix :
  forall (first : bytes) (evs : list event) (d : dir),
    let l := lane_of d (run (init first) evs) in
    exists rest, rd l = del l ++ rest.
Proof.
  intros first evs d l. exists (inf l).
  pose proof (run_ok evs _ (init_ok first)) as [Ha Hb]. destruct d; assumption.
Qed.

(* and the prefix is exact: the missing part is what was still in flight *)
Theorem delivered_plus_inflight :
  forall first evs d, let l := lane_of d (run (init first) evs) in rd l = del l ++ inf l.
Proof.
  intros first evs d l. pose proof (run_ok evs _ (init_ok first)) as [Ha Hb]. destruct d; assumption.
Qed.

(* ---------------- first exit ends the flow ---------------- *)
Lemma step_done f e : is_done f = true -> step f e = f.
Proof. unfold is_done, step. destruct (ph f); try discriminate; reflexivity. Qed.

Lemma run_done evs : forall f, is_done f = true -> run f evs = f.
Proof. induction evs as [|e t IH]; simpl; intros f H; auto. rewrite step_done by exact H. apply IH, H. Qed.

(* P2: after the first pump has returned (or the opening send failed) no event is processed *)
Theorem first_exit_ends_flow :
  forall f evs, is_done f = true -> run f evs = f.
Proof. intros; apply run_done; assumption. Qed.

(* ... and the flow returns exactly when a pump returns: a step of a live flow ends it iff lstep returned *)
Theorem flow_returns_with_first_pump :
  forall f d le, ph f = Live ->
    match snd (lstep (lane_of d f) le) with
    | Some r => ph (step f (On d le)) = Done (Some d) r
    | None => ph (step f (On d le)) = Live
    end.
Proof.
  intros f d le H. unfold step; rewrite H.
  destruct (lstep (lane_of d f) le) as [l' [r|]]; simpl; [reflexivity|]. rewrite ph_set_lane; exact H.
Qed.

(* ---------------- resources ---------------- *)
Definition res_inv (f : flow) : Prop :=
  match ph f with Done _ _ => res f = [] | _ => res f = all_resources end.

Lemma step_res f e : res_inv f -> res_inv (step f e).
Proof.
  unfold res_inv, step. destruct (ph f) eqn:P.
  - destruct e; simpl; rewrite ?P; auto.
  - destruct e as [| |d le]; rewrite ?P; auto.
    destruct (lstep (lane_of d f) le) as [l' [r|]]; simpl; auto.
    rewrite ph_set_lane, res_set_lane, P; auto.
  - rewrite P; auto.
Qed.

Lemma run_res evs : forall f, res_inv f -> res_inv (run f evs).
Proof. induction evs as [|e t IH]; simpl; intros f H; auto. apply IH, step_res, H. Qed.

(* P3: a flow that has returned owns neither socket nor task; until then it owns exactly its four *)
Theorem resources_freed :
  forall first evs, let f := run (init first) evs in
    (is_done f = true -> res f = []) /\ (is_done f = false -> res f = all_resources).
Proof.
  intros first evs f. assert (H : res_inv f) by (apply run_res; reflexivity).
  unfold res_inv, is_done in *. destruct (ph f); split; intros; auto; discriminate.
Qed.

(* ---------------- end of stream ---------------- *)
(* Closing is entered only by an end of stream (or, on the server, a filtered error of a stream that ends) *)
Definition closing_evidence (d : dir) (evs : list event) : Prop :=
  In (On d LEof) evs \/ In (On d (LFilteredErr true)) evs.

Definition eof_inv (seen : list event) (f : flow) : Prop :=
  forall d, (pump (lane_of d f) = Closing -> closing_evidence d seen) /\
            (shut (lane_of d f) = true -> pump (lane_of d f) = Closing /\ inf (lane_of d f) = [] /\
                                          ph f = Done (Some d) Closed) /\
            (ph f = Done (Some d) Closed -> shut (lane_of d f) = true).

Lemma closing_evidence_snoc d seen e : closing_evidence d seen -> closing_evidence d (seen ++ [e]).
Proof. unfold closing_evidence; intros [H|H]; [left|right]; apply in_or_app; left; exact H. Qed.

(* case analysis of one pump step *)
Ltac lcases l e :=
  destruct e as [bs| | |[|]|n| |]; destruct (pump l) eqn:P; simpl; rewrite ?P; simpl;
  try match goal with |- context [match inf l with _ => _ end] => destruct (inf l) eqn:I; simpl end.

Lemma lstep_pump l e :
  pump (fst (lstep l e)) = Closing -> pump l = Closing \/ e = LEof \/ e = LFilteredErr true.
Proof. lcases l e; auto; try discriminate; try (rewrite P; discriminate). Qed.

Lemma lstep_shut l e l' r :
  lstep l e = (l', r) -> shut l = false ->
  (shut l' = true -> pump l' = Closing /\ inf l' = [] /\ r = Some Closed) /\
  (r = Some Closed -> shut l' = true).
Proof.
  lcases l e; intros HH Hs; inversion HH; subst; simpl; rewrite ?Hs; split; intros; try discriminate; auto.
Qed.

Lemma step_eof seen f e : eof_inv seen f -> eof_inv (seen ++ [e]) (step f e).
Proof.
  intros H. unfold step. destruct (ph f) eqn:P.
  - (* Opening *)
    destruct e as [| |d0 le].
    + intros d. destruct (H d) as (H1 & H2 & H3). destruct d; simpl.
      * repeat split; intros; try discriminate.
      * repeat split; intros; try discriminate.
        -- apply closing_evidence_snoc; auto.
        -- destruct (H2 H0) as (_ & _ & C). rewrite P in C; discriminate.
        -- destruct (H2 H0) as (_ & _ & C). rewrite P in C; discriminate.
        -- destruct (H2 H0) as (_ & _ & C). rewrite P in C; discriminate.
    + intros d. destruct (H d) as (H1 & H2 & H3).
      assert (L : lane_of d (finish f None Failed) = lane_of d f) by (destruct d; reflexivity).
      rewrite L. simpl. repeat split; intros; try discriminate.
      * apply closing_evidence_snoc; auto.
      * apply H2; auto.
      * apply H2; auto.
      * destruct (H2 H0) as (_ & _ & C). rewrite P in C; discriminate.
    + intros d. destruct (H d) as (H1 & H2 & H3). rewrite P in *. repeat split; intros.
      * apply closing_evidence_snoc; auto.
      * apply H2; auto.
      * apply H2; auto.
      * apply H2; auto.
      * discriminate.
  - (* Live *)
    destruct e as [| |d0 le].
    1,2: intros d; destruct (H d) as (H1 & H2 & H3); rewrite P in *; repeat split; intros;
         try discriminate; try (apply closing_evidence_snoc; auto); try (apply H2; auto).
    destruct (lstep (lane_of d0 f) le) as [l' r] eqn:L.
    assert (Hsh : forall d, shut (lane_of d f) = false).
    { intros d. destruct (shut (lane_of d f)) eqn:S; auto.
      destruct (H d) as (_ & H2 & _). destruct (H2 S) as (_ & _ & C). rewrite P in C; discriminate. }
    pose proof (lstep_shut _ _ _ _ L (Hsh d0)) as [S1 S2].
    pose proof (lstep_pump (lane_of d0 f) le) as Pp. rewrite L in Pp; simpl in Pp.
    intros d. destruct (H d) as (H1 & H2 & H3).
    assert (Lane : forall g, lane_of d g = lane_of d g) by reflexivity.
    destruct (dir_eqb d d0) eqn:E.
    + assert (d = d0) by (destruct d, d0; try discriminate; reflexivity). subst d0.
      assert (LL : forall r', lane_of d (match r' with None => set_lane d l' f
                                        | Some r0 => finish (set_lane d l' f) (Some d) r0 end) = l').
      { intros [r0|]; [|apply lane_of_set_same]. destruct d; reflexivity. }
      rewrite LL. split; [|split].
      * intros Hc. destruct (Pp Hc) as [Q|[Q|Q]].
        -- apply closing_evidence_snoc; auto.
        -- subst le. left. apply in_or_app; right; left; reflexivity.
        -- subst le. right. apply in_or_app; right; left; reflexivity.
      * intros Hs. destruct (S1 Hs) as (A1 & A2 & A3). subst r. simpl. auto.
      * destruct r as [r0|]; simpl.
        -- intros [= ->]. apply S2; reflexivity.
        -- rewrite ph_set_lane, P; discriminate.
    + assert (Hne : d <> d0) by (intros ->; destruct d0; discriminate).
      assert (LL : forall r', lane_of d (match r' with None => set_lane d0 l' f
                                        | Some r0 => finish (set_lane d0 l' f) (Some d0) r0 end) = lane_of d f).
      { intros [r0|]; [|apply lane_of_set_other; auto].
        destruct d, d0; try reflexivity; exfalso; apply Hne; reflexivity. }
      rewrite LL. rewrite (Hsh d). split; [|split].
      * intros Hc. apply closing_evidence_snoc; auto.
      * discriminate.
      * destruct r as [r0|]; simpl.
        -- intros [= C _]. exfalso; apply Hne; symmetry; exact C.
        -- rewrite ph_set_lane, P; discriminate.
  - (* Done *)
    intros d. destruct (H d) as (H1 & H2 & H3). rewrite P in *. repeat split; intros;
      try (apply closing_evidence_snoc; auto); try (apply H2; auto); try (apply H3; auto).
Qed.

Lemma run_eof evs : forall seen f, eof_inv seen f -> eof_inv (seen ++ evs) (run f evs).
Proof.
  induction evs as [|e t IH]; simpl; intros seen f H.
  - rewrite app_nil_r; exact H.
  - replace (seen ++ e :: t) with ((seen ++ [e]) ++ t) by (rewrite <- app_assoc; reflexivity).
    apply IH, step_eof, H.
Qed.

Lemma init_eof first : eof_inv [] (init first).
Proof. intros d; destruct d; simpl; repeat split; intros; discriminate. Qed.

(* P4: if the flow ended because the pump of direction d completed (relay::Result::Close), then
   the stream of d had ended, EVERYTHING read in direction d was delivered, nothing is in flight,
   and the destination was shut down in order -- all of it before the flow future returned
   (the state is the one at the return: nothing is processed afterwards, first_exit_ends_flow). *)
Theorem eof_delivers_all :
  forall first evs d, let f := run (init first) evs in
    ph f = Done (Some d) Closed ->
    del (lane_of d f) = rd (lane_of d f) /\ inf (lane_of d f) = [] /\ shut (lane_of d f) = true /\
    closing_evidence d evs.
Proof.
  intros first evs d f Hd.
  pose proof (run_eof evs [] _ (init_eof first) d) as (H1 & H2 & H3). simpl in H1, H2, H3.
  fold f in H1, H2, H3.
  specialize (H3 Hd). destruct (H2 H3) as (A & B & _).
  pose proof (delivered_plus_inflight first evs d) as Hp. simpl in Hp. fold f in Hp.
  rewrite B, app_nil_r in Hp. auto.
Qed.

(* conversely an orderly end of stream is only ever shown to the destination by a completing pump *)
Theorem shut_only_by_close :
  forall first evs d, let f := run (init first) evs in
    shut (lane_of d f) = true -> ph f = Done (Some d) Closed.
Proof.
  intros first evs d f Hs.
  pose proof (run_eof evs [] _ (init_eof first) d) as (_ & H2 & _). apply H2, Hs.
Qed.

(* after its stream has ended a pump reads nothing more *)
Lemma lstep_closing_rd l e : pump l = Closing -> rd (fst (lstep l e)) = rd l /\ pump (fst (lstep l e)) = Closing.
Proof. intros Pc. lcases l e; auto; discriminate. Qed.

(* ---------------- independence of the two directions ---------------- *)
Lemma dir_eqb_eq a b : dir_eqb a b = true <-> a = b.
Proof. destruct a, b; simpl; split; intros; try discriminate; reflexivity. Qed.

(* what one event of the history does to the lane of direction d *)
Definition lane_after (d : dir) (l : lane) (e : event) : lane :=
  match e with
  | On d' le => if dir_eqb d d' then fst (lstep l le) else l
  | _ => l
  end.

Lemma lrun_proj_cons d l e t : lrun l (proj d (e :: t)) = lrun (lane_after d l e) (proj d t).
Proof. destruct e as [| |d' le]; simpl; try reflexivity. destruct (dir_eqb d d'); reflexivity. Qed.

Lemma lane_of_finish d f o r : lane_of d (finish f o r) = lane_of d f.
Proof. destruct d; reflexivity. Qed.

(* a step of a live flow changes the lane of d by the d-part of the event -- also when it ends the flow *)
Lemma lane_step d f e : ph f = Live -> lane_of d (step f e) = lane_after d (lane_of d f) e.
Proof.
  intros HL. unfold step. rewrite HL. destruct e as [| |d0 le]; try reflexivity. simpl.
  destruct (lstep (lane_of d0 f) le) as [l' r] eqn:L.
  assert (X : lane_of d (match r with None => set_lane d0 l' f
                         | Some r0 => finish (set_lane d0 l' f) (Some d0) r0 end)
              = lane_of d (set_lane d0 l' f)).
  { destruct r; [apply lane_of_finish|reflexivity]. }
  rewrite X. destruct (dir_eqb d d0) eqn:E.
  - apply dir_eqb_eq in E; subst d0. rewrite lane_of_set_same, L. reflexivity.
  - apply lane_of_set_other. intros ->. destruct d0; discriminate.
Qed.

Lemma step_live_or_done f e : ph f = Live -> ph (step f e) = Live \/ is_done (step f e) = true.
Proof.
  intros HL. unfold step, is_done. rewrite HL. destruct e as [| |d0 le]; rewrite ?HL; auto.
  destruct (lstep (lane_of d0 f) le) as [l' [r|]]; simpl; auto. rewrite ph_set_lane, HL; auto.
Qed.

(* P5a: as long as the flow has not ended, the A->B lane (what was read, what is in flight, what
   B has received) is a function of the A->B events alone: the B->A events, and the way the two are
   interleaved, do not matter *)
Theorem directions_independent :
  forall evs f d, ph f = Live -> ph (run f evs) = Live ->
    lane_of d (run f evs) = lrun (lane_of d f) (proj d evs).
Proof.
  induction evs as [|e t IH]; intros f d HL HE; [reflexivity|].
  simpl run in *. rewrite lrun_proj_cons, <- lane_step by exact HL.
  destruct (step_live_or_done f e HL) as [HS|HD].
  - apply IH; assumption.
  - rewrite run_done in HE by exact HD. unfold is_done in HD. rewrite HE in HD; discriminate.
Qed.

(* P5b: in general the lane is that function of the d-events of a prefix of the history -- the
   prefix that ends with the event on which the flow returned *)
Theorem directions_independent_upto_end :
  forall evs f d, ph f = Live ->
    exists k, k <= length evs /\
      lane_of d (run f evs) = lrun (lane_of d f) (proj d (firstn k evs)) /\
      (ph (run f evs) = Live -> k = length evs).
Proof.
  induction evs as [|e t IH]; intros f d HL.
  - exists 0; simpl; auto.
  - simpl run. destruct (step_live_or_done f e HL) as [HS|HD].
    + destruct (IH (step f e) d HS) as (k & Hk & Hl & Hlive).
      exists (S k). split; [simpl; lia|]. split; [|intros H; simpl; f_equal; auto].
      rewrite Hl. change (firstn (S k) (e :: t)) with (e :: firstn k t).
      rewrite lrun_proj_cons, <- lane_step by exact HL. reflexivity.
    + rewrite run_done by exact HD.
      exists 1. split; [simpl; lia|]. split.
      * change (firstn 1 (e :: t)) with (e :: firstn 0 t). rewrite lrun_proj_cons, <- lane_step by exact HL.
        reflexivity.
      * intros H. unfold is_done in HD. rewrite H in HD; discriminate.
Qed.

(* consequence in the words of the property: two histories with the same A->B events that both
   leave the flow running have delivered the same bytes to B *)
Corollary same_events_same_delivery :
  forall f evs1 evs2 d, ph f = Live -> ph (run f evs1) = Live -> ph (run f evs2) = Live ->
    proj d evs1 = proj d evs2 ->
    del (lane_of d (run f evs1)) = del (lane_of d (run f evs2)).
Proof.
  intros f evs1 evs2 d HL H1 H2 HP.
  rewrite (directions_independent evs1 f d HL H1), (directions_independent evs2 f d HL H2), HP. reflexivity.
Qed.

(* ---------------- non-vacuity: concrete histories ---------------- *)
Open Scope N_scope.

(* server shape: first = payload of ConnectTcp; A sends 3 more bytes and closes; B answers 2 bytes *)
Definition ex_hist : list event :=
  [OpenOk; On AB (LRead [4;5;6]); On BA (LRead [9;8]); On AB (LWrite 2); On BA (LWrite 2);
   On AB LEof; On AB LShut (* refused: one byte still in flight *); On AB (LWrite 1); On AB LShut;
   On BA (LRead [7])  (* never processed *)].

Example ex_close :
  let f := run (init [1;2;3]) ex_hist in
  ph f = Done (Some AB) Closed /\ del (ab f) = [1;2;3;4;5;6] /\ shut (ab f) = true /\
  del (ba f) = [9;8] /\ rd (ba f) = [9;8] /\ shut (ba f) = false /\ res f = [].
Proof. vm_compute. repeat split. Qed.

(* the price of "first exit ends the flow": bytes in flight in the OTHER direction are dropped.
   B->A has read 3 bytes, A's socket took one, then A's stream failed (client: reset by the local
   application): the flow returns and two bytes never reach A *)
Example ex_inflight_lost :
  let f := run (init []) [OpenOk; On BA (LRead [1;2;3]); On BA (LWrite 1); On AB LStreamErr; On BA (LWrite 2)] in
  ph f = Done (Some AB) Failed /\ del (ba f) = [1] /\ inf (ba f) = [2;3] /\ shut (ba f) = false /\ res f = [].
Proof. vm_compute. repeat split. Qed.

(* server: a decode error of the inbound stream is filtered; Framed then ends, so it acts as EOF *)
Example ex_filtered_error_is_eof :
  let f := run (init [1]) [OpenOk; On AB (LRead [2]); On AB (LFilteredErr true); On AB (LWrite 1); On AB LShut] in
  ph f = Done (Some AB) Closed /\ del (ab f) = [1;2] /\ shut (ab f) = true.
Proof. vm_compute. repeat split. Qed.

(* a failing opening send: nothing delivered, everything freed *)
Example ex_open_err :
  let f := run (init [1;2]) [OpenErr; OpenOk; On AB (LRead [3])] in
  ph f = Done None Failed /\ del (ab f) = [] /\ res f = [].
Proof. vm_compute. repeat split. Qed.

Print Assumptions delivered_is_prefix.
Print Assumptions eof_delivers_all.
Print Assumptions first_exit_ends_flow.
Print Assumptions resources_freed.
Print Assumptions directions_independent.
Print Assumptions directions_independent_upto_end.
